import HgVerif.Lemmas.GStateSpec
/-!
# C07 (global-state isolation stream) - harness runs do not see what the selected GlobalState held before

The model (`Model/GState.lean`) is `testing::eval_node`'s life-cycle: wire under the selected state (the builder
copies it), seed the replay buffer, make an executor (the root graph copies the builder's state), start (every
`dense_record_impl` sink ERASES its key, both layouts), evaluate, read back, copy the completed state back.

For ALL prior states `s` (any content under any key, in any buffer layout - not only states earlier runs produce),
all graphs of the shape `replay -> node_j -> record_j` with arbitrary stateful nodes, both layouts, all inputs:

* `run_trace_independent_of_prior_state` : the observed recordings (or exception) depend on the prior state only
      through the keys of PERSISTENT (`:memory:`) sinks; with harness sinks only, on nothing.
* `run_trace_eq_fresh`                   : ... hence equal the run in the empty state.
* `run_preserves_other_keys`             : keys that are neither the replay key nor a sink key keep their content.
* `run_state_on_owned_keys`              : the replay buffer is kept (not consumed) under the replay key.
* `rerun_idempotent`, `rerun_state_fixpoint` : running again after copy-back gives the same trace and the same state.
* `history_irrelevant`                   : the same for every process history (contexts, seeds, earlier runs, copy-backs).
* `reuse_same_trace`                     : every further executor from the same builder observes what the first did.
* `run_trace_is_spec`                    : the recording IS the fold of the node over the ticking cycles
                                           (what the monitor computes from the inputs alone), appended to the prior
                                           recording for a persistent sink (`persistent_sink_appends`).
* `fuel_enough`                          : the loop's fuel never cuts a run short.
-/
namespace HgVerif.GState

/-- harness sinks only (`dense_record_impl`); the persistent `:memory:` sink appends across runs by contract -/
def NoPersist (g : Graph) : Prop := ∀ sk ∈ g.sinks, sk.persist = false

theorem exec_agree (g : Graph) (lay : Layout) (n : Nat) (b : Buf) {s1 s2 : GState}
    (h : ∀ sk ∈ g.sinks, sk.persist = true → get s1 sk.key = get s2 sk.key) :
    AgreeOn (ownedKeys g) (exec g lay n (set s1 g.inKey b)).1 (exec g lay n (set s2 g.inKey b)).1 ∧
      (exec g lay n (set s1 g.inKey b)).2 = (exec g lay n (set s2 g.inKey b)).2 := by
  unfold exec
  apply cycles_agree lay g.inKey (by simp [ownedKeys]) (n + 1) 0
  · intro p hp
    obtain ⟨sk, hsk, e⟩ := List.mem_map.mp hp
    subst e
    simp only [ownedKeys, List.mem_cons, List.mem_map]
    exact Or.inr ⟨sk, hsk, rfl⟩
  · exact start_agree g b h

theorem observe_agree (g : Graph) (lay : Layout) {r1 r2 : GState × Option Err}
    (ha : AgreeOn (ownedKeys g) r1.1 r2.1) (he : r1.2 = r2.2) : observe g lay r1 = observe g lay r2 := by
  unfold observe
  rw [he]
  cases r2.2 with
  | some e => rfl
  | none =>
    simp only
    apply readAll_agree ha
    intro sk hsk
    simp only [ownedKeys, List.mem_cons, List.mem_map]
    exact Or.inr ⟨sk, hsk, rfl⟩

/-- **Isolation.**  What a run records (per sink, or the exception it raises) is the same for any two prior
    states that agree on the keys of the graph's PERSISTENT sinks - whatever else they hold, including earlier
    recordings in any layout under the run's own output keys and under its replay key. -/
theorem run_trace_independent_of_prior_state (g : Graph) (lay : Layout) (inp : List (Option Int)) (s1 s2 : GState)
    (h : ∀ sk ∈ g.sinks, sk.persist = true → get s1 sk.key = get s2 sk.key) :
    (run g lay inp s1).2 = (run g lay inp s2).2 := by
  unfold run buildState
  have := exec_agree g lay inp.length (.any inp) h
  exact observe_agree g lay this.1 this.2

/-- with harness sinks only: every prior state gives the trace of the EMPTY state -/
theorem run_trace_eq_fresh (g : Graph) (hg : NoPersist g) (lay : Layout) (inp : List (Option Int)) (s : GState) :
    (run g lay inp s).2 = (run g lay inp []).2 :=
  run_trace_independent_of_prior_state g lay inp s [] (fun sk hsk hp => by rw [hg sk hsk] at hp; cases hp)

/-- **Keys a run does not own are untouched**: every key other than the replay key and the sink keys has, in
    the executor's final state (the one copied back), exactly the content the prior state had. -/
theorem run_preserves_other_keys (g : Graph) (lay : Layout) (inp : List (Option Int)) (s : GState) (k : Key)
    (hk : k ∉ ownedKeys g) : get (run g lay inp s).1 k = get s k := by
  have hin : k ≠ g.inKey := fun e => hk (by simp [ownedKeys, e])
  have hks : k ∉ g.sinks.map (·.key) := fun e => hk (by simp only [ownedKeys, List.mem_cons]; exact Or.inr e)
  unfold run exec buildState
  simp only
  rw [cycles_other]
  · rw [get_startSinks]
    have : erasedBy g.sinks k = false := by
      cases he : erasedBy g.sinks k with
      | false => rfl
      | true =>
        unfold erasedBy at he
        obtain ⟨sk, hsk, hc⟩ := List.any_eq_true.mp he
        have : sk.key = k := by
          simp only [Bool.and_eq_true, beq_iff_eq] at hc; exact hc.2
        exact absurd (List.mem_map.mpr ⟨sk, hsk, this⟩) hks
    rw [this]
    simp only [Bool.false_eq_true, ↓reduceIte]
    exact get_set_ne _ _ hin
  · unfold keysOf
    rw [List.map_map]
    exact hks

/-- final states of two runs agree on the owned keys as well -/
theorem run_state_agree (g : Graph) (lay : Layout) (inp : List (Option Int)) (s1 s2 : GState)
    (h : ∀ sk ∈ g.sinks, sk.persist = true → get s1 sk.key = get s2 sk.key) :
    AgreeOn (ownedKeys g) (run g lay inp s1).1 (run g lay inp s2).1 := by
  unfold run buildState
  exact (exec_agree g lay inp.length (.any inp) h).1

/-- **Re-run after copy-back**: wiring the same graph with the same inputs under the state the first run left
    behind records the same trace. -/
theorem rerun_idempotent (g : Graph) (hg : NoPersist g) (lay : Layout) (inp : List (Option Int)) (s : GState) :
    (run g lay inp (copyFrom s (run g lay inp s).1)).2 = (run g lay inp s).2 := by
  unfold copyFrom
  rw [run_trace_eq_fresh g hg, run_trace_eq_fresh g hg lay inp s]

/-- ... and leaves the same state behind (key by key): the second copy-back changes nothing. -/
theorem rerun_state_fixpoint (g : Graph) (hg : NoPersist g) (lay : Layout) (inp : List (Option Int)) (s : GState)
    (k : Key) : get (run g lay inp (copyFrom s (run g lay inp s).1)).1 k = get (run g lay inp s).1 k := by
  unfold copyFrom
  by_cases hk : k ∈ ownedKeys g
  · exact run_state_agree g lay inp _ s (fun sk hsk hp => by rw [hg sk hsk] at hp; cases hp) k hk
  · rw [run_preserves_other_keys g lay inp _ k hk]

/-- **Any process history.**  Whatever contexts were created, seeded, selected, run under and copied back to
    (`p` is an arbitrary driver state), the next run observes what it observes in a brand-new process. -/
theorem history_irrelevant (p : Proc) (g : Graph) (hg : NoPersist g) (lay : Layout) (inp : List (Option Int)) :
    (p.run g lay inp).2 = (({} : Proc).run g lay inp).2 := by
  show (run g lay inp (p.selected.getD [])).2 = (run g lay inp []).2
  exact run_trace_eq_fresh g hg lay inp _

theorem reuse_builder (p : Proc) (k : Nat) : (p.reuse k).1.builder = p.builder := by
  induction k generalizing p with
  | zero => rfl
  | succ k ih =>
    unfold Proc.reuse
    cases hb : p.builder with
    | none => simp [hb]
    | some bd => simp only; rw [ih]

/-- **Builder reuse**: each of the `k` further executors made from the builder of a run observes exactly
    what the first executor observed (persistent sinks included: each starts from the builder's seed). -/
theorem reuse_same_trace (p : Proc) (g : Graph) (lay : Layout) (inp : List (Option Int)) (k : Nat) :
    ∀ o ∈ ((p.run g lay inp).1.reuse k).2, o = (p.run g lay inp).2 := by
  have key : ∀ (k : Nat) (q : Proc), q.builder = (p.run g lay inp).1.builder →
      ∀ o ∈ (q.reuse k).2, o = (p.run g lay inp).2 := by
    intro k
    induction k with
    | zero => intro q _ o ho; simp [Proc.reuse] at ho
    | succ k ih =>
      intro q hq o ho
      unfold Proc.reuse at ho
      rw [hq] at ho
      simp only [Proc.run] at ho
      rcases List.mem_cons.mp ho with e | e
      · rw [e]; rfl
      · exact ih _ (by simp [Proc.run] at hq ⊢) o e
  exact key k _ rfl

/-! ## the recording is the fold over the inputs (what the monitor computes) -/

/-- sink keys pairwise distinct and different from the replay key (the drivers reject anything else,
    except a sink key equal to the replay key - see `sink_on_replay_key_records_nothing`) -/
structure WellKeyed (g : Graph) : Prop where
  nodup : (g.sinks.map (·.key)).Nodup
  inKey : g.inKey ∉ g.sinks.map (·.key)

/-- the recording a PERSISTENT sink finds under its key (harness sinks erase theirs) -/
def priorOf (sk : Sink) (s : GState) : Trace :=
  if sk.persist then (match get s sk.key with | some (.sparse xs) => xs | _ => []) else []

theorem eq_of_nodup_keys : ∀ (l : List Sink), (l.map (·.key)).Nodup → ∀ a ∈ l, ∀ b ∈ l, a.key = b.key → a = b
  | [], _, a, ha, _, _, _ => by cases ha
  | x :: l, h, a, ha, b, hb, e => by
    have hx : x.key ∉ l.map (·.key) ∧ (l.map (·.key)).Nodup := by simpa using h
    rcases List.mem_cons.mp ha with rfl | ha' <;> rcases List.mem_cons.mp hb with rfl | hb'
    · rfl
    · exact absurd (List.mem_map.mpr ⟨b, hb', e.symm⟩) hx.1
    · exact absurd (List.mem_map.mpr ⟨a, ha', e⟩) hx.1
    · exact eq_of_nodup_keys l hx.2 a ha' b hb' e

theorem readAll_of_each (lay : Layout) (gs : GState) (f : Sink → Trace) (sks : List Sink)
    (h : ∀ sk ∈ sks, readBack lay sk gs = .ok (f sk)) : readAll lay gs sks = .ok (sks.map f) := by
  induction sks with
  | nil => rfl
  | cons sk rest ih =>
    rw [readAll, h sk (by simp), ih (fun sk' h' => h sk' (by simp [h']))]
    rfl

theorem start_state (g : Graph) (hw : WellKeyed g) (inp : List (Option Int)) (s : GState) :
    get (startSinks g.sinks (buildState g inp s)) g.inKey = some (.any inp) ∧
    ∀ sk ∈ g.sinks, get (startSinks g.sinks (buildState g inp s)) sk.key = if sk.persist then get s sk.key else none := by
  constructor
  · rw [get_startSinks]
    have : erasedBy g.sinks g.inKey = false := by
      cases he : erasedBy g.sinks g.inKey with
      | false => rfl
      | true =>
        obtain ⟨sk, hsk, hc⟩ := List.any_eq_true.mp he
        simp only [Bool.and_eq_true, beq_iff_eq] at hc
        exact absurd (List.mem_map.mpr ⟨sk, hsk, hc.2⟩) hw.inKey
    rw [this]; simp only [Bool.false_eq_true, ↓reduceIte]
    exact get_set_self _ _ _
  · intro sk hsk
    rw [get_startSinks]
    have hne : sk.key ≠ g.inKey := fun e => hw.inKey (List.mem_map.mpr ⟨sk, hsk, e⟩)
    cases hp : sk.persist with
    | false =>
      have : erasedBy g.sinks sk.key = true := List.any_eq_true.mpr ⟨sk, hsk, by simp [hp]⟩
      rw [this]; rfl
    | true =>
      have : erasedBy g.sinks sk.key = false := by
        cases he : erasedBy g.sinks sk.key with
        | false => rfl
        | true =>
          obtain ⟨sk', hsk', hc⟩ := List.any_eq_true.mp he
          simp only [Bool.and_eq_true, Bool.not_eq_true', beq_iff_eq] at hc
          have := eq_of_nodup_keys g.sinks hw.nodup sk' hsk' sk hsk hc.2
          rw [this, hp] at hc; cases hc.1
      rw [this]; simp only [Bool.false_eq_true, ↓reduceIte]
      exact get_set_ne _ _ hne

/-- **The run computes the spec** (general form).  For a well-keyed graph, every prior state whose persistent-sink
    keys hold a sparse recording or nothing, every layout and every input sequence (shorter than the dense
    guard `max_dense_cycles`): no exception, the replay buffer is kept, and sink `j` reads back its prior
    recording (empty for a harness sink) followed by `specTrace node_j` - the node's outputs at the ticking cycles. -/
theorem run_spec_general (g : Graph) (hw : WellKeyed g) (lay : Layout) (inp : List (Option Int))
    (hlen : inp.length ≤ maxDenseCycles) (s : GState)
    (hp : ∀ sk ∈ g.sinks, sk.persist = true → get s sk.key = none ∨ ∃ xs, get s sk.key = some (.sparse xs)) :
    (run g lay inp s).2 = .ok (g.sinks.map fun sk => priorOf sk s ++ specTrace sk.node sk.node.init 0 inp) ∧
      get (run g lay inp s).1 g.inKey = some (.any inp) := by
  obtain ⟨hin, hsinks⟩ := start_state g hw inp s
  have hkeys : keysOf (g.sinks.map (fun sk => (sk, sk.node.init))) = g.sinks.map (·.key) := by
    unfold keysOf; rw [List.map_map]; rfl
  have hgood : ∀ p ∈ g.sinks.map (fun sk => (sk, sk.node.init)),
      Good (isSp lay p.1) 0 (get (startSinks g.sinks (buildState g inp s)) p.1.key) := by
    intro p hp'
    obtain ⟨sk, hsk, e⟩ := List.mem_map.mp hp'
    subst e
    simp only
    rw [hsinks sk hsk]
    cases hper : sk.persist with
    | false => exact Or.inl rfl
    | true =>
      simp only [↓reduceIte]
      rcases hp sk hsk hper with h | ⟨xs, h⟩
      · exact Or.inl h
      · refine Or.inr ?_
        have : isSp lay sk = true := by simp [isSp, hper]
        rw [this]; exact ⟨xs, h⟩
  have hc := cycles_spec lay g.inKey inp hlen (inp.length + 1) 0 _ _ (by omega) (by omega) hin
    (by rw [hkeys]; exact hw.inKey) (by rw [hkeys]; exact hw.nodup) hgood
  have hrun : run g lay inp s =
      ((exec g lay inp.length (buildState g inp s)).1, observe g lay (exec g lay inp.length (buildState g inp s))) := rfl
  have hexec : exec g lay inp.length (buildState g inp s) =
      cycles lay g.inKey (inp.length + 1) 0 (g.sinks.map (fun sk => (sk, sk.node.init)))
        (startSinks g.sinks (buildState g inp s)) := rfl
  rw [hrun]
  refine ⟨?_, by rw [hexec]; exact hc.2.1⟩
  simp only
  unfold observe
  rw [hexec, hc.1]
  simp only
  apply readAll_of_each
  intro sk hsk
  rw [readBack_eq]
  have := hc.2.2 (sk, sk.node.init) (List.mem_map.mpr ⟨sk, hsk, rfl⟩) (priorOf sk s) (by
    simp only
    rw [hsinks sk hsk]
    unfold priorOf
    cases hper : sk.persist with
    | false => simp [readBuf, readSparse, readDense]
    | true =>
      have : isSp lay sk = true := by simp [isSp, hper]
      rw [this]
      simp only [↓reduceIte, readBuf]
      rcases hp sk hsk hper with h | ⟨xs, h⟩
      · rw [h]; rfl
      · rw [h]; rfl)
  simpa using this

/-- **What a harness run records is a function of graph and inputs**: in EVERY prior state, both layouts, sink `j`
    reads back exactly `specTrace node_j inputs` - the reference the monitor computes in Python. -/
theorem run_trace_is_spec (g : Graph) (hw : WellKeyed g) (hg : NoPersist g) (lay : Layout) (inp : List (Option Int))
    (hlen : inp.length ≤ maxDenseCycles) (s : GState) :
    (run g lay inp s).2 = .ok (g.sinks.map fun sk => specTrace sk.node sk.node.init 0 inp) := by
  have := (run_spec_general g hw lay inp hlen s (fun sk hsk hp => by rw [hg sk hsk] at hp; cases hp)).1
  rw [this]
  congr 1
  apply List.map_congr_left
  intro sk hsk
  simp [priorOf, hg sk hsk]

/-- the replay buffer is kept under the replay key (not consumed): it is part of what is copied back -/
theorem run_state_on_owned_keys (g : Graph) (hw : WellKeyed g) (hg : NoPersist g) (lay : Layout)
    (inp : List (Option Int)) (hlen : inp.length ≤ maxDenseCycles) (s : GState) :
    get (run g lay inp s).1 g.inKey = some (.any inp) ∧
      ∀ sk ∈ g.sinks, readBack lay sk (run g lay inp s).1 = .ok (specTrace sk.node sk.node.init 0 inp) := by
  have hgen := run_spec_general g hw lay inp hlen s (fun sk hsk hp => by rw [hg sk hsk] at hp; cases hp)
  refine ⟨hgen.2, ?_⟩
  -- the observed traces ARE the read-backs of the final state
  have hobs := run_trace_is_spec g hw hg lay inp hlen s
  have hrun : (run g lay inp s).2 = observe g lay (exec g lay inp.length (buildState g inp s)) := rfl
  rw [hrun] at hobs
  unfold observe at hobs
  have hstate : (run g lay inp s).1 = (exec g lay inp.length (buildState g inp s)).1 := rfl
  rw [hstate]
  generalize exec g lay inp.length (buildState g inp s) = r at hobs
  cases hr : r.2 with
  | some e => rw [hr] at hobs; cases hobs
  | none =>
    rw [hr] at hobs
    simp only at hobs
    have key : ∀ (sks : List Sink) (f : Sink → Trace), readAll lay r.1 sks = .ok (sks.map f) →
        ∀ sk ∈ sks, readBack lay sk r.1 = .ok (f sk) := by
      intro sks f
      induction sks with
      | nil => intro _ sk h; cases h
      | cons x rest ih =>
        intro h sk hsk
        rw [readAll] at h
        cases hx : readBack lay x r.1 with
        | error e => rw [hx] at h; cases h
        | ok t =>
          rw [hx] at h
          simp only at h
          cases hrest : readAll lay r.1 rest with
          | error e => rw [hrest] at h; cases h
          | ok ts =>
            rw [hrest] at h
            simp only [List.map_cons, Except.ok.injEq, List.cons.injEq] at h
            rcases List.mem_cons.mp hsk with rfl | h'
            · rw [hx, h.1]
            · exact ih (by rw [hrest, h.2]) sk h'
    exact key g.sinks _ hobs

/-- **The persistent `:memory:` sink appends across runs** (its documented contract, the opposite of the
    harness sink): it reads back the recording found under its key followed by this run's ticks. -/
theorem persistent_sink_appends (k : Key) (lay : Layout) (inp : List (Option Int)) (hlen : inp.length ≤ maxDenseCycles)
    (s : GState) (prior : Trace) (hprior : get s (memPrefix ++ k) = some (.sparse prior)) :
    (run (gPinc k) lay inp s).2 = .ok [prior ++ specTrace addOne 0 0 inp] := by
  have hw : WellKeyed (gPinc k) := by
    refine ⟨by simp [gPinc], ?_⟩
    simp only [gPinc, List.map_cons, List.map_nil, List.mem_singleton]
    intro e
    have h1 := congrArg String.length e
    rw [String.length_append] at h1
    have h2 : "in".length = 2 := by decide
    have h3 : memPrefix.length = 21 := by decide
    omega
  have := (run_spec_general (gPinc k) hw lay inp hlen s (by
    intro sk hsk _
    simp only [gPinc, List.mem_singleton] at hsk
    subst hsk
    exact Or.inr ⟨prior, hprior⟩)).1
  rw [this]
  simp [gPinc, priorOf, hprior, addOne]

/-- a harness sink recording under the REPLAY key erases the replay buffer at start: nothing ever ticks and
    every sink reads back empty (odd, but it is what the code does, in every prior state) -/
theorem sink_on_replay_key_records_nothing (g : Graph) (lay : Layout) (inp : List (Option Int)) (s : GState)
    (sk : Sink) (hsk : sk ∈ g.sinks) (hk : sk.key = g.inKey) (hp : sk.persist = false) :
    (exec g lay inp.length (buildState g inp s)) = (startSinks g.sinks (buildState g inp s), none) := by
  unfold exec
  apply cycles_none
  rw [get_startSinks]
  have : erasedBy g.sinks g.inKey = true := List.any_eq_true.mpr ⟨sk, hsk, by simp [hp, hk]⟩
  rw [this]; rfl

/-! ## the fuel of the loop never matters -/

theorem cycles_fuel (lay : Layout) (inKey : Key) (inp : List (Option Int)) (f : Nat) :
    ∀ (i : Nat) (sks : List (Sink × Int)) (gs : GState), 1 ≤ f → inp.length ≤ f + i →
      get gs inKey = some (.any inp) → inKey ∉ keysOf sks →
      cycles lay inKey (f + 1) i sks gs = cycles lay inKey f i sks gs := by
  induction f with
  | zero => intro i sks gs h; omega
  | succ f ih =>
    intro i sks gs _ hfuel hin hnotin
    have hsize : bufLen (Buf.any inp) = inp.length := rfl
    cases hentry : (if i < bufLen (Buf.any inp) then entryAt (Buf.any inp) i else none) with
    | none =>
      rw [cycles_notick lay inKey (f + 1) i sks gs _ hin hentry, cycles_notick lay inKey f i sks gs _ hin hentry, hsize]
      by_cases hnext : i + 1 < inp.length
      · simp only [hnext, ↓reduceIte]; exact ih (i + 1) sks gs (by omega) (by omega) hin hnotin
      · simp only [hnext, ↓reduceIte]
    | some v =>
      cases herr : (sinksTick lay i v sks gs).2.2 with
      | some e =>
        rw [cycles_tick_err lay inKey (f + 1) i sks gs _ v e hin hentry herr,
          cycles_tick_err lay inKey f i sks gs _ v e hin hentry herr]
      | none =>
        rw [cycles_tick lay inKey (f + 1) i sks gs _ v hin hentry herr,
          cycles_tick lay inKey f i sks gs _ v hin hentry herr, hsize]
        by_cases hnext : i + 1 < inp.length
        · simp only [hnext, ↓reduceIte]
          apply ih (i + 1) _ _ (by omega) (by omega)
          · rw [sinksTick_other lay i v sks gs hnotin]; exact hin
          · rw [keysOf_sinksTick]; exact hnotin
        · simp only [hnext, ↓reduceIte]

/-- **`fuel` is only a device of the definition**: with any larger fuel the executor ends in the same state with
    the same outcome (whenever no persistent sink writes the replay key - no graph of the vocabulary does). -/
theorem fuel_enough (g : Graph) (hpk : ∀ sk ∈ g.sinks, sk.key = g.inKey → sk.persist = false) (lay : Layout)
    (inp : List (Option Int)) (s : GState) (extra : Nat) :
    cycles lay g.inKey (inp.length + 1 + extra) 0 (g.sinks.map (fun sk => (sk, sk.node.init)))
        (startSinks g.sinks (buildState g inp s)) = exec g lay inp.length (buildState g inp s) := by
  induction extra with
  | zero => rfl
  | succ n ih =>
    rw [← ih]
    by_cases hmem : g.inKey ∈ g.sinks.map (·.key)
    · obtain ⟨sk, hsk, e⟩ := List.mem_map.mp hmem
      have hnone : get (startSinks g.sinks (buildState g inp s)) g.inKey = none := by
        rw [get_startSinks]
        have : erasedBy g.sinks g.inKey = true :=
          List.any_eq_true.mpr ⟨sk, hsk, by simp [hpk sk hsk e, e]⟩
        rw [this]; rfl
      have e1 : inp.length + 1 + (n + 1) = (inp.length + 1 + n) + 1 := by omega
      have e2 : inp.length + 1 + n = (inp.length + n) + 1 := by omega
      rw [e1, cycles_none _ _ _ _ _ _ hnone, e2, cycles_none _ _ _ _ _ _ hnone]
    · have e1 : inp.length + 1 + (n + 1) = (inp.length + 1 + n) + 1 := by omega
      rw [e1]
      apply cycles_fuel lay g.inKey inp _ 0 _ _ (by omega) (by omega)
      · rw [get_startSinks]
        have : erasedBy g.sinks g.inKey = false := by
          cases he : erasedBy g.sinks g.inKey with
          | false => rfl
          | true =>
            obtain ⟨sk, hsk, hc⟩ := List.any_eq_true.mp he
            simp only [Bool.and_eq_true, beq_iff_eq] at hc
            exact absurd (List.mem_map.mpr ⟨sk, hsk, hc.2⟩) hmem
        rw [this]; simp only [Bool.false_eq_true, ↓reduceIte]
        exact get_set_self _ _ _
      · unfold keysOf; rw [List.map_map]; exact hmem

/-! ## non-vacuity: concrete non-trivial states for every hypothesis and conclusion -/

/-- a prior state with an earlier SPARSE recording under "out" (longer than the new one), a foreign dense
    buffer, a stale replay buffer and a persistent recording -/
def sPrior : GState :=
  [("out", .sparse [(0, 9), (5, 9), (2, 1)]), ("zz", .dense [some 1, none, none, some 4]), ("in", .any [some 7, some 7]),
   (":memory:nodes.record.p", .sparse [(9, 9)])]

example : NoPersist (gInc "out") := by intro sk h; simp only [gInc, List.mem_singleton] at h; subst h; rfl
example : NoPersist (gTwo "out" "o2") := by
  intro sk h; simp only [gTwo, List.mem_cons, List.not_mem_nil, or_false] at h
  rcases h with rfl | rfl <;> rfl
example : WellKeyed (gTwo "out" "o2") := ⟨by simp [gTwo], by simp [gTwo]⟩
example : WellKeyed (gAcc "out") := ⟨by simp [gAcc], by simp [gAcc]⟩
-- the prior state does not influence the trace, in either layout, although it holds a recording under "out"
example : (run (gInc "out") .sparse [some 1, none, some 3] sPrior).2 = .ok [[(0, 2), (2, 4)]] := by rfl
example : (run (gInc "out") .dense [some 1, none, some 3] sPrior).2 = .ok [[(0, 2), (2, 4)]] := by rfl
example : (run (gInc "out") .sparse [some 1, none, some 3] []).2 = .ok [[(0, 2), (2, 4)]] := by rfl
example : (run (gAcc "out") .dense [some 1, some 2, none, some 4] sPrior).2 = .ok [[(0, 1), (1, 3), (3, 7)]] := by rfl
example : (run (gTwo "out" "o2") .dense [some 1, some 2] sPrior).2 = .ok [[(0, 2), (1, 3)], [(0, 10), (1, 20)]] := by rfl
-- foreign keys survive, the owned ones are replaced
example : get (run (gInc "out") .sparse [some 1, none, some 3] sPrior).1 "zz" = some (.dense [some 1, none, none, some 4]) := by
  decide
example : get (run (gInc "out") .sparse [some 1, none, some 3] sPrior).1 "out" = some (.sparse [(0, 2), (2, 4)]) := by decide
example : get (run (gInc "out") .dense [none, none] sPrior).1 "out" = none := by decide
example : get (run (gInc "out") .sparse [some 1, none, some 3] sPrior).1 "in" = some (.any [some 1, none, some 3]) := by decide
-- the persistent sink appends
example : (run (gPinc "p") .dense [some 1, some 2] sPrior).2 = .ok [[(9, 9), (0, 2), (1, 3)]] := by rfl
-- a sink under the replay key: nothing is recorded
example : (run (gInc "in") .dense [some 1, some 2] sPrior).2 = .ok [[]] := by rfl
-- the unreachable-on-the-current-tree branches of the sink are real: a dense buffer longer than the cycle throws
example : pushDense [("out", .dense [some 1, some 2, some 3])] "out" 1 5 = .error .other := by rfl
example : pushSparse [("out", .dense [some 1])] "out" 1 5 = .error .other := by rfl

end HgVerif.GState
