import HgVerif.Model.Feedback
import HgVerif.Model.Tie
/-!
# C08 — feedback delivers each value exactly one smallest time step later

About `Model/Feedback.lean`, for **every** write history of the producer (gaps, writes on consecutive
smallest steps, any values):

* `feedback_delay`     : the reader's tick stream is exactly the producer's writes, each at `t + 1`, in
                         order — no loss, duplication or reordering (a write in the last cycle of the
                         run has no delivery cycle).
* `never_same_cycle`   : the reader never sees at `t` a value written at `t`.
* `initial_value`      : a declared initial value is delivered at the start time and nothing else is.
* `quiescent`          : with no further writes nothing is delivered (a passive reader does not re-tick
                         the producer, so the loop stops).
-/
namespace HgVerif.Feedback

/-- what is pending before a cycle at `t'` when the previous cycle was `(t, w)` and `t' = t+1` on writes -/
theorem run_pending (t : Nat) (v : Int) (rest : List (Nat × Option Int)) (w' : Option Int)
    (hwf : WF ((t + 1, w') :: rest)) :
    run { pend := some (t + 1, v) } ((t + 1, w') :: rest) = (t + 1, v) :: run (sinkStep (t + 1) w' { pend := none }) rest := by
  simp [run, cycle, sourceStep]

theorem run_none_eq_shifted (cs : List (Nat × Option Int)) (hwf : WF cs) : run { pend := none } cs = shifted cs := by
  induction cs with
  | nil => rfl
  | cons c rest ih =>
    obtain ⟨t, w⟩ := c
    cases rest with
    | nil => cases w <;> simp [run, cycle, sourceStep, sinkStep, shifted]
    | cons c' rest' =>
      obtain ⟨t', w'⟩ := c'
      obtain ⟨hlt, hnext, hwf'⟩ := hwf
      cases w with
      | none =>
        simp only [run, cycle, sourceStep, sinkStep, shifted]
        exact ih hwf'
      | some v =>
        have ht' : t' = t + 1 := hnext rfl
        subst ht'
        have e1 : run { pend := none } ((t, some v) :: (t + 1, w') :: rest') =
            run { pend := some (t + 1, v) } ((t + 1, w') :: rest') := by
          simp [run, cycle, sourceStep, sinkStep]
        rw [e1, run_pending t v rest' w' hwf']
        simp only [shifted]
        congr 1
        -- after delivering, the state is what a run from `none` reaches after the same cycle
        have e2 : run { pend := none } ((t + 1, w') :: rest') = run (sinkStep (t + 1) w' { pend := none }) rest' := by
          simp [run, cycle, sourceStep]
        rw [← e2]
        exact ih hwf'

/-- **exactly one smallest step later, in order, nothing lost or duplicated** -/
theorem feedback_delay (cs : List (Nat × Option Int)) (hwf : WF cs) : run {} cs = shifted cs :=
  run_none_eq_shifted cs hwf

theorem mem_shifted {cs : List (Nat × Option Int)} {d : Nat} {v : Int} (h : (d, v) ∈ shifted cs) :
    ∃ t, d = t + 1 ∧ (t, some v) ∈ cs := by
  induction cs with
  | nil => simp [shifted] at h
  | cons c rest ih =>
    obtain ⟨t, w⟩ := c
    cases rest with
    | nil => simp [shifted] at h
    | cons c' rest' =>
      cases w with
      | none =>
        simp only [shifted] at h
        obtain ⟨t0, h1, h2⟩ := ih h
        exact ⟨t0, h1, List.mem_cons_of_mem _ h2⟩
      | some v0 =>
        simp only [shifted, List.mem_cons] at h
        rcases h with h | h
        · injection h with h1 h2; subst h1; subst h2; exact ⟨t, rfl, by simp⟩
        · obtain ⟨t0, h1, h2⟩ := ih h
          exact ⟨t0, h1, List.mem_cons_of_mem _ h2⟩

/-- the reader never observes a value in the cycle that produced it: every delivery `(d, v)` stems
    from a write at `d - 1` -/
theorem never_same_cycle (cs : List (Nat × Option Int)) (hwf : WF cs) {d : Nat} {v : Int}
    (h : (d, v) ∈ run {} cs) : ∃ t, d = t + 1 ∧ (t, some v) ∈ cs := by
  rw [feedback_delay cs hwf] at h; exact mem_shifted h

/-- a declared initial value (pending for the start time) is delivered in the start cycle -/
theorem initial_value (start : Nat) (v0 : Int) (rest : List (Nat × Option Int)) :
    run { pend := some (start, v0) } ((start, none) :: rest) = (start, v0) :: run {} rest := by
  simp [run, cycle, sourceStep, sinkStep]

/-- no writes ⇒ no deliveries: the loop is quiescent -/
theorem quiescent (cs : List (Nat × Option Int)) (h : ∀ c ∈ cs, c.2 = none) : run {} cs = [] := by
  induction cs with
  | nil => rfl
  | cons c rest ih =>
    obtain ⟨t, w⟩ := c
    have hw : w = none := h (t, w) (by simp)
    subst hw
    simp only [run, cycle, sourceStep, sinkStep]
    exact ih (fun c hc => h c (List.mem_cons_of_mem _ hc))

/-! non-vacuity: writes at 3, 4 (consecutive steps) and 7 -/
example : WF [(3, some 10), (4, some 11), (5, none), (7, some 12), (8, none)] := by
  simp [WF]
example : run {} [(3, some 10), (4, some 11), (5, none), (7, some 12), (8, none)] = [(4, 10), (5, 11), (8, 12)] := by
  decide

end HgVerif.Feedback
