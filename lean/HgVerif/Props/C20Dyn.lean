import HgVerif.Props.C20
/-!
# C20 for DYNAMIC lists (`TSL<C>` without a fixed size)

`Model/Delta.lean` has the schema `tsld e`: the state is the vector of children that exist, `at(i)` past the end
creates every index up to `i` as a never-ticked child (`growApply`), `capture` names the modified valid children by
their own index (a `Map<int, δ>` without a length: `trimNone`), `apply` reaches every named child through the
growing `at(index)`.  Because `tsld` is a constructor of `Shape`, **every theorem of `Props/C20.lean`
(`apply_capture`, `capture_apply`, `tick_hasEffect`, `tick_observable`, `replay_states`, `replay_record_id`,
`replay_values`, …) is a statement about dynamic lists too**, at any nesting: child of a dictionary, field of a
bundle, element of a fixed or of another dynamic list, with any child schema.  `Tick (tsld e)` is
`DynTick (Tick e) (fresh e) (modified e)` (`Lemmas/Delta.lean`): old children tick or not in place, the list never
shrinks, any number of new children may appear in one cycle, any of them except the new LAST one may be a
never-ticked placeholder (growth that skips indices, first tick at an index > 0).

This file states the round trip for dynamic lists explicitly and adds what is specific to them:

* `dyn_apply_capture`, `dyn_capture_apply`, `dyn_apply_capture_length`   the round trip incl. length and marks;
* `dyn_skip_tick`, `dyn_skip_capture`   growth that skips `k` indices (any `k`, any old list, any child schema) is a
  replayable tick, and its captured delta is the single entry `{old size + k : δ}`;
* `dyn_replay_record_id`, `dyn_replay_states`, `dyn_replay_values`   record → replay → record for histories;
* `append_rule_breaks_round_trip`   the rule "an entry past the end is created at the next free position"
  (seeded change s90) breaks all of it on the history `[{0:1},{2:3}]`; `append_rule_contiguous` says why
  contiguous growth does not notice;
* `growth_without_tick_not_reproduced`, `dyn_tick_last_needed`   situation D: growth that no entry witnesses
  (`at(i)` without a write) cannot be re-created - the hypothesis on the new last child cannot be dropped.
-/
namespace HgVerif.Delta

theorem isSchema_tsld (e : Shape) (he : isSchema e) : isSchema (.tsld e) := by
  refine ⟨?_, rfl⟩
  simp only [wfShape, Bool.and_eq_true, Bool.not_eq_true']
  exact ⟨he.2, he.1⟩

/-! ## capture / apply -/

/-- Dynamic list of any child schema, every replayable tick (old children ticking or not, any number of new
    children, skipped indices): applying the captured delta to a copy of the pre-tick list yields the post-tick
    list - the same length, the same children, the same per-position marks. -/
theorem dyn_apply_capture (e : Shape) (he : isSchema e) (pre m : List (St e))
    (h : DynTick (Tick e) (fresh e) (modified e) pre m) (hm : m.any (modified e) = true) :
    dynApply (fresh e) (apply e) (clear e) pre (capture (.tsld e) m) = m :=
  apply_capture (.tsld e) (isSchema_tsld e he) pre m h hm

/-- … in particular the copy has the length of the original (`size()` is reproduced). -/
theorem dyn_apply_capture_length (e : Shape) (he : isSchema e) (pre m : List (St e))
    (h : DynTick (Tick e) (fresh e) (modified e) pre m) (hm : m.any (modified e) = true) :
    (apply (.tsld e) pre (capture (.tsld e) m)).length = m.length := by
  rw [apply_capture (.tsld e) (isSchema_tsld e he) pre m h hm]

/-- … and capturing from the copy yields the same delta (the same indices). -/
theorem dyn_capture_apply (e : Shape) (he : isSchema e) (pre m : List (St e))
    (h : DynTick (Tick e) (fresh e) (modified e) pre m) (hm : m.any (modified e) = true) :
    capture (.tsld e) (apply (.tsld e) pre (capture (.tsld e) m)) = capture (.tsld e) m :=
  capture_apply (.tsld e) (isSchema_tsld e he) pre m h hm

/-! ## growth that skips indices -/

theorem modified_fresh (s : Shape) : modified s (fresh s) = false := by
  rw [← clear_fresh s]; exact modified_clear s (fresh s)

theorem dynTick_grow_skip {σ : Type} (T : σ → σ → Prop) (freshC : σ) (md : σ → Bool) (c : σ)
    (hf : T freshC freshC) (hc : T freshC c) (hmc : md c = true) :
    ∀ k : Nat, DynTick T freshC md [] (List.replicate k freshC ++ [c])
  | 0 => ⟨hc, fun _ => hmc, trivial⟩
  | k + 1 => by
      have ih := dynTick_grow_skip T freshC md c hf hc hmc k
      rw [List.replicate_succ, List.cons_append]
      refine ⟨hf, fun h => ?_, ih⟩
      cases k <;> simp at h

/-- A cycle in which nothing old ticks and ONE new child appears `k` positions past the end (the `k` skipped
    indices are never-ticked placeholders; `pre = []`, `k > 0`: the first tick of the list is at index `k`) is a
    replayable tick, for every `k`, every old list and every child schema. -/
theorem dyn_skip_tick (e : Shape) (pre : List (St e)) (k : Nat) (c : St e)
    (hc : Tick e (fresh e) c) (hmc : modified e c = true) :
    Tick (.tsld e) pre (pre.map (clear e) ++ (List.replicate k (fresh e) ++ [c])) := by
  show DynTick (Tick e) (fresh e) (modified e) pre _
  induction pre with
  | nil =>
    have hf : Tick e (fresh e) (fresh e) := by
      have := tick_clear e (fresh e); rwa [clear_fresh] at this
    exact dynTick_grow_skip (Tick e) (fresh e) (modified e) c hf hc hmc k
  | cons p ps ih => exact ⟨tick_clear e p, ih⟩

theorem trimNone_nones_some {δ : Type} (d : δ) : ∀ n : Nat,
    trimNone (List.replicate n (none : Option δ) ++ [some d]) = List.replicate n none ++ [some d]
  | 0 => rfl
  | n + 1 => by
      rw [List.replicate_succ, List.cons_append]
      have ih := trimNone_nones_some d n
      simp only [trimNone, ih]
      cases n <;> rfl

/-- … and its captured delta is the single entry `{size + k : δ}`: the index the child really has. -/
theorem dyn_skip_capture (e : Shape) (pre : List (St e)) (k : Nat) (c : St e)
    (hc : Tick e (fresh e) c) (hmc : modified e c = true) :
    capture (.tsld e) (pre.map (clear e) ++ (List.replicate k (fresh e) ++ [c])) =
      List.replicate (pre.length + k) none ++ [some (capture e c)] := by
  have hv := tick_valid e (fresh e) c hc hmc
  have h1 : (pre.map (clear e)).map (fun c => if modified e c && valid e c then some (capture e c) else none) =
      List.replicate pre.length none := by
    induction pre with
    | nil => rfl
    | cons p ps ih => simp only [List.map_cons, modified_clear, Bool.false_and, Bool.false_eq_true, ↓reduceIte,
        List.length_cons, List.replicate_succ, ih]
  have h2 : (List.replicate k (fresh e)).map (fun c => if modified e c && valid e c then some (capture e c) else none) =
      List.replicate k none := by
    simp [List.map_replicate, modified_fresh]
  simp only [capture, List.map_append, h1, h2, List.map_cons, List.map_nil, hmc, hv, Bool.and_self, ↓reduceIte]
  have key : trimNone (List.replicate pre.length (none : Option (Dl e)) ++ (List.replicate k none ++ [some (capture e c)])) =
      List.replicate (pre.length + k) none ++ [some (capture e c)] := by
    rw [← List.append_assoc, List.replicate_append_replicate]
    exact trimNone_nones_some _ _
  exact key

/-! ## record → replay → record over histories of a dynamic list -/

/-- Recording any history of a dynamic list (contiguous growth, growth that skips indices, several new children in
    one tick, a skipped index ticking later, gaps), replaying the recording and recording again reproduces the
    recording. -/
theorem dyn_replay_record_id (e : Shape) (he : isSchema e) (hist : List (List (St e)))
    (h : GoodHist (.tsld e) [] hist) :
    (replayRecord (s := .tsld e) (recordHist hist 0 [])).1 = recordHist (s := .tsld e) hist 0 [] :=
  replay_record_id (.tsld e) (isSchema_tsld e he) hist h

/-- … the replayed list is, cycle by cycle, the recorded one: same length, children and marks. -/
theorem dyn_replay_states (e : Shape) (he : isSchema e) (hist : List (List (St e)))
    (h : GoodHist (.tsld e) [] hist) :
    replayStates (.tsld e) [] (recordHist (s := .tsld e) hist 0 []) =
      hist.take (recordHist (s := .tsld e) hist 0 []).length :=
  replay_states (.tsld e) (isSchema_tsld e he) hist h

theorem dyn_replay_values (e : Shape) (he : isSchema e) (hist : List (List (St e)))
    (h : GoodHist (.tsld e) [] hist) :
    clear (.tsld e) (replayRecord (s := .tsld e) (recordHist hist 0 [])).2 = clear (.tsld e) (lastD hist []) :=
  replay_values (.tsld e) (isSchema_tsld e he) hist h

/-! ## the rule "append at the next free position" (seeded change s90) -/

/-- s90: the child count is resolved once, an entry past the end is created with `at(size++)` -/
def growAppend {σ δ : Type} (freshC : σ) (app : σ → δ → σ) : List (Option δ) → List σ
  | [] => []
  | some dc :: ods => app freshC dc :: growAppend freshC app ods
  | none :: ods => growAppend freshC app ods

def dynApplyAppend {σ δ : Type} (freshC : σ) (app : σ → δ → σ) (clr : σ → σ) : List σ → List (Option δ) → List σ
  | [], ods => growAppend freshC app ods
  | c :: cs, [] => clr c :: dynApplyAppend freshC app clr cs []
  | c :: cs, od :: ods =>
      (match od with
       | some dc => app c dc
       | none => clr c) :: dynApplyAppend freshC app clr cs ods

/-- As long as no entry past the end is preceded by a gap (contiguous growth, also several new children in one
    delta) the two rules create the same children - why only growth that skips an index shows the difference. -/
theorem append_rule_contiguous {σ δ : Type} (freshC : σ) (app : σ → δ → σ) :
    ∀ (d : List (Option δ)), d.all Option.isSome = true → growAppend freshC app d = growApply freshC app d
  | [], _ => rfl
  | none :: _, h => by simp at h
  | some dc :: ods, h => by
      simp only [List.all_cons, Option.isSome_some, Bool.true_and] at h
      simp only [growAppend, growApply, List.any_cons, Option.isSome_some, Bool.true_or, ↓reduceIte,
        append_rule_contiguous freshC app ods h]

namespace Witness
def sL : Shape := .tsld (.ts false)
/-- cycle 0: child 0 := 1 -/
def l0 : List (Leaf (Option Nat)) := [{ val := some 1, mod := true }]
/-- cycle 1: only child 2 := 3 (child 1 is created as a never-ticked placeholder) -/
def l1 : List (Leaf (Option Nat)) := [{ val := some 1, mod := false }, { val := none, mod := false }, { val := some 3, mod := true }]
/-- cycle 2: no tick;  cycle 3: the skipped child 1 := 7 -/
def l2 : List (Leaf (Option Nat)) := [{ val := some 1, mod := false }, { val := none, mod := false }, { val := some 3, mod := false }]
def l3 : List (Leaf (Option Nat)) := [{ val := some 1, mod := false }, { val := some 7, mod := true }, { val := some 3, mod := false }]
def recL : List (Option (List (Option Nat))) := recordHist (s := sL) [l0, l1, l2, l3] 0 []
def recL2 : List (Option (List (Option Nat))) := (replayRecord (s := sL) recL).1
def capL1 : List (Option Nat) := capture sL l1
def backL1 : List (Leaf (Option Nat)) := apply sL l0 capL1
/-- the s90 rule applied to the copy -/
def l1Append : List (Leaf (Option Nat)) :=
  dynApplyAppend (fresh (.ts false)) (apply (.ts false)) (clear (.ts false)) l0 capL1
def capAppend : List (Option Nat) := capture sL l1Append

/-- the list grew by `at(2)` while only child 0 was written -/
def g1 : List (Leaf (Option Nat)) := [{ val := some 2, mod := true }, { val := none, mod := false }, { val := none, mod := false }]
def capG1 : List (Option Nat) := capture sL g1
def backG1 : List (Leaf (Option Nat)) := apply sL l0 capG1

/-- `TSD<Int, TSL<TS<Int>>>`: cycle 0 key 0 gets `[0=1]`; cycle 1 the NEW key 1 gets `[1=5]` (a nested list whose
    first tick is child 1) -/
def sN : Shape := .tsd false 2 (.tsld (.ts false))
def n0 : DictSt (List (Leaf (Option Nat))) :=
  { valid := true, mod := true, slots := [some [{ val := some 1, mod := true }], none], removed := [false, false] }
def n1 : DictSt (List (Leaf (Option Nat))) :=
  { valid := true, mod := true,
    slots := [some [{ val := some 1, mod := false }], some [{ val := none, mod := false }, { val := some 5, mod := true }]],
    removed := [false, false] }
def recN : List (Option (List (KeyOp (List (Option Nat))))) := recordHist (s := sN) [n0, n1] 0 []
end Witness

open Witness in
/-- The history `[{0:1},{2:3}]` of a `TSL<TS<Int>>` is replayable and the code's `apply` re-creates cycle 1 from its
    captured delta `{2:3}`; the append rule applies `{2:3}` to child 1: the copy has another length and value and is
    re-captured as `{1:3}`. -/
theorem append_rule_breaks_round_trip :
    GoodHist sL (fresh sL) [l0, l1] ∧
    capL1 = [none, none, some 3] ∧
    backL1 = l1 ∧
    l1Append = [{ val := some 1, mod := false }, { val := some 3, mod := true }] ∧
    l1Append.length ≠ l1.length ∧
    capAppend = [none, some 3] ∧
    capAppend ≠ capL1 := by
  refine ⟨⟨?_, ?_, trivial⟩, by decide, by decide, by decide, by decide, by decide, by decide⟩
  · exact ⟨Or.inl ⟨rfl, rfl⟩, fun _ => rfl, trivial⟩
  · exact ⟨Or.inr rfl, Or.inr rfl, fun h => by simp at h, Or.inl ⟨rfl, rfl⟩, fun _ => rfl, trivial⟩

/-! ## situation D: growth without a tick -/

open Witness in
/-- A node that calls `at(2)` on a one-child list and writes only child 0: the captured delta is `{0:2}`, the copy
    stays at one child - the recorded series has three.  (`dyn_apply_capture` excludes it: the new last child
    must tick.) -/
theorem growth_without_tick_not_reproduced :
    modified sL g1 = true ∧ capG1 = [some 2] ∧
      backG1 = [{ val := some 2, mod := true }] ∧
      backG1.length ≠ g1.length ∧ ¬ Tick sL l0 g1 := by
  refine ⟨by decide, by decide, by decide, by decide, ?_⟩
  intro h
  have h3 := h.2.2.2.2.1 rfl
  cases h3

open Witness in
/-- The hypothesis on the new last child cannot be dropped: without it the round trip is false. -/
theorem dyn_tick_last_needed :
    ¬ (∀ (pre m : List (Leaf (Option Nat))),
        (∀ c ∈ m, ∃ p, Tick (.ts false) p c) → pre.length ≤ m.length → m.any (modified (.ts false)) = true →
        apply sL pre (capture sL m) = m) := by
  intro hall
  have h := hall l0 g1 (by
    intro c hc
    simp only [g1, List.mem_cons, List.not_mem_nil, or_false] at hc
    rcases hc with rfl | rfl | rfl
    · exact ⟨fresh (.ts false), Or.inl ⟨rfl, rfl⟩⟩
    · exact ⟨fresh (.ts false), Or.inr rfl⟩
    · exact ⟨fresh (.ts false), Or.inr rfl⟩) (by decide) (by decide)
  have h2 : backG1 ≠ g1 := by decide
  exact h2 h

/-! ## non-vacuity -/

section Examples

open Witness in
/-- growth that skips an index, a gap, and the skipped index ticking later: a good history, recorded with the true
    indices, reproduced by replay -/
example : isSchema sL ∧ GoodHist sL (fresh sL) [l0, l1, l2, l3] ∧
    recL = [some [some 1], some [none, none, some 3], none, some [none, some 7]] ∧
    recL2 = recL := by
  have hs : isSchema sL := ⟨rfl, rfl⟩
  have hg : GoodHist sL (fresh sL) [l0, l1, l2, l3] := by
    refine ⟨?_, ?_, ?_, ?_, trivial⟩
    · exact ⟨Or.inl ⟨rfl, rfl⟩, fun _ => rfl, trivial⟩
    · exact ⟨Or.inr rfl, Or.inr rfl, fun h => by simp at h, Or.inl ⟨rfl, rfl⟩, fun _ => rfl, trivial⟩
    · exact ⟨Or.inr rfl, Or.inr rfl, Or.inr rfl, trivial⟩
    · exact ⟨Or.inr rfl, Or.inl ⟨rfl, rfl⟩, Or.inr rfl, trivial⟩
  exact ⟨hs, hg, by decide, replay_record_id sL hs _ hg⟩

open Witness in
/-- a nested dynamic list (value of a dictionary) whose first tick is child 1 -/
example : isSchema sN ∧ GoodHist sN (fresh sN) [n0, n1] ∧
    recN =
      [some [{ removed := false, modified := some [some 1] }, { removed := false, modified := none }],
       some [{ removed := false, modified := none }, { removed := false, modified := some [none, some 5] }]] := by
  refine ⟨⟨rfl, rfl⟩, ⟨?_, ?_, trivial⟩, by decide⟩
  · right
    refine ⟨rfl, rfl, ?_, Or.inr (Or.inl (by decide))⟩
    exact ⟨⟨rfl, ⟨Or.inl ⟨rfl, rfl⟩, fun _ => rfl, trivial⟩, by decide⟩, rfl, trivial⟩
  · right
    refine ⟨rfl, rfl, ?_, Or.inr (Or.inl (by decide))⟩
    refine ⟨⟨rfl, ⟨Or.inr rfl, trivial⟩, by decide⟩, ⟨rfl, ?_, by decide⟩, trivial⟩
    exact ⟨Or.inr rfl, fun h => by simp at h, Or.inl ⟨rfl, rfl⟩, fun _ => rfl, trivial⟩

/-- `dyn_skip_tick` with concrete arguments: a list of two children, three skipped indices -/
example : Tick (.tsld (.ts false)) [{ val := some 1, mod := true }, { val := none, mod := false }]
    ([{ val := some 1, mod := false }, { val := none, mod := false }] ++
      (List.replicate 3 { val := none, mod := false } ++ [{ val := some 9, mod := true }])) :=
  dyn_skip_tick (.ts false) _ 3 { val := some 9, mod := true } (Or.inl ⟨rfl, rfl⟩) rfl

end Examples

end HgVerif.Delta
