import HgVerif.Model.SvcCtx
import HgVerif.Lemmas.SvcCtx
/-!
C07, service transport contexts (`Model/SvcCtx.lean`): process-wide registries may only hold interned IMMUTABLE
artifacts whose lookup depends on the key alone.  All theorems are general over every process state / every history
of builds (any paths, key types, modes, node orders, scripts, repetitions, builder reuse, case boundaries) and every
assignment of storage offsets; only the counter-lemma uses a concrete witness.

* `capture_context_mode_is_requested`  : the context `register_subscription_key_capture_context` returns - found or
                                         created, in ANY table - carries the requested path, offset and MODE.
* `source_context_is_requested`        : the same for the key-source context (path, offset).
* `node_type_is_requested`             : the node type interned under a context's address has that context.
* `build_mode_is_requested`            : the capture node of a graph built in ANY process state runs with the mode its
                                         recipe asked for.
* `registry_append_only`               : over any history the three tables only grow: each is the old table plus a
                                         suffix; `registry_entries_never_change`: an entry present before a history
                                         is the same entry after it (at the same address).
* `build_trace_history_free`           : the trace of a build-and-run step is the same in ANY two process states
                                         under ANY two offset assignments: `run` of its own recipe and script.
* `svc_step_trace_history_free`        : for EVERY history from the empty process (builds, builder reuse, case
                                         boundaries) the list of observations is the list of references, each
                                         computed from the step's own recipe (a `reuse i` from the recipe of the
                                         `i`-th build of its case) without any process state.
* `svc_history_prefix_irrelevant`      : the observations of a history do not depend on the history run before it.
* `fresh_reference_reproduces`         : the monitor's reference - the step alone in a fresh process - is that value.
* `direct_publishes_same_cycle`        : the run of a Direct client (capture ranked before the source), for EVERY
                                         script: the engine cycles are the script's cycles and the publications are
                                         the effective key changes of the script, each IN the cycle of the change.
* `deferred_publishes_next_cycle`      : the run of a deferred client (source ranked first), for EVERY script - also
                                         with changes in consecutive cycles: the same publications, each exactly
                                         `MIN_TD` after the change; `deferred_never_same_cycle`.
* `modeless_key_leaks_mode`            : with ONE find-or-create helper keyed on (path, offset) (the seeded shape) the
                                         second of two builds on one path shows the FIRST builder's mode (witness);
                                         `modeless_first_step_unaffected`: the first step of a process is still right
                                         under that variant (why the monitor's reference stays valid),
                                         `modeless_other_path_unaffected`: and so is a build on a path nobody used.
-/
namespace HgVerif.SvcCtx

/-! ## find-or-create on an append-only table -/

theorem getElem?_append_some {α : Type} {l : List α} {i : Nat} {x : α} (l' : List α) (h : l[i]? = some x) :
    (l ++ l')[i]? = some x := by
  have hi : i < l.length := by
    rcases Nat.lt_or_ge i l.length with hlt | hge
    · exact hlt
    · rw [List.getElem?_eq_none hge] at h; cases h
  rw [List.getElem?_append_left hi]; exact h

theorem findIdx_some {α : Type} (p : α → Bool) : ∀ (t : List α) (i : Nat), findIdx p t = some i →
    ∃ x, t[i]? = some x ∧ p x = true
  | [], i, h => by simp [findIdx] at h
  | y :: ys, i, h => by
    unfold findIdx at h
    by_cases hy : p y = true
    · rw [if_pos hy] at h
      cases h
      exact ⟨y, by simp, hy⟩
    · rw [if_neg hy] at h
      cases hf : findIdx p ys with
      | none => rw [hf] at h; cases h
      | some j =>
        rw [hf] at h
        cases h
        obtain ⟨x, hx, hp⟩ := findIdx_some p ys j hf
        exact ⟨x, by simpa using hx, hp⟩

theorem findIdx_none {α : Type} (p : α → Bool) : ∀ (t : List α), findIdx p t = none → ∀ x ∈ t, p x = false
  | [], _, x, hx => by cases hx
  | y :: ys, h, x, hx => by
    unfold findIdx at h
    by_cases hy : p y = true
    · rw [if_pos hy] at h; cases h
    · rw [if_neg hy] at h
      have hn : findIdx p ys = none := by
        cases hf : findIdx p ys with
        | none => rfl
        | some j => rw [hf] at h; cases h
      rcases List.mem_cons.mp hx with rfl | hm
      · simpa using hy
      · exact findIdx_none p ys hn x hm

/-- the entry `intern` returns satisfies the key predicate (given that the entry it would make does) -/
theorem intern_spec {α : Type} (p : α → Bool) (mk : α) (t : List α) (hmk : p mk = true) :
    ∃ x, (intern p mk t).1[(intern p mk t).2]? = some x ∧ p x = true := by
  unfold intern
  cases hf : findIdx p t with
  | some i => exact findIdx_some p t i hf
  | none => exact ⟨mk, by simp, hmk⟩

/-- `intern` only appends -/
theorem intern_append {α : Type} (p : α → Bool) (mk : α) (t : List α) : ∃ suf, (intern p mk t).1 = t ++ suf := by
  unfold intern
  cases findIdx p t with
  | some i => exact ⟨[], by simp⟩
  | none => exact ⟨[mk], rfl⟩

/-- on a table without a matching entry `intern` creates one: the maker's -/
theorem intern_fresh {α : Type} (p : α → Bool) (mk : α) (t : List α) (h : ∀ x ∈ t, p x = false) :
    (intern p mk t).1[(intern p mk t).2]? = some mk := by
  unfold intern
  cases hf : findIdx p t with
  | some i =>
    obtain ⟨x, hx, hp⟩ := findIdx_some p t i hf
    have := h x (List.mem_of_getElem? hx)
    rw [this] at hp; cases hp
  | none => simp

/-! ## lookups return what was asked for -/

/-- **The capture context a builder gets carries the requested mode** - whatever the table held before. -/
theorem capture_context_mode_is_requested (t : List CapCtx) (path : Path) (off : Nat) (m : Bool) :
    ∃ c, (registerCap t path off m).1[(registerCap t path off m).2]? = some c ∧
      c.path = path ∧ c.off = off ∧ c.sameCycle = m := by
  obtain ⟨c, hc, hp⟩ := intern_spec (fun c : CapCtx => c.path == path && c.off == off && c.sameCycle == m)
    ⟨path, off, m⟩ t (by simp)
  refine ⟨c, hc, ?_⟩
  simpa [Bool.and_eq_true, and_assoc] using hp

theorem source_context_is_requested (t : List SrcCtx) (path : Path) (off : Nat) :
    ∃ c, (registerSrc t path off).1[(registerSrc t path off).2]? = some c ∧ c.path = path ∧ c.off = off := by
  obtain ⟨c, hc, hp⟩ := intern_spec (fun c : SrcCtx => c.path == path && c.off == off) ⟨path, off⟩ t (by simp)
  refine ⟨c, hc, ?_⟩
  simpa [Bool.and_eq_true] using hp

theorem node_type_is_requested (t : List NodeTy) (ctx : CtxId) (kt : KeyType) :
    (makeType t ctx kt).1[(makeType t ctx kt).2]? = some ⟨ctx, kt⟩ := by
  obtain ⟨ty, hty, hp⟩ := intern_spec (fun ty : NodeTy => ty.ctx == ctx && ty.kt == kt) ⟨ctx, kt⟩ t (by simp)
  have : ty = ⟨ctx, kt⟩ := by
    cases ty with
    | mk c k =>
      simp only [Bool.and_eq_true, beq_iff_eq] at hp
      cases hp.1; cases hp.2; rfl
  rw [← this]; exact hty

/-! ## a builder and what it refers to -/

/-- builder `b` refers, in process `p`, to a capture node type whose context exists and has mode `m` -/
def RefersTo (p : Proc) (b : Builder) (m : Bool) : Prop :=
  ∃ i kt c, p.types[b.capTy]? = some ⟨.cap i, kt⟩ ∧ p.capCtx[i]? = some c ∧ c.sameCycle = m

theorem modeOf_of_refers {p : Proc} {b : Builder} {m : Bool} (h : RefersTo p b m) : p.modeOf b = m := by
  obtain ⟨i, kt, c, ht, hc, hm⟩ := h
  unfold Proc.modeOf
  rw [ht]
  simp only [hc, hm]

/-- the tables of `q` extend those of `p` -/
def Extends (p q : Proc) : Prop :=
  (∃ a, q.capCtx = p.capCtx ++ a) ∧ (∃ a, q.srcCtx = p.srcCtx ++ a) ∧ (∃ a, q.types = p.types ++ a)

theorem Extends.refl (p : Proc) : Extends p p := ⟨⟨[], by simp⟩, ⟨[], by simp⟩, ⟨[], by simp⟩⟩

theorem Extends.trans {p q r : Proc} (h1 : Extends p q) (h2 : Extends q r) : Extends p r := by
  obtain ⟨⟨a1, ha1⟩, ⟨b1, hb1⟩, ⟨c1, hc1⟩⟩ := h1
  obtain ⟨⟨a2, ha2⟩, ⟨b2, hb2⟩, ⟨c2, hc2⟩⟩ := h2
  exact ⟨⟨a1 ++ a2, by rw [ha2, ha1, List.append_assoc]⟩, ⟨b1 ++ b2, by rw [hb2, hb1, List.append_assoc]⟩,
    ⟨c1 ++ c2, by rw [hc2, hc1, List.append_assoc]⟩⟩

theorem RefersTo.congr {p q : Proc} {b : Builder} {m : Bool} (ht : q.types = p.types) (hc : q.capCtx = p.capCtx)
    (h : RefersTo p b m) : RefersTo q b m := by
  obtain ⟨i, kt, c, h1, h2, h3⟩ := h
  exact ⟨i, kt, c, by rw [ht]; exact h1, by rw [hc]; exact h2, h3⟩

theorem RefersTo.mono {p q : Proc} {b : Builder} {m : Bool} (h : RefersTo p b m) (e : Extends p q) : RefersTo q b m := by
  obtain ⟨i, kt, c, ht, hc, hm⟩ := h
  obtain ⟨⟨a, ha⟩, _, ⟨ts, hts⟩⟩ := e
  exact ⟨i, kt, c, by rw [hts]; exact getElem?_append_some _ ht, by rw [ha]; exact getElem?_append_some _ hc, hm⟩

theorem makeType_append (t : List NodeTy) (ctx : CtxId) (kt : KeyType) : ∃ suf, (makeType t ctx kt).1 = t ++ suf :=
  intern_append _ _ _

theorem registerCap_append (t : List CapCtx) (path : Path) (off : Nat) (m : Bool) :
    ∃ suf, (registerCap t path off m).1 = t ++ suf := intern_append _ _ _

theorem registerSrc_append (t : List SrcCtx) (path : Path) (off : Nat) : ∃ suf, (registerSrc t path off).1 = t ++ suf :=
  intern_append _ _ _

/-- the two node types of a build: the table grows, the capture node's type sits where `makeType` said -/
theorem two_types (types : List NodeTy) (c s : CtxId) (kt : KeyType) :
    (∃ suf, (makeType (makeType types c kt).1 s kt).1 = types ++ suf) ∧
    (makeType (makeType types c kt).1 s kt).1[(makeType types c kt).2]? = some ⟨c, kt⟩ := by
  obtain ⟨a, ha⟩ := makeType_append types c kt
  obtain ⟨b, hb⟩ := makeType_append (makeType types c kt).1 s kt
  refine ⟨⟨a ++ b, by rw [hb, ha, List.append_assoc]⟩, ?_⟩
  rw [hb]
  exact getElem?_append_some _ (node_type_is_requested types c kt)

theorem build_extends (o : Offsets) (p : Proc) (r : Recipe) : Extends p (p.build o r).1 :=
  ⟨registerCap_append _ _ _ _, registerSrc_append _ _ _, (two_types p.types _ _ r.kt).1⟩

/-- the builder a build returns refers to a capture context with the recipe's mode - in ANY process state -/
theorem build_refers (o : Offsets) (p : Proc) (r : Recipe) :
    RefersTo (p.build o r).1 (p.build o r).2 r.sameCycle := by
  obtain ⟨c, hc, _, _, hm⟩ := capture_context_mode_is_requested p.capCtx r.path (o.cap r.kt) r.sameCycle
  exact ⟨(registerCap p.capCtx r.path (o.cap r.kt) r.sameCycle).2, r.kt, c, (two_types p.types _ _ r.kt).2, hc, hm⟩

/-- **The capture node of a graph built in ANY process state runs with the mode its recipe asked for.** -/
theorem build_mode_is_requested (o : Offsets) (p : Proc) (r : Recipe) :
    (p.build o r).1.modeOf (p.build o r).2 = r.sameCycle :=
  modeOf_of_refers (build_refers o p r)

/-! ## the registry only grows -/

theorem step_extends (o : Offsets) (p : Proc) (st : Step) : Extends p (p.step o st).1 := by
  cases st with
  | build r => exact build_extends o p r
  | reuse i =>
    have : (p.step o (.reuse i)).1 = p := by
      show (match p.builders[i]? with
        | some b => (p, Obs.trace (p.exec b))
        | none => (p, Obs.badOp)).1 = p
      cases p.builders[i]? <;> rfl
    rw [this]; exact Extends.refl p

/-- **Over any history the tables only grow**: each is the old table followed by a suffix. -/
theorem registry_append_only (o : Offsets) : ∀ (steps : List Step) (p : Proc), Extends p (p.runSteps o steps).1
  | [], p => Extends.refl p
  | st :: rest, p => (step_extends o p st).trans (registry_append_only o rest (p.step o st).1)

/-- **Existing entries never change**: what sits at an address before a history sits there after it. -/
theorem registry_entries_never_change (o : Offsets) (steps : List Step) (p : Proc) :
    (∀ (i : Nat) (c : CapCtx), p.capCtx[i]? = some c → (p.runSteps o steps).1.capCtx[i]? = some c) ∧
    (∀ (i : Nat) (c : SrcCtx), p.srcCtx[i]? = some c → (p.runSteps o steps).1.srcCtx[i]? = some c) ∧
    (∀ (i : Nat) (ty : NodeTy), p.types[i]? = some ty → (p.runSteps o steps).1.types[i]? = some ty) := by
  obtain ⟨⟨a, ha⟩, ⟨b, hb⟩, ⟨c, hc⟩⟩ := registry_append_only o steps p
  refine ⟨?_, ?_, ?_⟩
  · intro i x h; rw [ha]; exact getElem?_append_some _ h
  · intro i x h; rw [hb]; exact getElem?_append_some _ h
  · intro i x h; rw [hc]; exact getElem?_append_some _ h

/-! ## the trace of a step is history-free -/

/-- what a recipe shows: nothing but its own fields -/
def recipeTrace (r : Recipe) : Trace := run r.sameCycle r.captureFirst r.script

theorem build_obs (o : Offsets) (p : Proc) (r : Recipe) : (p.step o (.build r)).2 = .trace (recipeTrace r) := by
  show Obs.trace ((p.build o r).1.exec (p.build o r).2) = _
  unfold Proc.exec recipeTrace
  rw [build_mode_is_requested]
  rfl

/-- **A build-and-run step shows the same in ANY two process states, under ANY two offset assignments.** -/
theorem build_trace_history_free (o o' : Offsets) (p p' : Proc) (r : Recipe) :
    (p.step o (.build r)).2 = (p'.step o' (.build r)).2 := by
  rw [build_obs, build_obs]

/-- the monitor's reference: the step as the first thing a fresh process does -/
theorem fresh_reference_reproduces (o : Offsets) (p : Proc) (r : Recipe) :
    (p.step o (.build r)).2 = (({} : Proc).step o (.build r)).2 :=
  build_trace_history_free o o p {} r

/-- a history: steps and case boundaries -/
inductive Item where
  | step (s : Step)
  | newCase
deriving DecidableEq, Repr

def Proc.runItems (o : Offsets) (p : Proc) : List Item → Proc × List (Option Obs)
  | [] => (p, [])
  | .step st :: rest =>
    let r := p.step o st
    let t := Proc.runItems o r.1 rest
    (t.1, some r.2 :: t.2)
  | .newCase :: rest =>
    let t := Proc.runItems o p.newCase rest
    (t.1, none :: t.2)

/-- the reference of a step, given only the recipes of the builds of its case so far -/
def refObs (rs : List Recipe) : Step → Obs
  | .build r => .trace (recipeTrace r)
  | .reuse i => match rs[i]? with
    | some r => .trace (recipeTrace r)
    | none => .badOp

/-- the references of a history: no process state in sight -/
def refItems (rs : List Recipe) : List Item → List (Option Obs)
  | [] => []
  | .step st :: rest =>
    some (refObs rs st) :: refItems (match st with | .build r => rs ++ [r] | .reuse _ => rs) rest
  | .newCase :: rest => none :: refItems [] rest

/-- the two lists have the same length and are related position by position -/
inductive All2 {α β : Type} (R : α → β → Prop) : List α → List β → Prop where
  | nil : All2 R [] []
  | cons {a b l l'} : R a b → All2 R l l' → All2 R (a :: l) (b :: l')

/-- the builders of the case are those of the recipes `rs`, each still referring to a context of its mode -/
def Wf (p : Proc) (rs : List Recipe) : Prop :=
  All2 (fun b r => RefersTo p b r.sameCycle ∧ b.captureFirst = r.captureFirst ∧ b.script = r.script) p.builders rs

theorem forall₂_getElem? {α β : Type} {R : α → β → Prop} : ∀ {l : List α} {l' : List β}, All2 R l l' →
    ∀ i : Nat, (∃ a b, l[i]? = some a ∧ l'[i]? = some b ∧ R a b) ∨ (l[i]? = none ∧ l'[i]? = none)
  | _, _, .nil, i => Or.inr ⟨by simp, by simp⟩
  | _, _, .cons h t, 0 => Or.inl ⟨_, _, by simp, by simp, h⟩
  | _, _, .cons _ t, i + 1 => by simpa using forall₂_getElem? t i

theorem forall₂_append {α β : Type} {R : α → β → Prop} : ∀ {l : List α} {l' : List β}, All2 R l l' →
    ∀ {a b}, R a b → All2 R (l ++ [a]) (l' ++ [b])
  | _, _, .nil, _, _, h => .cons h .nil
  | _, _, .cons h t, _, _, h' => .cons h (forall₂_append t h')

theorem forall₂_imp {α β : Type} {R S : α → β → Prop} (hRS : ∀ a b, R a b → S a b) : ∀ {l : List α} {l' : List β},
    All2 R l l' → All2 S l l'
  | _, _, .nil => .nil
  | _, _, .cons h t => .cons (hRS _ _ h) (forall₂_imp hRS t)

theorem step_obs_wf (o : Offsets) (p : Proc) (rs : List Recipe) (h : Wf p rs) (st : Step) :
    (p.step o st).2 = refObs rs st ∧
    Wf (p.step o st).1 (match st with | .build r => rs ++ [r] | .reuse _ => rs) := by
  cases st with
  | build r =>
    refine ⟨build_obs o p r, ?_⟩
    show All2 _ ((p.build o r).1.builders ++ [(p.build o r).2]) (rs ++ [r])
    have hb : (p.build o r).1.builders = p.builders := rfl
    rw [hb]
    refine forall₂_append ?_ ⟨(build_refers o p r).congr rfl rfl, rfl, rfl⟩
    exact forall₂_imp (fun b r' hbr => ⟨(hbr.1.mono (build_extends o p r)).congr rfl rfl, hbr.2⟩) h
  | reuse i =>
    rcases forall₂_getElem? h i with ⟨b, r, hb, hr, hR, hcf, hsc⟩ | ⟨hb, hr⟩
    · have h1 : p.step o (.reuse i) = (p, .trace (p.exec b)) := by simp only [Proc.step, hb]
      have h2 : refObs rs (.reuse i) = .trace (recipeTrace r) := by simp only [refObs, hr]
      rw [h1, h2]
      refine ⟨?_, h⟩
      show Obs.trace (p.exec b) = _
      unfold Proc.exec recipeTrace
      rw [modeOf_of_refers hR, hcf, hsc]
    · have h1 : p.step o (.reuse i) = (p, .badOp) := by simp only [Proc.step, hb]
      have h2 : refObs rs (.reuse i) = .badOp := by simp only [refObs, hr]
      rw [h1, h2]
      exact ⟨rfl, h⟩

theorem runItems_eq_ref (o : Offsets) : ∀ (items : List Item) (p : Proc) (rs : List Recipe), Wf p rs →
    (p.runItems o items).2 = refItems rs items
  | [], _, _, _ => rfl
  | .step st :: rest, p, rs, h => by
    obtain ⟨ho, hw⟩ := step_obs_wf o p rs h st
    show some (p.step o st).2 :: ((p.step o st).1.runItems o rest).2 = _
    rw [ho, runItems_eq_ref o rest _ _ hw]
    rfl
  | .newCase :: rest, p, rs, _ => by
    show none :: (p.newCase.runItems o rest).2 = _
    rw [runItems_eq_ref o rest p.newCase [] (by show All2 _ [] []; exact .nil)]
    rfl

/-- **Every step of EVERY history shows what its own recipe determines**: the observations of a history run from the
    empty process - any builds (paths, key types, modes, node orders, scripts, repetitions), reuse of any builder,
    case boundaries anywhere - are the references `refItems`, which are computed from the steps' own recipes alone
    (a `reuse i` from the recipe of the `i`-th build of its case).  No step depends on the steps before it. -/
theorem svc_step_trace_history_free (o : Offsets) (items : List Item) :
    (({} : Proc).runItems o items).2 = refItems [] items :=
  runItems_eq_ref o items {} [] (by show All2 _ [] []; exact .nil)

theorem runItems_append (o : Offsets) : ∀ (a b : List Item) (p : Proc),
    (p.runItems o (a ++ b)).2 = (p.runItems o a).2 ++ ((p.runItems o a).1.runItems o b).2
  | [], _, _ => rfl
  | .step st :: rest, b, p => by
    show some (p.step o st).2 :: ((p.step o st).1.runItems o (rest ++ b)).2 = _
    rw [runItems_append o rest b]; rfl
  | .newCase :: rest, b, p => by
    show none :: (p.newCase.runItems o (rest ++ b)).2 = _
    rw [runItems_append o rest b]; rfl

theorem runItems_wf (o : Offsets) : ∀ (items : List Item) (p : Proc) (rs : List Recipe), Wf p rs →
    ∃ rs', Wf (p.runItems o items).1 rs'
  | [], _, rs, h => ⟨rs, h⟩
  | .step st :: rest, p, rs, h => runItems_wf o rest _ _ (step_obs_wf o p rs h st).2
  | .newCase :: rest, p, _, _ => runItems_wf o rest p.newCase [] (by show All2 _ [] []; exact .nil)

/-- **What a case shows does not depend on the history before it**: after ANY history `before` (under any offset
    assignment), a case boundary followed by any items shows what the same items show in a fresh process. -/
theorem svc_history_prefix_irrelevant (o o' : Offsets) (before items : List Item) :
    ((({} : Proc).runItems o before).1.runItems o (.newCase :: items)).2 =
      (({} : Proc).runItems o' (.newCase :: items)).2 := by
  obtain ⟨rs, hw⟩ := runItems_wf o before {} [] (by show All2 _ [] []; exact .nil)
  rw [runItems_eq_ref o _ _ rs hw, runItems_eq_ref o' _ _ [] (by show All2 _ [] []; exact .nil)]
  rfl

/-! ## what the mode means: the timing of a run (spec: `changesFrom`, `pubOf`) -/

/-- **A Direct transport (capture ranked before the source) publishes every key change in the cycle of the change**:
    for EVERY script the engine cycles are exactly the script's cycles and the published key sets are the effective
    changes of the script, each at the time of its cycle: the previous key removed, the new key added. -/
theorem direct_publishes_same_cycle (script : List (Option Nat)) (h : script ≠ []) :
    run true true script = ⟨(List.range script.length).map (MIN_ST + ·), (changesFrom none 0 script).map (pubOf 0)⟩ := by
  have hn : 0 < script.length := List.length_pos_iff.mpr h
  have hl := direct_loop script (endTime script) (script.length - 1) MIN_ST 0 (endTime script) none 0 0 0 none [] []
    (by omega) (by simp [endTime, MIN_ST, MIN_TD]; omega) (by simp [endTime, MIN_ST, MIN_TD]; omega) rfl (by simp [MIN_ST])
    (by simp [MIN_ST]) (by simp [MIN_ST])
  have h0 : ({ sScript := MIN_ST } : RS) = dState MIN_ST 0 none 0 0 0 none [] [] := rfl
  unfold run
  rw [h0]
  simp only [hl.1, hl.2, List.nil_append, List.drop_zero]
  have hlen : script.length - 1 + 1 = script.length := by omega
  rw [hlen]


/-- **A deferred transport whose source is ranked before the capture node publishes every key change exactly one
    cycle after the change** - for EVERY script, also with changes in consecutive cycles: the published key sets are
    the effective changes of the script, each at the time of its cycle plus `MIN_TD`; never in the cycle of the change. -/
theorem deferred_publishes_next_cycle (script : List (Option Nat)) (h : script ≠ []) :
    (run false false script).pubs = (changesFrom none 0 script).map (pubOf 1) := by
  have hn : 0 < script.length := List.length_pos_iff.mpr h
  have hl := deferred_loop script (endTime script) (script.length - 1) MIN_ST 0 (endTime script) none none [] 0 0 0 none [] []
    (by omega) (by simp [endTime, MIN_ST, MIN_TD]; omega) (by simp [endTime, MIN_ST, MIN_TD]; omega) rfl (by simp [MIN_ST])
    (by simp [MIN_ST]) (.idle rfl rfl (by simp [MIN_ST]))
  have h0 : ({ sScript := MIN_ST } : RS) = fState MIN_ST 0 none none [] 0 0 0 none [] [] := rfl
  unfold run
  rw [h0]
  simp only [hl, handPub, List.nil_append, List.drop_zero]

/-- every publication of a deferred client (source ranked first) is strictly later than the change it publishes -/
theorem deferred_never_same_cycle (script : List (Option Nat)) (h : script ≠ []) :
    (run false false script).pubs.map (·.time) = (changesFrom none 0 script).map (fun c => MIN_ST + c.1 + 1) := by
  rw [deferred_publishes_next_cycle script h, List.map_map]
  rfl

/-! ## the variant: the mode left out of the key -/

def leakPath : Path := "svc://x"

/-- a Direct client: key 7 at cycle 0, key 8 at cycle 2 -/
def leakDirect : Recipe := ⟨leakPath, .int, true, true, [some 7, none, some 8]⟩
/-- a deferred client of the SAME path -/
def leakDeferred : Recipe := ⟨leakPath, .int, false, true, [some 7, none, some 8]⟩
/-- ... and of another one -/
def otherDeferred : Recipe := ⟨"svc://y", .int, false, true, [some 7, none, some 8]⟩

def off0 : Offsets := ⟨fun _ => 0, fun _ => 0⟩

/-- **A key without the mode leaks the first builder's mode into later graphs** (kernel-checked witness): the code
    as it is shows for the deferred client - after the Direct client of the same path, or alone - the next-cycle
    publication; the variant shows the SAME-cycle publication of the Direct client built before it (and the deferred
    timing for a Direct client built after a deferred one), while the same client on another path is right. -/
theorem modeless_key_leaks_mode :
    (({} : Proc).runSteps off0 [.build leakDirect, .build leakDeferred]).2.getLast? =
      (({} : Proc).runSteps off0 [.build leakDeferred]).2.getLast? ∧
    (({} : Proc).runStepsM off0 [.build leakDirect, .build leakDeferred]).2.getLast? ≠
      (({} : Proc).runStepsM off0 [.build leakDeferred]).2.getLast? ∧
    (({} : Proc).runStepsM off0 [.build leakDirect, .build leakDeferred]).2.getLast? =
      some (.trace (recipeTrace leakDirect)) ∧
    (({} : Proc).runStepsM off0 [.build leakDeferred, .build leakDirect]).2.getLast? =
      some (.trace (recipeTrace leakDeferred)) ∧
    (({} : Proc).runStepsM off0 [.build leakDirect, .build otherDeferred]).2.getLast? =
      (({} : Proc).runStepsM off0 [.build otherDeferred]).2.getLast? := by
  decide

/-- on a table without an entry of this (path, offset) the variant creates the requested context -/
theorem registerCapM_fresh (t : List CapCtx) (path : Path) (off : Nat) (m : Bool)
    (h : ∀ c ∈ t, ¬ (c.path = path ∧ c.off = off)) :
    (registerCapM t path off m).1[(registerCapM t path off m).2]? = some ⟨path, off, m⟩ := by
  apply intern_fresh
  intro c hc
  have := h c hc
  simpa [Bool.and_eq_true] using this

theorem buildM_refers_of_fresh (o : Offsets) (p : Proc) (r : Recipe)
    (h : ∀ c ∈ p.capCtx, ¬ (c.path = r.path ∧ c.off = o.cap r.kt)) :
    RefersTo (p.buildM o r).1 (p.buildM o r).2 r.sameCycle :=
  ⟨(registerCapM p.capCtx r.path (o.cap r.kt) r.sameCycle).2, r.kt, _, (two_types p.types _ _ r.kt).2,
    registerCapM_fresh p.capCtx r.path (o.cap r.kt) r.sameCycle h, rfl⟩

/-- **Under the variant a build on a (path, offset) no capture node used before is still right** - in any process
    state, for every recipe. -/
theorem modeless_other_path_unaffected (o : Offsets) (p : Proc) (r : Recipe)
    (h : ∀ c ∈ p.capCtx, ¬ (c.path = r.path ∧ c.off = o.cap r.kt)) :
    (p.stepM o (.build r)).2 = .trace (recipeTrace r) := by
  show Obs.trace ((p.buildM o r).1.exec (p.buildM o r).2) = _
  unfold Proc.exec recipeTrace
  rw [modeOf_of_refers (buildM_refers_of_fresh o p r h)]
  rfl

/-- **The first step of a process is right under the variant** (every recipe): the reference the monitor takes from a
    fresh process is the same with and without the defect. -/
theorem modeless_first_step_unaffected (o : Offsets) (r : Recipe) :
    (({} : Proc).stepM o (.build r)).2 = (({} : Proc).step o (.build r)).2 := by
  rw [modeless_other_path_unaffected o {} r (by intro c hc; cases hc), build_obs]

/-! ## non-vacuity -/

/-- the Direct client: published in the cycle of the change (cycle `i` is time `1 + i`) -/
example : recipeTrace leakDirect = ⟨[1, 2, 3], [⟨1, [], [7], [7]⟩, ⟨3, [7], [8], [8]⟩]⟩ := by decide
/-- the deferred client: one cycle later (one more engine cycle at the end) -/
example : recipeTrace leakDeferred = ⟨[1, 2, 3, 4], [⟨2, [], [7], [7]⟩, ⟨4, [7], [8], [8]⟩]⟩ := by decide
/-- the deferred client whose source is ranked first, key changes in consecutive cycles: each one cycle later -/
example : run false false [some 1, some 2, some 3] = ⟨[1, 2, 3, 4], [⟨2, [], [1], [1]⟩, ⟨3, [1], [2], [2]⟩, ⟨4, [2], [3], [3]⟩]⟩ := by
  decide
/-- as coded: with the capture node ranked first, a deferred hand-off made at `t` overwrites the source's wake-up
    for `t` (`scheduled <= current`), so while the key changes every cycle nothing is published; afterwards one
    batch per cycle -/
example : run false true [some 1, some 2, some 3] = ⟨[1, 2, 3, 4, 5, 6], [⟨4, [], [1], [1]⟩, ⟨5, [1], [2], [2]⟩, ⟨6, [2], [3], [3]⟩]⟩ := by
  decide
/-- as coded: a Direct hand-off with the source ranked first asks for a cycle the scan has already passed -/
example : run true false [some 1, none, some 2] = ⟨[1, 2, 3], []⟩ := by decide

/-- the spec on a script with consecutive changes, a re-set of the same key and an idle cycle -/
example : (changesFrom none 0 [some 1, some 2, some 2, none, some 1]).map (pubOf 1) =
    [⟨2, [], [1], [1]⟩, ⟨3, [1], [2], [2]⟩, ⟨6, [2], [1], [1]⟩] := by decide
example : run true true [some 1, some 2, some 2, none, some 1] =
    ⟨[1, 2, 3, 4, 5], [⟨1, [], [1], [1]⟩, ⟨2, [1], [2], [2]⟩, ⟨5, [2], [1], [1]⟩]⟩ := direct_publishes_same_cycle _ (by decide)

/-- a reachable state with two capture contexts for one path: the hypothesis-free lookup theorem applied to it -/
example : (({} : Proc).runSteps off0 [.build leakDirect, .build leakDeferred]).1.capCtx =
    [⟨leakPath, 0, true⟩, ⟨leakPath, 0, false⟩] := by decide
/-- ... the variant keeps one -/
example : (({} : Proc).runStepsM off0 [.build leakDirect, .build leakDeferred]).1.capCtx = [⟨leakPath, 0, true⟩] := by decide
/-- key types share a context (same path, same offset) but not a node type -/
example : (({} : Proc).runSteps off0 [.build leakDirect, .build { leakDirect with kt := .str }]).1.capCtx.length = 1 ∧
    (({} : Proc).runSteps off0 [.build leakDirect, .build { leakDirect with kt := .str }]).1.types.length = 4 := by decide
/-- `Wf` is satisfiable with a non-empty case; reuse of the first builder after another build of the same path -/
example : (({} : Proc).runItems off0 [.step (.build leakDirect), .step (.build leakDeferred), .step (.reuse 0), .step (.reuse 2)]).2 =
    [some (.trace (recipeTrace leakDirect)), some (.trace (recipeTrace leakDeferred)), some (.trace (recipeTrace leakDirect)),
     some .badOp] := by decide
/-- a case boundary drops the builders, not the tables -/
example : (({} : Proc).runItems off0 [.step (.build leakDirect), .newCase, .step (.reuse 0)]).2 = [some (.trace (recipeTrace leakDirect)), none, some .badOp] ∧
    (({} : Proc).runItems off0 [.step (.build leakDirect), .newCase]).1.capCtx.length = 1 := by decide
/-- the hypothesis of `modeless_other_path_unaffected` holds after a build on another path and fails on the same -/
example : ∀ c ∈ (({} : Proc).stepM off0 (.build leakDirect)).1.capCtx, ¬ (c.path = otherDeferred.path ∧ c.off = off0.cap otherDeferred.kt) := by
  decide

end HgVerif.SvcCtx
