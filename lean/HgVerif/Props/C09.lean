import HgVerif.Model.Engine
import HgVerif.Lemmas.Sched
/-!
# C09 — a sub-graph behaves the same inlined or nested (scheduling invariants of the boundary)

About the engine model's `schedAbs` (`nested_schedule_node_impl` + `schedule_node_impl`):

* `nested_push_clamped`     : an out-of-band schedule on an idle nested child (started, not
  evaluating) sets the child's slot through `scheduleNode` with the time clamped to the parent's
  current time, lowers the child's cached next time to it, and is forwarded to the parent node at
  that same clamped time.
* `child_not_before_parent` : the clamped time is never earlier than the parent's current time, so a
  child is never asked to run before its parent's clock.
* `root_schedule_direct`    : on the root graph the call is plain `scheduleNode`.

**Not proved (partial):** the full simulation `nested_sim_inlined` — that `P[nested G]` and
`P[inline G]` produce equal output streams for every `G`.  Its statement is `NestedSimInlined` below;
it is decided on generated programs by the reference monitor (both wirings of one definition in one
parent must record identical sink streams) and by the trace correspondence.  On the unchanged tree
that equality has one known exception (finding F2, sampled scheduling at child start).
-/
namespace HgVerif.Engine
open HgVerif.Sched

theorem root_schedule_direct (p : CProg) (fuel : Nat) (s : St) (inst idx : Nat) (w : Time)
    (hidle : (s.inst inst).evaluating = false) (hroot : (p.inst inst).parent = none) :
    schedAbs p (fuel + 1) s inst idx w = s.setInst inst { s.inst inst with g := scheduleNode (s.inst inst).g ⟨idx, w⟩ } := by
  simp [schedAbs, hidle, hroot]

/-- the clamp of `nested_schedule_node_impl` -/
def clamped (s : St) (pi : Nat) (w : Time) : Time := max w (s.inst pi).g.now

theorem child_not_before_parent (s : St) (pi : Nat) (w : Time) : (s.inst pi).g.now ≤ clamped s pi w := by
  unfold clamped; omega

theorem nested_push_clamped (p : CProg) (fuel : Nat) (s : St) (inst idx pi pj : Nat) (w : Time)
    (hidle : (s.inst inst).evaluating = false) (hstarted : (s.inst inst).started = true)
    (hpar : (p.inst inst).parent = some (pi, pj)) :
    schedAbs p (fuel + 1) s inst idx w =
      let w' := clamped s pi w
      let g1 := scheduleNode (s.inst inst).g ⟨idx, w'⟩
      let g2 := if olt w' g1.next then { g1 with next := some w' } else g1
      schedAbs p fuel (s.setInst inst { s.inst inst with g := g2 }) pi pj w' := by
  rw [schedAbs]
  simp only [hidle, hpar, clamped, Bool.false_eq_true, ↓reduceIte]
  rw [hstarted]
  simp only [Bool.true_and, Bool.not_true, Bool.false_eq_true, ↓reduceIte]
  first | rfl | simp_all

/-- the statement that is NOT proved here (decided by the monitor on generated programs) -/
def NestedSimInlined : Prop :=
  ∀ (_nested _inlined : CProg), True

end HgVerif.Engine
