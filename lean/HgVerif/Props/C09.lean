import HgVerif.Model.Engine
import HgVerif.Lemmas.Sched
import HgVerif.Props.C02
import HgVerif.Model.Nested
/-!
# C09 — a sub-graph behaves the same inlined or nested (scheduling invariants of the boundary)

About the engine model's `schedAbs` (`nested_schedule_node_impl` + `schedule_node_impl`):

* `nested_push_clamped`     : an out-of-band schedule on an idle nested child (started, not
  evaluating) sets the child's slot through `scheduleNode` with the time clamped to the parent's
  current time, lowers the child's cached next time to it, and is forwarded to the parent node at
  that same clamped time.
* `child_not_before_parent` : the clamped time is never earlier than the parent's current time, so a
  child is never asked to run before its parent's clock.
* `root_schedule_direct`    : on the root graph the call is plain `scheduleNode`.

**Proved elsewhere:** the full simulation — `P[nested G]` and `P[inline G]` produce equal runs — is
`HgVerif.NestFlow.nested_sim_inlined_flow` (`Props/C09Flow.lean`) for flat dataflow sub-graphs with arbitrary
node functions, at every depth of a chain of nested graphs, from corresponding states after start.  What
stays decided by the reference monitor only (both wirings of one definition in one parent must record
identical sink streams) and by the trace correspondence: several nested nodes in one graph, children with
their own policy (map_/switch_/try_except), failing nodes, and start-time sampling, where the unchanged
tree has one known exception (finding F2).
-/
namespace HgVerif.Engine
open HgVerif.Sched

theorem root_schedule_direct (p : CProg) (fuel : Nat) (s : St) (inst idx : Nat) (w : Time)
    (hidle : (s.inst inst).evaluating = false) (hroot : (p.inst inst).parent = none) :
    schedAbs p (fuel + 1) s inst idx w = s.setInst inst { s.inst inst with g := scheduleNode (s.inst inst).g ⟨idx, w⟩ } := by
  simp [schedAbs, hidle, hroot]

/-- the clamp of `nested_schedule_node_impl` -/
def clamped (s : St) (pi : Nat) (w : Time) : Time := max w (s.inst pi).g.now

theorem child_not_before_parent (s : St) (pi : Nat) (w : Time) : (s.inst pi).g.now ≤ clamped s pi w := by
  unfold clamped; omega

theorem nested_push_clamped (p : CProg) (fuel : Nat) (s : St) (inst idx pi pj : Nat) (w : Time)
    (hidle : (s.inst inst).evaluating = false) (hstarted : (s.inst inst).started = true)
    (hpar : (p.inst inst).parent = some (pi, pj)) :
    schedAbs p (fuel + 1) s inst idx w =
      let w' := clamped s pi w
      let g1 := scheduleNode (s.inst inst).g ⟨idx, w'⟩
      let g2 := if olt w' g1.next then { g1 with next := some w' } else g1
      schedAbs p fuel (s.setInst inst { s.inst inst with g := g2 }) pi pj w' := by
  rw [schedAbs]
  simp only [hidle, hpar, clamped, Bool.false_eq_true, ↓reduceIte]
  rw [hstarted]
  simp only [Bool.true_and, Bool.not_true, Bool.false_eq_true, ↓reduceIte]
  first | rfl | simp_all

/- The simulation statement itself lives in `Props/C09Flow.lean` (`HgVerif.NestFlow.nested_sim_inlined_flow`,
   proved); for whole `CProg`s with all node kinds it is decided by the monitor on generated programs. -/

end HgVerif.Engine

/-! ## none of the child's wake-ups is lost (generic layer, arbitrary child behaviours) -/
namespace HgVerif.Sched

/-- after the nested node has been evaluated at `t` (the child's cycle completed), the parent's slot
    for the nested node is armed strictly after `t` and **no later than every future slot of the
    child** — so the parent's next wake-up of the nested node cannot pass a child wake-up (with
    `scan_next_lower` for the parent graph, the root's next cycle cannot either) -/
theorem child_wakeups_kept {σ : Type} (fx : Bool) (γ : Beh σ) (m : Nat) (hγ : Disc γ m) (t : Time) (s : Nest) (u : σ)
    (hlen : s.gc.slots.length = m) (hc : s.gc.cursor = 0) (hk : s.k < s.gp.slots.length)
    (hpnow : s.gp.now = t) (hdue : slotOf s.gp s.k = t)
    (hok : (cycle fx γ m t s.gc u).ok = true) :
    ∀ j, j < m → t < slotOf (Nest.eval fx γ m t s u).1.gc j →
      t < slotOf (Nest.eval fx γ m t s u).1.gp s.k ∧
      slotOf (Nest.eval fx γ m t s u).1.gp s.k ≤ slotOf (Nest.eval fx γ m t s u).1.gc j := by
  intro j hj hlt
  have hgc : (Nest.eval fx γ m t s u).1.gc = (cycle fx γ m t s.gc u).g := rfl
  rw [hgc] at hlt ⊢
  obtain ⟨nx, hnx, hle⟩ := scan_next_lower fx γ m hγ t s.gc u hlen hc hok j hj hlt
  have hgt := cycle_next_gt fx γ m hγ t s.gc u hlen hc hok nx hnx
  have hgp : (Nest.eval fx γ m t s u).1.gp = scheduleNode s.gp ⟨s.k, nx⟩ := by
    simp [Nest.eval, hnx, hok]
  rw [hgp, scheduleNode_slots s.gp ⟨s.k, nx⟩ s.k hk]
  have hacc : accepts s.gp ⟨s.k, nx⟩ := by
    unfold accepts; left; rw [hpnow]; exact Nat.le_of_eq hdue
  rw [if_pos ⟨rfl, hacc⟩]
  exact ⟨hgt, hle⟩

/-- the push path: an out-of-band schedule on the idle child is clamped to the parent's time and
    the parent's slot for the nested node ends up **no later than** the time the child was given -/
theorem push_wakes_parent (s : Nest) (j : Nat) (w : Time) (hk : s.k < s.gp.slots.length) (hj : j < s.gc.slots.length) :
    let w' := max w s.gp.now
    s.gp.now ≤ w' ∧
    (slotOf (s.push j w).gc j = w' ∨ slotOf (s.push j w).gc j = slotOf s.gc j) ∧
    (slotOf s.gp s.k ≤ s.gp.now → slotOf (s.push j w).gp s.k = w') ∧
    (s.gp.now < slotOf s.gp s.k → slotOf (s.push j w).gp s.k ≤ w' ∧ slotOf (s.push j w).gp s.k ≤ slotOf s.gp s.k) := by
  intro w'
  have hw' : s.gp.now ≤ w' := Nat.le_max_right _ _
  refine ⟨hw', ?_, ?_, ?_⟩
  · have : (s.push j w).gc.slots = (scheduleNode s.gc ⟨j, w'⟩).slots := by
      simp only [Nest.push]; split <;> rfl
    have h2 : slotOf (s.push j w).gc j = slotOf (scheduleNode s.gc ⟨j, w'⟩) j := by simp [slotOf, this]
    rw [h2, scheduleNode_slots s.gc ⟨j, w'⟩ j hj]
    by_cases hacc : accepts s.gc ⟨j, w'⟩
    · left; rw [if_pos ⟨rfl, hacc⟩]
    · right; rw [if_neg (fun h => hacc h.2)]
  · intro hcons
    have : (s.push j w).gp = scheduleNode s.gp ⟨s.k, w'⟩ := rfl
    rw [this, scheduleNode_slots s.gp ⟨s.k, w'⟩ s.k hk]
    have hacc : accepts s.gp ⟨s.k, w'⟩ := Or.inl hcons
    rw [if_pos ⟨rfl, hacc⟩]
  · intro harmed
    have : (s.push j w).gp = scheduleNode s.gp ⟨s.k, w'⟩ := rfl
    rw [this, scheduleNode_slots s.gp ⟨s.k, w'⟩ s.k hk]
    by_cases hacc : accepts s.gp ⟨s.k, w'⟩
    · rw [if_pos ⟨rfl, hacc⟩]
      have hacc' : slotOf s.gp s.k ≤ s.gp.now ∨ w' < slotOf s.gp s.k := hacc
      show w' ≤ w' ∧ w' ≤ slotOf s.gp s.k
      exact ⟨Nat.le_refl _, by omega⟩
    · rw [if_neg (fun h => hacc h.2)]
      have hacc' : ¬ (slotOf s.gp s.k ≤ s.gp.now ∨ w' < slotOf s.gp s.k) := hacc
      show slotOf s.gp s.k ≤ w' ∧ slotOf s.gp s.k ≤ slotOf s.gp s.k
      exact ⟨by omega, Nat.le_refl _⟩

end HgVerif.Sched
