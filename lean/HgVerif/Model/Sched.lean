/-
Generic model of the graph schedule mechanism of `src/hgraph/runtime/graph.cpp`:
`schedule_node_impl`, the cache seed at the end of `start_impl`, the forward scan of
`evaluate_impl` (with the evaluation cursor, the failed flag and the resume rule) and the
simulation loop of `executor.cpp run_storage` / `advance_simulation`.

Node behaviour is a parameter: theorems about this layer hold for every node that can be
written.  `none : Option Time` stands for `MAX_DT`; slot value `0` is `MIN_DT` (never scheduled).
Core Lean only.
-/
namespace HgVerif.Sched

/-- times are microsecond counts; a notation (not a definition) so that `omega` sees `Nat` -/
scoped notation "Time" => Nat

/-- a call `graph.schedule_node(node, time)` -/
structure Req where
  node : Nat
  time : Time
deriving Repr, DecidableEq

/-- the schedule part of a graph's runtime header -/
structure G where
  slots : List Time          -- `graph_schedule(i)`
  next : Option Time := none -- `next_scheduled_time` (`none` = MAX_DT)
  now : Time := 0            -- `evaluation_time`
  cursor : Nat := 0          -- `evaluation_cursor` (0 = fresh)
  failed : Bool := false     -- `evaluation_failed`
deriving Repr, DecidableEq

def olt (t : Time) : Option Time → Bool
  | none => true
  | some n => decide (t < n)

def omin (o : Option Time) (t : Time) : Option Time :=
  if olt t o then some t else o

/-- `schedule_node_impl` (callers guarantee `r.time ≥ g.now` and `r.node < slots.length`;
    the code throws otherwise). -/
def scheduleNode (g : G) (r : Req) : G :=
  let s := g.slots.getD r.node 0
  if s ≤ g.now || r.time < s then
    { g with slots := g.slots.set r.node r.time,
             next := if r.time > g.now && olt r.time g.next then some r.time else g.next }
  else g

/-- the fold at the end of `start_impl`: `scheduled >= evaluation_time && scheduled < next` -/
def startFold (g : G) : G :=
  { g with next := g.slots.foldl (fun acc s => if s ≥ g.now && olt s acc then some s else acc) none }

/-- result of one engine-level node evaluation (`node_view.evaluate`) -/
structure EvalRes (σ : Type) where
  st : σ
  reqs : List Req := []
  ok : Bool := true       -- `false`: an exception escaped the node

/-- arbitrary node behaviour -/
structure Beh (σ : Type) where
  eval : Nat → Time → σ → EvalRes σ

structure ScanRes (σ : Type) where
  g : G
  st : σ
  evaluated : List Nat
  ok : Bool

/-- `keep_unvisited_wakeups` of `evaluate_impl`: an exception ends the scan at node `i`; the pending
    times of the nodes after it (`pending > evaluation_time && pending < next`) are folded into `next`. -/
def keepUnvisited (t : Time) (i : Nat) (g : G) : G :=
  { g with next := (g.slots.drop (i + 1)).foldl (fun acc s => if s > t && olt s acc then some s else acc) g.next }

/-- the `for (; cursor < node_count; ++cursor)` loop of `evaluate_impl` from index `i`
    (`fuel = node_count - i`). -/
def scanFrom {σ : Type} (β : Beh σ) (t : Time) : Nat → Nat → G → σ → List Nat → ScanRes σ
  | 0, _, g, u, ev => { g := { g with cursor := 0 }, st := u, evaluated := ev, ok := true }
  | fuel + 1, i, g, u, ev =>
    let s := g.slots.getD i 0
    if s = t then
      let r := β.eval i t u
      let g' := r.reqs.foldl scheduleNode { g with cursor := i }
      if r.ok then scanFrom β t fuel (i + 1) g' r.st (ev ++ [i])
      else { g := keepUnvisited t i { g' with failed := true }, st := r.st, evaluated := ev ++ [i], ok := false }
    else if s > t then scanFrom β t fuel (i + 1) { g with next := omin g.next s, cursor := i } u ev
    else scanFrom β t fuel (i + 1) { g with cursor := i } u ev

/-- `resuming` as computed by `evaluate_impl`.  `fixedResume = false` is the code before the
    `fix:` commit (cursor alone); `true` is the repaired rule (a failed evaluation never resumes). -/
def resuming (fixedResume : Bool) (g : G) : Bool :=
  if fixedResume then (!g.failed && g.cursor != 0) else g.cursor != 0

/-- one `evaluate_impl` call on a graph of `n` nodes at time `t` (no push-source prefix) -/
def cycle {σ : Type} (fixedResume : Bool) (β : Beh σ) (n : Nat) (t : Time) (g : G) (u : σ) : ScanRes σ :=
  if resuming fixedResume g then
    scanFrom β t (n - g.cursor) g.cursor { g with now := t, failed := false } u []
  else
    scanFrom β t n 0 { g with now := t, failed := false, next := none, cursor := 0 } u []

/-- `run_storage`'s decision: the next cycle time, if the run continues -/
def nextCycle (g : G) (endT : Time) : Option Time :=
  match g.next with
  | none => none
  | some n => if n ≥ endT then none else some n   -- advance_simulation: min(next, end); `>= end` breaks

structure RunRes (σ : Type) where
  g : G
  st : σ
  times : List Time        -- evaluation time of every cycle, in order
  ok : Bool

/-- the simulation loop (fuel bounds the number of cycles) -/
def simLoop {σ : Type} (fx : Bool) (β : Beh σ) (n : Nat) (endT : Time) :
    Nat → G → σ → List Time → RunRes σ
  | 0, g, u, ts => { g := g, st := u, times := ts, ok := true }
  | fuel + 1, g, u, ts =>
    match nextCycle g endT with
    | none => { g := g, st := u, times := ts, ok := true }
    | some t =>
      let r := cycle fx β n t g u
      if r.ok then simLoop fx β n endT fuel r.g r.st (ts ++ [t])
      else { g := r.g, st := r.st, times := ts ++ [t], ok := false }

end HgVerif.Sched
