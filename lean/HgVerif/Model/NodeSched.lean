/-
Model of `include/hgraph/runtime/node_scheduler.h` (NodeSchedulerState + NodeScheduler view)
and of the post-evaluation rule in `src/hgraph/runtime/node.cpp evaluate_impl` together with
the graph slot rule of `graph.cpp schedule_node_impl` restricted to one node.

Times are microsecond counts (`MIN_DT = 0`).  Tags are naturals, `0` is the untagged event
(the empty string in the code); the driver maps "a","b","c" to 1,2,3, which preserves the
`std::set<pair<DateTime,string>>` order.
Core Lean only (no Mathlib) so the driver can run it.
-/
namespace HgVerif.NodeSched

/-- times are microsecond counts; a notation (not a definition) so that `omega` sees `Nat` -/
scoped notation "Time" => Nat
abbrev Tag := Nat
abbrev Ev := Time × Tag

/-- lexicographic `<` of `std::pair<DateTime,std::string>` -/
def evLt (a b : Ev) : Bool := a.1 < b.1 || (a.1 == b.1 && a.2 < b.2)

/-- `std::set::insert` -/
def insertEv (e : Ev) : List Ev → List Ev
  | [] => [e]
  | x :: xs => if evLt e x then e :: x :: xs else if e = x then x :: xs else x :: insertEv e xs

/-- `std::set::erase(key)` -/
def eraseEv (e : Ev) (l : List Ev) : List Ev := l.filter (fun x => x != e)

/-- `std::map<string,DateTime>::find` -/
def tagFind : List (Tag × Time) → Tag → Option Time
  | [], _ => none
  | (k, v) :: rest, t => if k = t then some v else tagFind rest t

def tagErase (t : Tag) : List (Tag × Time) → List (Tag × Time)
  | [] => []
  | (k, v) :: rest => if k = t then tagErase t rest else (k, v) :: tagErase t rest

/-- `tags[tag] = when` -/
def tagSet (tag : Tag) (w : Time) (tags : List (Tag × Time)) : List (Tag × Time) :=
  (tag, w) :: tagErase tag tags

structure NS where
  events : List Ev := []
  tags : List (Tag × Time) := []
deriving Repr, DecidableEq

def NS.empty : NS := {}

/-- `events.begin()->first`, `none` when empty -/
def firstTime (l : List Ev) : Option Time := l.head?.map (·.1)

/-! ### queries -/
def nextScheduledTime (s : NS) : Time := (firstTime s.events).getD 0   -- MIN_DT when empty
def isScheduled (s : NS) : Bool := !s.events.isEmpty
def isScheduledNow (s : NS) (now : Time) : Bool := firstTime s.events == some now
def hasTag (s : NS) (tag : Tag) : Bool := (tagFind s.tags tag).isSome
def tagTime (s : NS) (tag : Tag) (dflt : Time) : Time := (tagFind s.tags tag).getD dflt
def tagIsScheduledNow (s : NS) (tag : Tag) (now : Time) : Bool :=
  hasTag s tag && tagTime s tag 0 == now

/-! ### mutations.  The `Option Time` result is the `graph->schedule_node(node, t)` call made, if any. -/

/-- the admission guard of `schedule` (simulation: `on_wall_clock = false`) -/
def rejected (now : Time) (started : Bool) (w : Time) : Bool :=
  if started then decide (w ≤ now) else decide (w < now)

def schedule (s : NS) (now : Time) (started : Bool) (w : Time) (tag : Tag) : NS × Option Time :=
  if rejected now started w then (s, none) else
  let ev1 := if tag != 0 then
      (match tagFind s.tags tag with
       | some old => eraseEv (old, tag) s.events
       | none => s.events)
    else s.events
  let prevFirst := firstTime ev1
  let tags' := if tag != 0 then tagSet tag w s.tags else s.tags
  let ev2 := insertEv (w, tag) ev1
  let push := match firstTime ev2, prevFirst with
    | some n, none => some n
    | some n, some p => if n < p then some n else none
    | none, _ => none
  ({ events := ev2, tags := tags' }, push)

def unscheduleTag (s : NS) (tag : Tag) : NS :=
  match tagFind s.tags tag with
  | some t => { events := eraseEv (t, tag) s.events, tags := tagErase tag s.tags }
  | none => s

def unscheduleFirst (s : NS) : NS :=
  match s.events with
  | [] => s
  | e :: rest => { events := rest, tags := tagErase e.2 s.tags }

def popTag (s : NS) (tag : Tag) (dflt : Time) : NS × Time :=
  match tagFind s.tags tag with
  | some t => ({ events := eraseEv (t, tag) s.events, tags := tagErase tag s.tags }, t)
  | none => (s, dflt)

def reset (_ : NS) : NS := {}

/-- the `while (!events.empty() && begin()->first <= now)` loop of `advance` -/
def dropDue (now : Time) : List Ev → List (Tag × Time) → List Ev × List (Tag × Time)
  | [], tags => ([], tags)
  | e :: rest, tags =>
    if e.1 ≤ now then dropDue now rest (if e.2 != 0 then tagErase e.2 tags else tags)
    else (e :: rest, tags)

def advance (s : NS) (now : Time) : NS × Option Time :=
  let r := dropDue now s.events s.tags
  ({ events := r.1, tags := r.2 }, firstTime r.1)

/-! ### one node inside a graph: the slot rule and the post-evaluation rule -/

/-- `schedule_node_impl` restricted to the slot of one node (`cur` = graph evaluation time;
    callers guarantee `w ≥ cur`, the code throws otherwise) -/
def slotSchedule (slot cur w : Time) : Time :=
  if slot ≤ cur || w < slot then w else slot

inductive Op where
  | sched (w : Time) (tag : Tag)
  | schedDelta (d : Nat) (tag : Tag)
  | unschedTag (tag : Tag)
  | unschedFirst
  | popTag (tag : Tag)
  | reset
deriving Repr, DecidableEq

structure NodeSt where
  ns : NS := {}
  slot : Time := 0          -- the graph's schedule entry for this node (0 = MIN_DT = never)
deriving Repr, DecidableEq

def applyPush (slot cur : Time) : Option Time → Time
  | some w => slotSchedule slot cur w
  | none => slot

/-- one scheduler operation issued by user code in a cycle at time `now` -/
def stepOp (now : Time) (started : Bool) (st : NodeSt) : Op → NodeSt
  | .sched w tag =>
      let r := schedule st.ns now started w tag
      { ns := r.1, slot := applyPush st.slot now r.2 }
  | .schedDelta d tag =>
      let r := schedule st.ns now started (now + d) tag
      { ns := r.1, slot := applyPush st.slot now r.2 }
  | .unschedTag tag => { st with ns := unscheduleTag st.ns tag }
  | .unschedFirst => { st with ns := unscheduleFirst st.ns }
  | .popTag tag => { st with ns := (popTag st.ns tag 0).1 }
  | .reset => { st with ns := reset st.ns }

/-- the tail of `node.cpp evaluate_impl` (`if (has_scheduler) { … }`) -/
def postEval (scheduledNow : Bool) (now : Time) (st1 : NodeSt) : NodeSt :=
  if scheduledNow then
    let r := advance st1.ns now
    { ns := r.1, slot := applyPush st1.slot now r.2 }
  else if isScheduled st1.ns then
    { ns := st1.ns, slot := slotSchedule st1.slot now (nextScheduledTime st1.ns) }
  else st1

/-- `node.cpp evaluate_impl` for a node with a scheduler, evaluated at `now`
    (the graph evaluates a node only when its slot equals the cycle time). -/
def evalNode (now : Time) (ops : List Op) (st : NodeSt) : NodeSt :=
  postEval (isScheduledNow st.ns now) now (ops.foldl (stepOp now true) { ns := st.ns, slot := now })

/-- the node's `start` at `now` (view constructed with `started = false`) -/
def startNode (now : Time) (ops : List Op) (st : NodeSt) : NodeSt :=
  ops.foldl (stepOp now false) st

end HgVerif.NodeSched
