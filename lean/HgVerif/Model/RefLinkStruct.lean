import HgVerif.Model.RefLinkChain
/-
C13 — STRUCTURED targets: a reference to the WHOLE output of a node whose schema is a bundle of scalar
fields (`TSB{x,y[,z]}`) or a fixed-size list (`TSL<TS<Int>,2>`), read by a consumer as a bundle.

The from-REF dereference of such a reference is a NON-PEERED endpoint: one `TargetLink` per field
(`ts_output/alternative.cpp`, `FromRefEndpointPlan::children`).  Applying a reference to it
(`apply_output_to_from_ref_non_peered`, and `apply_non_peered_reference_to_non_peered_from_ref_data` for a
bundle assembled at wiring time with `to_tsb`) is a loop over ALL fields:

```
for (index = 0; index < plan.children.size(); ++index)
    apply_output_to_from_ref_data(plan.children[index], child(target, index), child(output, index), modified_time);
```

and each step is the scalar `bind_target_link_at` of the flat model (`retargetOne`, shape `.ts`): same-target
de-duplication, else unsubscribe / subscribe, and record the link as modified (schedule the consumer) iff the
new field has a current value.  A field of the new target that has never ticked is re-pointed all the same -
that is what delivers its later first tick and what stops the old target's field from reaching the consumer
(seeded defect s59 skips exactly these fields).

So nothing new is modelled: the state is the flat `State` with shape `.ts` in which
  * flat target `t * nF + f` is field `f` of target `t`,
  * flat link   `c * nF + f` is the link of field `f` of consumer `c`   (`State.nC` = number of field links),
`tickTarget` / `retargetOne` / `view` are those of `Model/RefLink.lean`, and the only new definitions are the
re-bind loop `selectS` (link `l` goes to field `l % nF` of the new target) and the consumer-level reading:
a bundle input is valid when some field is, modified when some field link is, and the node is evaluated when
one of its field links was scheduled (gated by bundle validity unless `InputValidity::Unchecked`).
`State.resample` / `Cfg.startSched` hold field-link ids (all field links of the consumer concerned).
-/
namespace HgVerif.RefLink

/-- the field of the new target that field link `l` is re-pointed to -/
def fieldOf (nF i l : Nat) : Nat := i * nF + l % nF

/-- the re-bind loop over every field link of every consumer (`apply_output_to_from_ref_non_peered`) -/
def retargetMap (s : State) (g : Nat → Nat) (ls : List Nat) : State := ls.foldl (fun st l => retargetOne st l (g l)) s

/-- the selection operator publishing a reference to structured target `i` -/
def selectS (nF : Nat) (s : State) (sel : Option Nat) : State :=
  match sel with
  | none => s
  | some i =>
    if s.ref = some i then s    -- same-reference de-duplication: no tick
    else
      retargetMap { s with ref := some i, refLmt := s.now, sched := s.sched ++ s.resample } (fieldOf nF i)
        (List.range s.nC)

/-- what a bundle consumer reads -/
structure SView where
  valid : Bool := false
  modified : Bool := false
  fields : List View := []

def viewS (nF : Nat) (s : State) (c : Nat) : SView :=
  let fs := (List.range nF).map fun f => view s (c * nF + f)
  { valid := fs.any (·.valid), modified := fs.any (·.modified), fields := fs }

/-- consumer `c` has a scheduled field link -/
def schedS (nF : Nat) (s : State) (c : Nat) : Bool := (List.range nF).any fun f => s.sched.contains (c * nF + f)

/-- the consumers whose user code runs in this cycle (`nCons` bundle consumers) -/
def evaluatedS (nF nCons : Nat) (s : State) : List Nat :=
  (List.range nCons).filter fun c => schedS nF s c && (!(s.links (c * nF)).checked || (viewS nF s c).valid)

/-- state after the producers and the selection operator ran -/
def cycleMidS (nF : Nat) (s : State) (inp : CycleIn) : State :=
  selectS nF (tickAll { s with now := s.now + 1 } inp.ticks (List.range s.nT)) inp.sel

/-- one engine cycle; `inp.ticks` is indexed by flat target (field) -/
def cycleS (nF nCons : Nat) (s : State) (inp : CycleIn) : State × List (Nat × SView) :=
  let m := cycleMidS nF s inp
  ({ m with sched := [] }, (evaluatedS nF nCons m).map fun c => (c, viewS nF m c))

/-- `nCons` bundle consumers over `nTg` structured targets of `nF` fields -/
def initS (nF nCons nTg : Nat) (checked : Nat → Bool) (startSched resample : List Nat) : State :=
  init { shape := .ts, nC := nCons * nF, nT := nTg * nF, checked := fun l => checked (l / nF),
         startSched := startSched, resample := resample }

/-- a selection tree above a structured dereference (same composition as `cycleC`) -/
def cycleCS (nF nCons : Nat) (x : CSys) (inp : CIn) : CSys × List (Nat × SView) :=
  let r := stepChain inp.conds x.chain
  let c := cycleS nF nCons x.s { sel := rootSel r, ticks := inp.ticks }
  ({ chain := r.1, s := c.1 }, c.2)

end HgVerif.RefLink
