/-
The table of IMPLICITLY captured outer ports of a sub-graph compile (C09, captured boundary ports).

`src/hgraph/types/graph_wiring.cpp`, `OuterCaptureCollector`: a peered source whose producer is not part of the
sub-graph's wiring (an outer `Port` referenced inside the compose body) becomes a fresh boundary argument appended
after the declared inputs.  `index_for(outer)` is a LINEAR SCAN of `captured` with `WiringPortRef::same_source_as`
(schema, producing node, output path and output kind must all agree), appending the port when it is not there yet.
`Wiring::finish_subgraph` resolves every foreign edge twice: `collect_outer_captures` (fills the table, in node /
input order), then the table is frozen and `emit_edges` asks `index_for` again to emit the child input binding
`source_path = {base_index + index}`; the nested node's input `base_index + index` is wired to `captured[index]`.
The explicit path `Wiring::capture_outer_source` (context::get) keeps its table with the same scan.  Core Lean only.
-/
namespace HgVerif.Capture

/-- the identity of a peered wiring source (`WiringPortRef::PeeredSource` + the stamped schema) -/
structure PortId where
  node : Nat            -- the producing WiringInstance
  path : List Nat       -- output path: TSB field / TSL element / key-set projection
  kind : Nat            -- GraphEdgeSourceKind: 0 Output, 1 ErrorOutput, 2 RecordableState
  schema : Nat          -- interned schema of the addressed output
deriving DecidableEq, Repr

/-- `WiringPortRef::same_source_as` on two peered sources -/
def sameSource (a b : PortId) : Bool :=
  if a.schema != b.schema then false else a.node == b.node && a.path == b.path && a.kind == b.kind

/-- the scan of `index_for` -/
def find : List PortId → PortId → Option Nat
  | [], _ => none
  | q :: r, p => if sameSource q p then some 0 else (find r p).map (· + 1)

/-- `OuterCaptureCollector::index_for` before the table is frozen: (slot, table) -/
def indexFor (tbl : List PortId) (p : PortId) : Nat × List PortId :=
  match find tbl p with
  | some i => (i, tbl)
  | none => (tbl.length, tbl ++ [p])

/-- `index_for` on the frozen table: a port that is not there is an error (`none`) -/
def indexForFrozen (tbl : List PortId) (p : PortId) : Option Nat := find tbl p

/-- `collect_outer_captures` over the foreign references of the child graph, in wiring order -/
def collect (refs : List PortId) : List PortId := refs.foldl (fun t p => (indexFor t p).2) []

/-- the boundary slot `emit_edges` gives the child input that references `p` -/
def slotOf (refs : List PortId) (p : PortId) : Option Nat := indexForFrozen (collect refs) p

/-- the outer output the child input that references `p` is finally bound to: the nested node's input of that slot
    is wired to `captured[slot]` -/
def boundTo (refs : List PortId) (p : PortId) : Option PortId :=
  match slotOf refs p with
  | some i => (collect refs)[i]?
  | none => none

/-- through several levels of nesting: what level `k` hands down as captured port is a foreign reference of the
    level above it -/
def boundThrough : List (List PortId) → PortId → Option PortId
  | [], p => some p
  | refs :: outer, p =>
    match boundTo refs p with
    | some q => boundThrough outer q
    | none => none

/-! ### the seeded variant: a lookup keyed on the producing NODE only, consulted before the scan -/

def findNode : List PortId → PortId → Option Nat
  | [], _ => none
  | q :: r, p => if q.node == p.node then some 0 else (findNode r p).map (· + 1)

def indexForNodeKeyed (tbl : List PortId) (p : PortId) : Nat × List PortId :=
  match findNode tbl p with
  | some i => (i, tbl)
  | none => indexFor tbl p

def collectNodeKeyed (refs : List PortId) : List PortId := refs.foldl (fun t p => (indexForNodeKeyed t p).2) []

def boundToNodeKeyed (refs : List PortId) (p : PortId) : Option PortId :=
  match findNode (collectNodeKeyed refs) p with
  | some i => (collectNodeKeyed refs)[i]?
  | none => none

end HgVerif.Capture
