/-
Model of the feedback pair of `src/hgraph/runtime/feedback_node.cpp` for **structured** (delta-valued)
time series: `TS`, `TSB` (also nested, flattened), `TSL`, `TSS`, `TSD`.  Generalises `Model/Feedback.lean`.
Core Lean only.

What the code does (and the model repeats):

* `evaluate_feedback_sink` (evaluated when its `ts` input ticked): stores the producer's **delta of this
  cycle** as the paired source's node state (`try_copy_feedback_state(state, ts.delta_value())`, else
  `replace_state(capture_delta(ts))` – both leave "state = this cycle's delta") and calls
  `graph->schedule_node(source, evaluation_time + MIN_TD)`.
* `schedule_node_impl` (graph.cpp): one schedule slot per node, `MIN_DT` (= 0) when idle;
  `if (scheduled <= current || when < scheduled) scheduled = when`.
* the evaluation loop runs a node iff `scheduled == evaluation_time` and resets the slot to `MIN_DT`.
* `evaluate_feedback_source`: `apply_delta(output, state)`.  The state is **not cleared**: only the schedule
  slot decides whether it is emitted (again).
* `start_feedback_source_with_initial_delta`: state := the declared initial delta, `schedule_node(source,
  start_time)`.
* `apply_delta` (ts_delta.cpp) is gated by `delta_has_effect_*`, then per kind:
  - `TS` / `TSB` / `TSL`: every position carried by the delta is set and ticks (equal values tick too);
  - `TSS`: `removed` are removed, then `added` are added, then `touch()`: the output ticks even if nothing
    changed (an element that is already a member is *not* reported as added); an empty delta only has an
    effect on a not-yet-valid output (it validates it);
  - `TSD`: `removed` keys are erased leniently, `modified` keys are set and tick, then `touch()`; a delta
    with no `modified` entry has an effect only if one of its `removed` keys is present, or – completely
    empty – if the output is not yet valid.

Positions (`Pos`): `TS` 0; `TSB` field index (nested bundles flattened); `TSL` element index; `TSS` element;
`TSD` key.  Values are integers (a `TSS` member carries 0).
-/
namespace HgVerif.FeedbackShape

abbrev Pos := Nat

/-- one tick: a finite map position ↦ value (`mods`) plus removed positions (`rems`, `TSS`/`TSD` only) -/
structure Delta where
  mods : List (Pos × Int) := []
  rems : List Pos := []
deriving Repr, DecidableEq

/-- `fix`: fixed positions, no removal (`TS`, `TSB`, `TSL`); `set`: `TSS`; `dict`: `TSD` -/
inductive Kind where
  | fix | set | dict
deriving Repr, DecidableEq

/-! ## finite maps as key-sorted association lists -/

def getKey (p : Pos) : List (Pos × Int) → Option Int
  | [] => none
  | (q, w) :: r => if p = q then some w else getKey p r

def setKey (p : Pos) (v : Int) : List (Pos × Int) → List (Pos × Int)
  | [] => [(p, v)]
  | (q, w) :: r => if p < q then (p, v) :: (q, w) :: r else if p = q then (p, v) :: r else (q, w) :: setKey p v r

def eraseKey (p : Pos) (m : List (Pos × Int)) : List (Pos × Int) := m.filter (fun e => e.1 != p)

def hasKey (p : Pos) (m : List (Pos × Int)) : Bool := m.any (fun e => e.1 == p)

/-- the value of a time-series output: validity + the valid positions -/
structure Val where
  valid : Bool := false
  items : List (Pos × Int) := []
deriving Repr, DecidableEq

/-! ## `apply_delta` -/

/-- `delta_has_effect_*` -/
def hasEffect (k : Kind) (v : Val) (d : Delta) : Bool :=
  match k with
  | .fix => !d.mods.isEmpty
  | .set => !d.mods.isEmpty || !d.rems.isEmpty || !v.valid
  | .dict =>
    if !d.mods.isEmpty then true
    else if !d.rems.isEmpty then d.rems.any (fun p => hasKey p v.items)
    else !v.valid

/-- the mutation itself: new value and the delta the output then reports for this cycle -/
def applyCore (k : Kind) (v : Val) (d : Delta) : Val × Delta :=
  match k with
  | .fix =>
    ({ valid := true, items := d.mods.foldl (fun m e => setKey e.1 e.2 m) v.items },
     { mods := d.mods, rems := [] })
  | .set =>
    let remd := d.rems.filter (fun p => hasKey p v.items)
    let m1 := d.rems.foldl (fun m p => eraseKey p m) v.items
    let addd := d.mods.filter (fun e => !hasKey e.1 m1)
    ({ valid := true, items := addd.foldl (fun m e => setKey e.1 0 m) m1 },
     { mods := addd.map (fun e => (e.1, 0)), rems := remd })
  | .dict =>
    let remd := d.rems.filter (fun p => hasKey p v.items)
    let m1 := d.rems.foldl (fun m p => eraseKey p m) v.items
    ({ valid := true, items := d.mods.foldl (fun m e => setKey e.1 e.2 m) m1 },
     { mods := d.mods, rems := remd })

/-- `apply_delta(out, d)`: new value, and what a reader of the output observes in this cycle
    (`none`: the output did not tick) -/
def applyDelta (k : Kind) (v : Val) (d : Delta) : Val × Option Delta :=
  if hasEffect k v d then ((applyCore k v d).1, some (applyCore k v d).2) else (v, none)

/-- the value alone -/
def applyVal (k : Kind) (v : Val) (d : Delta) : Val := (applyDelta k v d).1

/-- a producer node that mutates its own output with the operations `ops` (`Out<S>::set/add/remove/erase`):
    the output always ticks; its delta reports the changes that took effect -/
def producerStep (k : Kind) (v : Val) (ops : Delta) : Val × Delta := applyCore k v ops

/-! ## the feedback pair -/

structure FB where
  state : Option Delta := none     -- node state of the source: the captured delta (never cleared)
  sched : Nat := 0                 -- schedule slot of the source node (0 = MIN_DT = idle)
deriving Repr, DecidableEq

/-- `schedule_node_impl` with `current` = the evaluation time -/
def scheduleNode (current when_ scheduled : Nat) : Nat :=
  if scheduled ≤ current ∨ when_ < scheduled then when_ else scheduled

/-- feedback source with a declared initial delta, after `start` -/
def initFB (start : Nat) (d0 : Delta) : FB := { state := some d0, sched := start }

/-- the source is evaluated in the cycle at `t` -/
def sourceDue (t : Nat) (s : FB) : Bool := s.sched == t

/-- the source's turn in the cycle at `t`: the delta it hands to `apply_delta`, if it is evaluated -/
def sourceStep (t : Nat) (s : FB) : FB × Option Delta :=
  if s.sched = t then ({ s with sched := 0 }, s.state) else (s, none)

/-- the sink's turn in the cycle at `t`; `w` = the producer's delta of this cycle if the producer ticked -/
def sinkStep (t : Nat) (w : Option Delta) (s : FB) : FB :=
  match w with
  | some d => { state := some d, sched := scheduleNode t (t + 1) s.sched }
  | none => s

/-- one engine cycle: source first (it ranks before its readers and before the sink), sink last -/
def cycle (t : Nat) (w : Option Delta) (s : FB) : FB × Option Delta :=
  let r := sourceStep t s
  (sinkStep t w r.1, r.2)

/-- run over a list of engine cycles `(time, producer delta)`: the deltas the source delivers, with times -/
def run : FB → List (Nat × Option Delta) → List (Nat × Delta)
  | _, [] => []
  | s, (t, w) :: rest =>
    let r := cycle t w s
    match r.2 with
    | some d => (t, d) :: run r.1 rest
    | none => run r.1 rest

/-- the state after the run -/
def finalFB : FB → List (Nat × Option Delta) → FB
  | s, [] => s
  | s, (t, w) :: rest => finalFB (cycle t w s).1 rest

/-- what a reader of the source's output sees: per delivery the observed delta (if the output ticks) and
    the output value afterwards -/
def reader (k : Kind) : Val → List (Nat × Delta) → List (Nat × Option Delta × Val)
  | _, [] => []
  | v, (t, d) :: rest =>
    let r := applyDelta k v d
    (t, r.2, r.1) :: reader k r.1 rest

/-- the reader's ticks only -/
def observed (k : Kind) (v : Val) (ds : List (Nat × Delta)) : List (Nat × Delta) :=
  (reader k v ds).filterMap (fun e => e.2.1.map (fun d => (e.1, d)))

/-- the output value after all deliveries -/
def finalVal (k : Kind) (v : Val) (ds : List (Nat × Delta)) : Val :=
  ds.foldl (fun v e => applyVal k v e.2) v

/-! ## specification side -/

/-- cycle lists the engine can produce: positive strictly increasing times, and a producer tick at `t` is
    followed by a cycle at exactly `t + 1` (the sink's schedule request is honoured – C02) unless the run
    ends (end time) -/
def WF : List (Nat × Option Delta) → Prop
  | [] => True
  | [(t, _)] => 0 < t
  | (t, w) :: (t', w') :: rest => 0 < t ∧ t < t' ∧ (w.isSome → t' = t + 1) ∧ WF ((t', w') :: rest)

/-- the specification: every written delta, one smallest step later (a write in the last cycle of the run
    has no delivery cycle) -/
def shifted : List (Nat × Option Delta) → List (Nat × Delta)
  | [] => []
  | [_] => []
  | (t, w) :: (t', w') :: rest =>
    match w with
    | some d => (t + 1, d) :: shifted ((t', w') :: rest)
    | none => shifted ((t', w') :: rest)

/-- position `p` ticks with value `x` at time `τ` in a stream of deltas -/
def TickAt (evs : List (Nat × Delta)) (τ : Nat) (p : Pos) (x : Int) : Prop :=
  ∃ d, (τ, d) ∈ evs ∧ (p, x) ∈ d.mods

/-- position `p` is reported removed at time `τ` -/
def RemovedAt (evs : List (Nat × Delta)) (τ : Nat) (p : Pos) : Prop :=
  ∃ d, (τ, d) ∈ evs ∧ p ∈ d.rems

/-- `p = x` was written (the producer's delta carried it) in the cycle at `t`, and the run has a next cycle -/
def WrittenAt (cs : List (Nat × Option Delta)) (t : Nat) (p : Pos) (x : Int) : Prop :=
  ∃ d w', (t, some d) ∈ cs ∧ (t + 1, w') ∈ cs ∧ (p, x) ∈ d.mods

/-- a delta a `TS`/`TSB`/`TSL` producer can expose: at least one position, no removals -/
def RecDelta (d : Delta) : Prop := d.mods ≠ [] ∧ d.rems = []

/-- every written delta is a real change of the value accumulated so far (what a producer *output*
    reports: `TS`/`TSB`/`TSL` always; `TSS`/`TSD` deltas list only effective adds / removals) -/
def Coherent (k : Kind) : Val → List (Nat × Delta) → Prop
  | _, [] => True
  | v, (_, d) :: rest => applyDelta k v d = (applyVal k v d, some d) ∧ Coherent k (applyVal k v d) rest

end HgVerif.FeedbackShape
