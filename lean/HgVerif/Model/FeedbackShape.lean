/-
Model of the feedback pair of `src/hgraph/runtime/feedback_node.cpp` for **structured** (delta-valued)
time series: `TS`, `TSB` (also nested, flattened), `TSL`, `TSS`, `TSD`.  Generalises `Model/Feedback.lean`.
Core Lean only.

What the code does (and the model repeats):

* `evaluate_feedback_sink` (evaluated when its `ts` input ticked): stores the producer's **delta of this
  cycle** as the paired source's node state (`try_copy_feedback_state(state, ts.delta_value())`, else
  `replace_state(capture_delta(ts))` – both leave "state = this cycle's delta") and calls
  `graph->schedule_node(source, evaluation_time + MIN_TD)`.
* `schedule_node_impl` (graph.cpp): one schedule slot per node, `MIN_DT` (= 0) when idle;
  `if (scheduled <= current || when < scheduled) scheduled = when`.
* the evaluation loop runs a node iff `scheduled == evaluation_time` and resets the slot to `MIN_DT`.
* `evaluate_feedback_source`: `apply_delta(output, state)`.  The state is **not cleared**: only the schedule
  slot decides whether it is emitted (again).
* `start_feedback_source_with_initial_delta` (the start hook; only a source built WITH a declared initial delta
  has one): state := the declared initial delta, `schedule_node(source, start_time)` – unconditionally, the hook
  does not look at the delta.  What the delta does is decided in the start cycle by `evaluate_feedback_source`,
  i.e. by `apply_delta` on the FRESH output (not valid, empty) – see "start" below.
* `apply_delta` (ts_delta.cpp) is gated by `delta_has_effect_*`, then per kind:
  - `TS` / `TSB` / `TSL`: every position carried by the delta is set and ticks (equal values tick too);
  - `TSS`: `removed` are removed, then `added` are added, then `touch()`: the output ticks even if nothing
    changed (an element that is already a member is *not* reported as added); an empty delta only has an
    effect on a not-yet-valid output (it validates it);
  - `TSD`: `removed` keys are erased leniently, `modified` keys are set and tick, then `touch()`; a delta
    with no `modified` entry has an effect only if one of its `removed` keys is present, or – completely
    empty – if the output is not yet valid.

Positions (`Pos`): `TS` 0; `TSB` field index (nested bundles flattened); `TSL` element index; `TSS` element;
`TSD` key.  Values are integers (a `TSS` member carries 0).
-/
namespace HgVerif.FeedbackShape

abbrev Pos := Nat

/-- one tick: a finite map position ↦ value (`mods`) plus removed positions (`rems`, `TSS`/`TSD` only) -/
structure Delta where
  mods : List (Pos × Int) := []
  rems : List Pos := []
deriving Repr, DecidableEq

/-- `fix`: fixed positions, no removal (`TS`, `TSB`, `TSL`); `set`: `TSS`; `dict`: `TSD` -/
inductive Kind where
  | fix | set | dict
deriving Repr, DecidableEq

/-! ## finite maps as key-sorted association lists -/

def getKey (p : Pos) : List (Pos × Int) → Option Int
  | [] => none
  | (q, w) :: r => if p = q then some w else getKey p r

def setKey (p : Pos) (v : Int) : List (Pos × Int) → List (Pos × Int)
  | [] => [(p, v)]
  | (q, w) :: r => if p < q then (p, v) :: (q, w) :: r else if p = q then (p, v) :: r else (q, w) :: setKey p v r

def eraseKey (p : Pos) (m : List (Pos × Int)) : List (Pos × Int) := m.filter (fun e => e.1 != p)

def hasKey (p : Pos) (m : List (Pos × Int)) : Bool := m.any (fun e => e.1 == p)

/-- the value of a time-series output: validity + the valid positions -/
structure Val where
  valid : Bool := false
  items : List (Pos × Int) := []
deriving Repr, DecidableEq

/-! ## `apply_delta` -/

/-- `delta_has_effect_*` -/
def hasEffect (k : Kind) (v : Val) (d : Delta) : Bool :=
  match k with
  | .fix => !d.mods.isEmpty
  | .set => !d.mods.isEmpty || !d.rems.isEmpty || !v.valid
  | .dict =>
    if !d.mods.isEmpty then true
    else if !d.rems.isEmpty then d.rems.any (fun p => hasKey p v.items)
    else !v.valid

/-- the mutation itself: new value and the delta the output then reports for this cycle -/
def applyCore (k : Kind) (v : Val) (d : Delta) : Val × Delta :=
  match k with
  | .fix =>
    ({ valid := true, items := d.mods.foldl (fun m e => setKey e.1 e.2 m) v.items },
     { mods := d.mods, rems := [] })
  | .set =>
    let remd := d.rems.filter (fun p => hasKey p v.items)
    let m1 := d.rems.foldl (fun m p => eraseKey p m) v.items
    let addd := d.mods.filter (fun e => !hasKey e.1 m1)
    ({ valid := true, items := addd.foldl (fun m e => setKey e.1 0 m) m1 },
     { mods := addd.map (fun e => (e.1, 0)), rems := remd })
  | .dict =>
    let remd := d.rems.filter (fun p => hasKey p v.items)
    let m1 := d.rems.foldl (fun m p => eraseKey p m) v.items
    ({ valid := true, items := d.mods.foldl (fun m e => setKey e.1 e.2 m) m1 },
     { mods := d.mods, rems := remd })

/-- `apply_delta(out, d)`: new value, and what a reader of the output observes in this cycle
    (`none`: the output did not tick) -/
def applyDelta (k : Kind) (v : Val) (d : Delta) : Val × Option Delta :=
  if hasEffect k v d then ((applyCore k v d).1, some (applyCore k v d).2) else (v, none)

/-- the value alone -/
def applyVal (k : Kind) (v : Val) (d : Delta) : Val := (applyDelta k v d).1

/-- a producer node that mutates its own output with the operations `ops` (`Out<S>::set/add/remove/erase`):
    the output always ticks; its delta reports the changes that took effect -/
def producerStep (k : Kind) (v : Val) (ops : Delta) : Val × Delta := applyCore k v ops

/-! ## the feedback pair

The pair never looks into the delta it carries (`try_copy_feedback_state` / `capture_delta` / `apply_delta` are
the shape-specific parts), so it is modelled for an arbitrary payload type `δ`; `δ = Delta` for the flat shapes,
`δ = BDelta` for a bundle with a collection field (below). -/

structure FB (δ : Type) where
  state : Option δ := none         -- node state of the source: the captured delta (never cleared)
  sched : Nat := 0                 -- schedule slot of the source node (0 = MIN_DT = idle)
deriving Repr, DecidableEq

variable {δ : Type}

/-- `schedule_node_impl` with `current` = the evaluation time -/
def scheduleNode (current when_ scheduled : Nat) : Nat :=
  if scheduled ≤ current ∨ when_ < scheduled then when_ else scheduled

/-- feedback source with a declared initial delta, after `start` -/
def initFB (start : Nat) (d0 : δ) : FB δ := { state := some d0, sched := start }

/-- the source after `start`: `make_feedback_source_node(schema, has_initial_delta)` installs the start hook only
    when an initial delta was declared; without one the source starts idle -/
def startFB (start : Nat) (init : Option δ) : FB δ :=
  match init with
  | some d0 => initFB start d0
  | none => {}

/-- the source is evaluated in the cycle at `t` -/
def sourceDue (t : Nat) (s : FB δ) : Bool := s.sched == t

/-- the source's turn in the cycle at `t`: the delta it hands to `apply_delta`, if it is evaluated -/
def sourceStep (t : Nat) (s : FB δ) : FB δ × Option δ :=
  if s.sched = t then ({ s with sched := 0 }, s.state) else (s, none)

/-- the sink's turn in the cycle at `t`; `w` = the producer's delta of this cycle if the producer ticked -/
def sinkStep (t : Nat) (w : Option δ) (s : FB δ) : FB δ :=
  match w with
  | some d => { state := some d, sched := scheduleNode t (t + 1) s.sched }
  | none => s

/-- one engine cycle: source first (it ranks before its readers and before the sink), sink last -/
def cycle (t : Nat) (w : Option δ) (s : FB δ) : FB δ × Option δ :=
  let r := sourceStep t s
  (sinkStep t w r.1, r.2)

/-- run over a list of engine cycles `(time, producer delta)`: the deltas the source delivers, with times -/
def run : FB δ → List (Nat × Option δ) → List (Nat × δ)
  | _, [] => []
  | s, (t, w) :: rest =>
    let r := cycle t w s
    match r.2 with
    | some d => (t, d) :: run r.1 rest
    | none => run r.1 rest

/-- the state after the run -/
def finalFB : FB δ → List (Nat × Option δ) → FB δ
  | s, [] => s
  | s, (t, w) :: rest => finalFB (cycle t w s).1 rest

/-- what a reader of the source's output sees: per delivery the observed delta (if the output ticks) and
    the output value afterwards -/
def reader (k : Kind) : Val → List (Nat × Delta) → List (Nat × Option Delta × Val)
  | _, [] => []
  | v, (t, d) :: rest =>
    let r := applyDelta k v d
    (t, r.2, r.1) :: reader k r.1 rest

/-- the reader's ticks only -/
def observed (k : Kind) (v : Val) (ds : List (Nat × Delta)) : List (Nat × Delta) :=
  (reader k v ds).filterMap (fun e => e.2.1.map (fun d => (e.1, d)))

/-- the output value after all deliveries -/
def finalVal (k : Kind) (v : Val) (ds : List (Nat × Delta)) : Val :=
  ds.foldl (fun v e => applyVal k v e.2) v

/-- the same for any output type `σ`, payload `δ` and observation `ο`, given the shape's `apply_delta`
    (`reader k = readerG (applyDelta k)`) -/
def readerG {σ ο : Type} (ap : σ → δ → σ × Option ο) : σ → List (Nat × δ) → List (Nat × Option ο × σ)
  | _, [] => []
  | v, (t, d) :: rest => (t, (ap v d).2, (ap v d).1) :: readerG ap (ap v d).1 rest

def observedG {σ ο : Type} (ap : σ → δ → σ × Option ο) (v : σ) (ds : List (Nat × δ)) : List (Nat × ο) :=
  (readerG ap v ds).filterMap (fun e => e.2.1.map (fun d => (e.1, d)))

/-! ## start: what a declared initial delta does

In the start cycle the source is due (`initFB`) and hands the declared delta to `apply_delta` on the FRESH output:

* `TS` / `TSB` / `TSL` (`fix`): the positions carried by the delta are set and tick; a delta that carries none
  (the canonical empty delta of a `TSL` / of a `TSB` of `TS` fields; a `TS` has none – a typed-null initial delta is
  rejected at wiring) has no effect: no tick, the output stays NOT valid – these shapes have no "empty but valid"
  state.
* `TSS` (`set`): ANY declared delta has an effect on the fresh output (`delta_has_effect_tss` ends in
  `!out.valid()`): the output ticks at the start time and is valid from then on; for the EMPTY delta
  `{added: {}, removed: {}}` it is the valid EMPTY set and the reader sees a tick with an empty delta.
* `TSD` (`dict`): the same, except for a delta with removals only: "lenient removals of absent keys are not an
  empty validating tick, even when the TSD is still fresh" – no tick, not valid.
* `TSB` with a collection field: see `applyDeltaB`. -/

/-- a fresh output: not valid, nothing in it -/
def fresh : Val := {}

/-- the shape has an "empty but valid" state (`TSS`, `TSD`) -/
def Kind.coll : Kind → Bool
  | .fix => false
  | .set => true
  | .dict => true

/-- the canonical empty delta of a schema (`empty_delta_tss` / `_tsd` / `_tsl`, `empty_delta_tsb` over `TS` fields) -/
def emptyDelta : Delta := {}

/-! ## a bundle with a collection field: `TSB{a : TS, s : TSS}`

* a bundle delta has one entry per field; an entry can be null (no value).  Authored deltas (`tsb_delta`, the
  declared initial delta) and `empty_delta_tsb` initialise every COLLECTION field with that field's canonical
  empty delta (`initialize_tsb_delta_defaults`), so `s` is never null there; the delta the sink copies from its
  input (`ts.delta_value()`) carries a field only if the field ticked in this cycle.  (`capture_delta_tsb`, the
  sink's fallback when the state cannot be copied into, would fill `s` with the empty delta; the two can differ
  only on an output whose `s` is not yet valid, i.e. only without a declared initial delta – every declared delta
  validates `s` – and there the correspondence shows the copy path: a write of `a` alone leaves `s` not valid.)
* `delta_has_effect_tsb`: some child's entry has an effect on that child; `apply_delta_tsb`: `apply_delta` per
  child, each behind its own gate.  So an empty bundle delta VALIDATES a fresh `s` (tick of `s` with an empty
  delta) although it carries nothing for `a`. -/

structure BDelta where
  a : Option Int := none       -- entry of `a` (null unless written / authored)
  s : Option Delta := none     -- entry of `s`: the child's set delta (`mods` = added, `rems` = removed); `none` = null
deriving Repr, DecidableEq

structure BVal where
  a : Val := {}                -- field `a` (kind `fix`, position 0)
  s : Val := {}                -- field `s` (kind `set`)
deriving Repr, DecidableEq

/-- what a reader of the bundle sees in a tick of the bundle: per field what the child reports (`none`: the
    field did not tick) -/
structure BObs where
  a : Option Delta := none
  s : Option Delta := none
deriving Repr, DecidableEq

/-- `empty_delta_tsb` for this schema = `tsb_delta(nullopt, nullopt)` -/
def emptyDeltaB : BDelta := { a := none, s := some {} }

/-- the entry of `a` as a delta of kind `fix` -/
def aDelta (d : BDelta) : Delta :=
  match d.a with
  | some x => { mods := [(0, x)] }
  | none => {}

def hasEffectB (v : BVal) (d : BDelta) : Bool :=
  hasEffect .fix v.a (aDelta d) ||
  (match d.s with
   | some ds => hasEffect .set v.s ds
   | none => false)

def applyDeltaB (v : BVal) (d : BDelta) : BVal × Option BObs :=
  if hasEffectB v d then
    let ra := applyDelta .fix v.a (aDelta d)
    let rs := match d.s with
      | some ds => applyDelta .set v.s ds
      | none => (v.s, none)
    ({ a := ra.1, s := rs.1 }, some { a := ra.2, s := rs.2 })
  else (v, none)

/-- a producer node writing `a` (`set`) and/or mutating `s` (`add` / `remove`; `ops.s = some _` iff it made at least
    one such call): its new output and the delta it exposes (= what the sink copies) -/
def producerStepB (v : BVal) (ops : BDelta) : BVal × BDelta :=
  let va := match ops.a with
    | some _ => (producerStep .fix v.a (aDelta ops)).1
    | none => v.a
  let rs := ops.s.map (producerStep .set v.s)
  ({ a := va, s := match rs with
                   | some r => r.1
                   | none => v.s },
   { a := ops.a, s := rs.map (·.2) })

/-! ## a self loop through a validity-gated body

`x` (an external `TS<Int>`) and the fed-back value `prev` (PASSIVE input) enter a body node whose output `acc`
goes to the feedback sink.  The body has the default validity gate of a compute node: it is evaluated when an
active input ticked (`x`) and ALL its inputs are valid – `x` is valid once it ticked, `prev` is valid iff the
feedback source's output is.  Without a valid `prev` the body never runs, so nothing is ever written to the
edge: the loop can only be started by a declared initial value. -/

/-- what the body writes to its output (`harness/drv_fbshape.cpp` `Body<S>`):
    `TS`: `prev + x`;  `TSS`: every member of `prev`, then `x`;  `TSD`: every item of `prev`, then `x % 3 ↦ x` -/
def bodyOps (k : Kind) (prev : Val) (x : Int) : Delta :=
  match k with
  | .fix => { mods := [(0, (getKey 0 prev.items).getD 0 + x)] }
  | .set => { mods := setKey x.toNat 0 prev.items }
  | .dict => { mods := setKey (x.toNat % 3) x prev.items }

structure Loop where
  fb : FB Delta := {}
  prev : Val := {}       -- the feedback source's output (the body's passive input)
  acc : Val := {}        -- the body's output
deriving Repr, DecidableEq

/-- the body's turn: `x` = the external input's value if it ticked in this cycle -/
def bodyStep (k : Kind) (prev acc : Val) (x : Option Int) : Val × Option Delta :=
  match x with
  | some xv => if prev.valid then ((producerStep k acc (bodyOps k prev xv)).1, some (producerStep k acc (bodyOps k prev xv)).2)
               else (acc, none)
  | none => (acc, none)

/-- one engine cycle of the loop: source (ranks first), body, sink.
    Result: new state, what a reader of the feedback port observes, the body's delta -/
def loopCycle (k : Kind) (t : Nat) (x : Option Int) (L : Loop) : Loop × Option Delta × Option Delta :=
  let r := sourceStep t L.fb
  let pr : Val × Option Delta := match r.2 with
    | some d => applyDelta k L.prev d
    | none => (L.prev, none)
  let b := bodyStep k pr.1 L.acc x
  ({ fb := sinkStep t b.2 r.1, prev := pr.1, acc := b.1 }, pr.2, b.2)

/-- the body's output stream over a list of engine cycles `(time, x)` -/
def loopRun (k : Kind) : Loop → List (Nat × Option Int) → List (Nat × Delta)
  | _, [] => []
  | L, (t, x) :: rest =>
    match (loopCycle k t x L).2.2 with
    | some w => (t, w) :: loopRun k (loopCycle k t x L).1 rest
    | none => loopRun k (loopCycle k t x L).1 rest

/-- the loop after `start` -/
def loopStart (start : Nat) (init : Option Delta) : Loop := { fb := startFB start init }

/-! ## specification side -/

/-- cycle lists the engine can produce: positive strictly increasing times, and a producer tick at `t` is
    followed by a cycle at exactly `t + 1` (the sink's schedule request is honoured – C02) unless the run
    ends (end time) -/
def WF : List (Nat × Option δ) → Prop
  | [] => True
  | [(t, _)] => 0 < t
  | (t, w) :: (t', w') :: rest => 0 < t ∧ t < t' ∧ (w.isSome → t' = t + 1) ∧ WF ((t', w') :: rest)

/-- the specification: every written delta, one smallest step later (a write in the last cycle of the run
    has no delivery cycle) -/
def shifted : List (Nat × Option δ) → List (Nat × δ)
  | [] => []
  | [_] => []
  | (t, w) :: (t', w') :: rest =>
    match w with
    | some d => (t + 1, d) :: shifted ((t', w') :: rest)
    | none => shifted ((t', w') :: rest)

/-- position `p` ticks with value `x` at time `τ` in a stream of deltas -/
def TickAt (evs : List (Nat × Delta)) (τ : Nat) (p : Pos) (x : Int) : Prop :=
  ∃ d, (τ, d) ∈ evs ∧ (p, x) ∈ d.mods

/-- position `p` is reported removed at time `τ` -/
def RemovedAt (evs : List (Nat × Delta)) (τ : Nat) (p : Pos) : Prop :=
  ∃ d, (τ, d) ∈ evs ∧ p ∈ d.rems

/-- `p = x` was written (the producer's delta carried it) in the cycle at `t`, and the run has a next cycle -/
def WrittenAt (cs : List (Nat × Option Delta)) (t : Nat) (p : Pos) (x : Int) : Prop :=
  ∃ d w', (t, some d) ∈ cs ∧ (t + 1, w') ∈ cs ∧ (p, x) ∈ d.mods

/-- a delta a `TS`/`TSB`/`TSL` producer can expose: at least one position, no removals -/
def RecDelta (d : Delta) : Prop := d.mods ≠ [] ∧ d.rems = []

/-- every written delta is a real change of the value accumulated so far (what a producer *output*
    reports: `TS`/`TSB`/`TSL` always; `TSS`/`TSD` deltas list only effective adds / removals) -/
def Coherent (k : Kind) : Val → List (Nat × Delta) → Prop
  | _, [] => True
  | v, (_, d) :: rest => applyDelta k v d = (applyVal k v d, some d) ∧ Coherent k (applyVal k v d) rest

end HgVerif.FeedbackShape
