/-
Model of the erased delta machinery of `/repo/src/hgraph/types/time_series/ts_delta.cpp`
(`capture_delta`, `apply_delta`, `delta_has_effect_*`, `delta_is_observable`) together with the
parts of the slot stores it drives (`ts_data_slot_ops.cpp`: net added/removed marks, pending-removed
slots revived by a re-insert, `value_published`), and of the in-memory `replay` / dense `record`
operators of `include/hgraph/lib/std/operators/impl/record_replay_memory_impl.h`.

Representation choices (core Lean only, everything computable):

* A `Shape` is a replayable time-series schema.  `tsb fs` is a bundle whose field list `fs` is a
  `bcons f₁ (bcons f₂ … bnil)` chain; `bnil`/`bcons` are *field-list* shapes, not schemas of their own.
  The `str` flags only tell the driver how to print scalars; the semantics ignores them.
* Scalars, set elements and dictionary keys are naturals.  A `TSS`/`TSD` lives over the finite key
  universe `{0 … u-1}` recorded in its shape; a set is its membership bit-vector and a dictionary is
  the vector of optional children indexed by key.  (`ankerl::unordered_dense` + `KeySlotStore` are
  order-free containers; per-key effects of `apply_delta_tsd` are independent, so iteration order is
  immaterial.)  With this representation deltas and states are canonical: equal content = equal term.
* A state carries the per-position marks of the *current* engine cycle (`mod`, set `added`/`removed`,
  dictionary `removed`), exactly what `modified()`, `added()`, `removed_keys()`, `modified_items()`
  read.  `clear` is the start of a new cycle.  `apply` ignores the stale marks of its input.
* Where the code is odd the model is odd the same way: `apply` is gated by `hasEffect` at *every*
  level (the public `apply_delta` is what recursion calls), `TSS`/`TSD` tick with an empty delta when
  a non-empty delta changes nothing, a key named in both `removed` and `modified` is revived with its
  old child, a key whose child never became valid exists but is invisible to `capture`, and a `TSB`
  capture fills every non-ticking collection field with its empty delta.
* `tsld e` is the DYNAMIC list `TSL<e>` (`fixed_size() == 0`, `ts_data_dynamic_list_ops.cpp`): its state is the
  vector of children that exist (`DynamicTSLStorage::elements_`, `size()` = its length, starts empty).
  `TSLOutputView::at(i)` with `i ≥ size()` calls `ensure_size(i+1)`: every index up to `i` gets a
  default-constructed (never ticked, invalid) child, nothing is marked modified.  `apply_delta_tsl` reaches every
  child the delta names through that growing `at(index)` *before* the child's gated `apply_delta`, so the list
  grows to the largest named index + 1 even if that child's delta has no effect; `capture_delta_tsl` names the
  modified *and valid* children by their own index.  The delta is a `Map<int, δ>`: it carries no length, so the
  positional list of a dynamic list's delta is kept without trailing `none`s (`trimNone`) and `apply` never looks
  at how long it is - only at the positions that hold an entry.
* `write` is what a node does through the RAW output API (`list.at(i)`, `set.add`, `dict.at(key)`, ...): the same
  mutations as `apply`, at no level gated by `delta_has_effect`.  It is the source of the raw-source streams of
  the C20 correspondence (`harness/replay_raw.h`), not part of `apply_delta`.
-/
namespace HgVerif.Delta

inductive Shape where
  | ts (str : Bool)
  | signal
  | tsw (str : Bool) (period : Nat)
  | tss (str : Bool) (u : Nat)
  | tsd (str : Bool) (u : Nat) (v : Shape)
  | tsl (e : Shape) (n : Nat)
  | tsld (e : Shape)
  | tsb (fields : Shape)
  | bnil
  | bcons (f : Shape) (rest : Shape)
deriving Repr, DecidableEq

/-- a leaf position: current value + "modified in this cycle" -/
structure Leaf (α : Type) where
  val : α
  mod : Bool
deriving Repr, DecidableEq

/-- `TSSSlotStorage`: validity, membership, and this cycle's net `added_` / `removed_` bitsets -/
structure SetSt where
  valid : Bool
  mod : Bool
  elems : List Bool
  added : List Bool
  removed : List Bool
deriving Repr, DecidableEq

/-- `TSDSlotStorage`: validity, the children by key, and this cycle's `removed_` bitset
    (`modified_items()` is read off the children's own `mod` marks) -/
structure DictSt (σ : Type) where
  valid : Bool
  mod : Bool
  slots : List (Option σ)
  removed : List Bool
deriving Repr, DecidableEq

/-- states, by recursion on the schema -/
def St : Shape → Type
  | .ts _ => Leaf (Option Nat)
  | .signal => Leaf Bool
  | .tsw _ _ => Leaf (List Nat)
  | .tss _ _ => SetSt
  | .tsd _ _ v => DictSt (St v)
  | .tsl e _ => List (St e)
  | .tsld e => List (St e)                  -- the children that exist; `size()` = length
  | .tsb fs => St fs
  | .bnil => Unit
  | .bcons f r => St f × St r

/-- canonical `TSS` delta `Bundle{added, removed}` -/
structure SetDl where
  added : List Bool
  removed : List Bool
deriving Repr, DecidableEq

/-- what a canonical `TSD` delta `Bundle{removed: Set<K>, modified: Map<K, δ>}` says about one key -/
structure KeyOp (δ : Type) where
  removed : Bool
  modified : Option δ
deriving Repr, DecidableEq

/-- canonical delta values (`delta_value_schema`), by recursion on the schema -/
def Dl : Shape → Type
  | .ts _ => Nat
  | .signal => Unit
  | .tsw _ _ => Nat
  | .tss _ _ => SetDl
  | .tsd _ _ v => List (KeyOp (Dl v))
  | .tsl e _ => List (Option (Dl e))        -- `Map<int, δ>`: position `i` = entry for index `i`
  | .tsld e => List (Option (Dl e))         -- the same map; canonical form has no trailing `none`
  | .tsb fs => Dl fs
  | .bnil => Unit
  | .bcons f r => Option (Dl f) × Dl r      -- unset bundle field = `none`

def falses (n : Nat) : List Bool := List.replicate n false

/-- `TSValueTypeMetaData::is_collection()` -/
def isCollection : Shape → Bool
  | .tss _ _ | .tsd _ _ _ | .tsl _ _ | .tsld _ | .tsb _ => true
  | _ => false

/-- a never-ticked endpoint -/
def fresh : (s : Shape) → St s
  | .ts _ => { val := none, mod := false }
  | .signal => { val := false, mod := false }
  | .tsw _ _ => { val := [], mod := false }
  | .tss _ u => { valid := false, mod := false, elems := falses u, added := falses u, removed := falses u }
  | .tsd _ u _ => { valid := false, mod := false, slots := List.replicate u none, removed := falses u }
  | .tsl e n => List.replicate n (fresh e)
  | .tsld _ => []
  | .tsb fs => fresh fs
  | .bnil => ()
  | .bcons f r => (fresh f, fresh r)

/-- start of a new engine cycle: every per-cycle mark reads as empty -/
def clear : (s : Shape) → St s → St s
  | .ts _, st => { st with mod := false }
  | .signal, st => { st with mod := false }
  | .tsw _ _, st => { st with mod := false }
  | .tss _ _, st => { st with mod := false, added := falses st.added.length, removed := falses st.removed.length }
  | .tsd _ _ v, st => { st with mod := false, slots := st.slots.map (Option.map (clear v)),
                                removed := falses st.removed.length }
  | .tsl e _, st => st.map (clear e)
  | .tsld e, st => st.map (clear e)
  | .tsb fs, st => clear fs st
  | .bnil, _ => ()
  | .bcons f r, st => (clear f st.1, clear r st.2)

/-- `valid()`.  Fixed structures are valid once anything below them ticked (`last_modified_time != MIN_DT`);
    nothing in this model ever invalidates, so that is "some child is valid". -/
def valid : (s : Shape) → St s → Bool
  | .ts _, st => st.val.isSome
  | .signal, st => st.val
  | .tsw _ _, st => !st.val.isEmpty
  | .tss _ _, st => st.valid
  | .tsd _ _ _, st => st.valid
  | .tsl e _, st => st.any (valid e)
  | .tsld e, st => st.any (valid e)         -- `last_modified_time != MIN_DT`: some child ticked once
  | .tsb fs, st => valid fs st
  | .bnil, _ => false
  | .bcons f r, st => valid f st.1 || valid r st.2

/-- `modified()` in the current cycle -/
def modified : (s : Shape) → St s → Bool
  | .ts _, st => st.mod
  | .signal, st => st.mod
  | .tsw _ _, st => st.mod
  | .tss _ _, st => st.mod
  | .tsd _ _ _, st => st.mod
  | .tsl e _, st => st.any (modified e)
  | .tsld e, st => st.any (modified e)
  | .tsb fs, st => modified fs st
  | .bnil, _ => false
  | .bcons f r, st => modified f st.1 || modified r st.2

/-- `empty_delta_impl` (used by `initialize_tsb_delta_defaults`) -/
def emptyDelta : (s : Shape) → Dl s
  | .ts _ => (0 : Nat)
  | .signal => ()
  | .tsw _ _ => (0 : Nat)
  | .tss _ u => { added := falses u, removed := falses u }
  | .tsd _ u _ => List.replicate u { removed := false, modified := none }
  | .tsl _ n => List.replicate n none
  | .tsld _ => []
  | .tsb fs => emptyDelta fs
  | .bnil => ()
  | .bcons f r => (if isCollection f then some (emptyDelta f) else none, emptyDelta r)

/-- `mutation.push` of a tick-count window of capacity `period` -/
def pushWin (period : Nat) (w : List Nat) (x : Nat) : List Nat :=
  let w' := w ++ [x]
  w'.drop (w'.length - period)


/-- `apply_delta_tsd` key by key.  `old` is the slot before the delta, `op` what the delta says about the key.
    Returns the slot afterwards and whether the key is reported by `removed_keys()`. -/
def dictApply {σ δ : Type} (freshC : σ) (app : σ → δ → σ) (clr : σ → σ) (vld : σ → Bool) :
    List (Option σ) → List (KeyOp δ) → List (Option σ) × List Bool
  | [], _ => ([], [])
  | old :: ss, [] =>
      -- a key the delta does not mention
      let rest := dictApply freshC app clr vld ss []
      (old.map clr :: rest.1, false :: rest.2)
  | old :: ss, op :: ops =>
      let rest := dictApply freshC app clr vld ss ops
      match op.modified with
      | some dk =>
          -- `mutation.at(key)`: the existing child, the child revived from a slot erased a moment ago
          -- (same key in `removed`), or a new one; then the child's delta through the public `apply_delta`
          let child := match old with
            | some c => c
            | none => freshC
          (some (app child dk) :: rest.1, false :: rest.2)
      | none =>
          if op.removed then
            -- `mutation.erase(key)`: in `removed_keys()` only if the child's value had been published
            let wasPublished := match old with
              | some c => vld c
              | none => false
            (none :: rest.1, wasPublished :: rest.2)
          else (old.map clr :: rest.1, false :: rest.2)

/-- `apply_delta_tsl`: children named by the map get their delta, the others are not touched -/
def listApply {σ δ : Type} (app : σ → δ → σ) (clr : σ → σ) : List σ → List (Option δ) → List σ
  | [], _ => []
  | c :: cs, [] => clr c :: listApply app clr cs []
  | c :: cs, od :: ods =>
      (match od with
       | some dc => app c dc
       | none => clr c) :: listApply app clr cs ods

/-- the children `TSLOutputView::at` creates past the current end of a DYNAMIC list while `apply_delta_tsl` walks
    the delta: `ensure_size(index + 1)` default-constructs every index up to the largest one the delta names
    (a skipped index is an untouched `freshC`), a named index then gets its delta through the public `apply_delta`.
    Nothing is created past the last entry: the map has no length. -/
def growApply {σ δ : Type} (freshC : σ) (app : σ → δ → σ) : List (Option δ) → List σ
  | [] => []
  | od :: ods =>
      if (od :: ods).any Option.isSome then
        (match od with
         | some dc => app freshC dc
         | none => freshC) :: growApply freshC app ods
      else []

/-- `apply_delta_tsl` on a dynamic list: existing children as in `listApply`, entries past the end grow the list -/
def dynApply {σ δ : Type} (freshC : σ) (app : σ → δ → σ) (clr : σ → σ) : List σ → List (Option δ) → List σ
  | [], ods => growApply freshC app ods
  | c :: cs, [] => clr c :: dynApply freshC app clr cs []
  | c :: cs, od :: ods =>
      (match od with
       | some dc => app c dc
       | none => clr c) :: dynApply freshC app clr cs ods

/-- a `Map<int, δ>` as a positional list: drop the trailing positions without an entry -/
def trimNone {δ : Type} : List (Option δ) → List (Option δ)
  | [] => []
  | x :: r =>
      match x, trimNone r with
      | none, [] => []
      | x, t => x :: t

/-- `TSLOutputView::at(i)` without a write: a dynamic list grows to `i + 1` children, nothing ticks -/
def growTo {σ : Type} (freshC : σ) (n : Nat) (st : List σ) : List σ :=
  st ++ List.replicate (n - st.length) freshC

/-- `capture_delta_tsd` key by key: `removed_keys()` and the valid `modified_items()` -/
def dictCapture {σ δ : Type} (md vld : σ → Bool) (cap : σ → δ) : List (Option σ) → List Bool → List (KeyOp δ)
  | slot :: ss, rm :: rs =>
      { removed := rm,
        modified := match slot with
          | some c => if md c && vld c then some (cap c) else none
          | none => none } :: dictCapture md vld cap ss rs
  | _, _ => []

/-- some key named in `removed` is present (`dict_out.contains(removed.at(i))`) -/
def removesPresent {σ δ : Type} : List (Option σ) → List (KeyOp δ) → Bool
  | some _ :: ss, op :: ops => op.removed || removesPresent ss ops
  | none :: ss, _ :: ops => removesPresent ss ops
  | _, _ => false

/-- `delta_has_effect_impl` -/
def hasEffect : (s : Shape) → St s → Dl s → Bool
  | .ts _, _, _ => true
  | .signal, _, _ => true
  | .tsw _ _, _, _ => true
  | .tss _ _, st, d => d.added.any id || d.removed.any id || !st.valid
  | .tsd _ _ _, st, d =>
      if d.any (fun op => op.modified.isSome) then true
      else if d.any (fun op => op.removed) then removesPresent st.slots d
      else !st.valid
  | .tsl _ _, _, d => d.any Option.isSome
  | .tsld _, _, d => d.any Option.isSome
  | .tsb fs, st, d => hasEffect fs st d
  | .bnil, _, _ => false
  | .bcons f r, st, d =>
      (match d.1 with
       | some df => hasEffect f st.1 df
       | none => false) || hasEffect r st.2 d.2

/-- the three bit-vectors of a set after `remove … ; add …` (`TSSSlotStorage::remove_key/insert_key`:
    a removed slot that is re-inserted is revived, marks are net) -/
def setApply : List Bool → List Bool → List Bool → List Bool × List Bool × List Bool
  | [], _, _ => ([], [], [])
  | e :: es, as, rs =>
      let a := as.headD false
      let r := rs.headD false
      let e' := (e && !r) || a
      let rest := setApply es as.tail rs.tail
      (e' :: rest.1, (e' && !e) :: rest.2.1, (e && !e') :: rest.2.2)

/-- `apply_delta`: the gated public entry point, used at every level of the recursion.
    The result carries the marks of the cycle in which the delta was applied. -/
def apply : (s : Shape) → St s → Dl s → St s
  | .ts _, _, d => { val := some d, mod := true }
  | .signal, _, _ => { val := true, mod := true }
  | .tsw _ p, st, d => { val := pushWin p st.val d, mod := true }
  | .tss b u, st, d =>
      if hasEffect (.tss b u) st d then
        let r := setApply st.elems d.added d.removed
        { valid := true, mod := true, elems := r.1, added := r.2.1, removed := r.2.2 }
      else clear (.tss b u) st
  | .tsd b u v, st, d =>
      if hasEffect (.tsd b u v) st d then
        let r := dictApply (fresh v) (apply v) (clear v) (valid v) st.slots d
        { valid := true, mod := true, slots := r.1, removed := r.2 }
      else clear (.tsd b u v) st
  | .tsl e _, st, d => listApply (apply e) (clear e) st d
  | .tsld e, st, d => dynApply (fresh e) (apply e) (clear e) st d
  | .tsb fs, st, d => apply fs st d
  | .bnil, _, _ => ()
  | .bcons f r, st, d =>
      ((match d.1 with
        | some df => apply f st.1 df
        | none => clear f st.1), apply r st.2 d.2)

/-- A tick written through the RAW output API (what a hand-written node does; `harness/replay_raw.h`): the
    mutations of `apply_delta_*` without the `delta_has_effect` gate at any level - a set / dictionary always
    ends with `mutation.touch()`, so it ticks even when nothing changed. -/
def write : (s : Shape) → St s → Dl s → St s
  | .ts _, _, d => { val := some d, mod := true }
  | .signal, _, _ => { val := true, mod := true }
  | .tsw _ p, st, d => { val := pushWin p st.val d, mod := true }
  | .tss _ _, st, d =>
      let r := setApply st.elems d.added d.removed
      { valid := true, mod := true, elems := r.1, added := r.2.1, removed := r.2.2 }
  | .tsd _ _ v, st, d =>
      let r := dictApply (fresh v) (write v) (clear v) (valid v) st.slots d
      { valid := true, mod := true, slots := r.1, removed := r.2 }
  | .tsl e _, st, d => listApply (write e) (clear e) st d
  | .tsld e, st, d => dynApply (fresh e) (write e) (clear e) st d
  | .tsb fs, st, d => write fs st d
  | .bnil, _, _ => ()
  | .bcons f r, st, d =>
      ((match d.1 with
        | some df => write f st.1 df
        | none => clear f st.1), write r st.2 d.2)

/-- `capture_delta` of a (modified) input bound to the state -/
def capture : (s : Shape) → St s → Dl s
  | .ts _, st => st.val.getD 0
  | .signal, _ => ()
  | .tsw _ _, st => st.val.getLast?.getD 0
  | .tss _ _, st => { added := st.added, removed := st.removed }
  | .tsd _ _ v, st => dictCapture (modified v) (valid v) (capture v) st.slots st.removed
  | .tsl e _, st => st.map fun c => if modified e c && valid e c then some (capture e c) else none
  | .tsld e, st => trimNone (st.map fun c => if modified e c && valid e c then some (capture e c) else none)
  | .tsb fs, st => capture fs st
  | .bnil, _ => ()
  | .bcons f r, st =>
      ((if modified f st.1 && valid f st.1 then some (capture f st.1)
        else if isCollection f then some (emptyDelta f) else none), capture r st.2)

/-- `delta_is_observable` -/
def observable : (s : Shape) → St s → Dl s → Bool
  | .ts _, st, _ => st.mod && st.val.isSome
  | .signal, st, _ => st.mod && st.val
  | .tsw _ _, st, _ => st.mod
  | .tss _ _, st, d => st.mod && (st.valid || d.removed.any id)
  | .tsd _ _ _, st, d => st.mod && (st.valid || d.any (fun op => op.removed) || d.any (fun op => op.modified.isSome))
  | .tsl e n, st, d => modified (.tsl e n) st && d.any Option.isSome
  | .tsld e, st, d => modified (.tsld e) st && (valid (.tsld e) st || d.any Option.isSome)   -- `observable_list`
  | .tsb fs, st, d => observable fs st d
  | .bnil, _, _ => false
  | .bcons f r, st, d =>
      (modified f st.1 && (match d.1 with
        | some df => observable f st.1 df
        | none => false)) || observable r st.2 d.2

/-! ## the dense record buffer and the two operators

`buf[i]` is the delta recorded at evaluation time `MIN_ST + i*MIN_TD`; `none` = no tick in that cycle
(`record_replay_buffer.h`). -/

abbrev Buffer (s : Shape) := List (Option (Dl s))

/-- `dense_record_impl::eval` at cycle offset `cycle` with its input in state `inp` -/
def recordEval {s : Shape} (buf : Buffer s) (cycle : Nat) (inp : St s) : Buffer s :=
  if modified s inp then
    let d := capture s inp
    if observable s inp d then
      -- `while (size < offset) push_back_unset(); push_back(delta)`
      buf ++ List.replicate (cycle - buf.length) none ++ [some d]
    else buf
  else buf

/-- `replay_impl::eval` (dense branch): cursor `index`, output `out` as left by the previous cycle.
    Returns the new cursor, the output after this evaluation and whether `sched.schedule(MIN_TD)` was called. -/
def replayEval {s : Shape} (buf : Buffer s) (index : Nat) (out : St s) : Nat × St s × Bool :=
  let out' := match buf[index]? with
    | some (some d) => apply s out d
    | _ => clear s out
  (index + 1, out', decide (index + 1 < buf.length))

/-- The graph `replay(in) -> record(out)` in simulation: the replay node is scheduled on start (cycle 0)
    and then only by its own `schedule(MIN_TD)`; `record` runs in the same cycle when its input ticked.
    `fuel` bounds the number of cycles (the run ends when nothing is scheduled). -/
def runGraph {s : Shape} (inp : Buffer s) : Nat → Nat → Nat → St s → Buffer s → Buffer s × St s
  | 0, _, _, out, rec => (rec, out)
  | fuel + 1, cycle, index, out, rec =>
      let r := replayEval inp index out
      let rec' := recordEval rec cycle r.2.1
      if r.2.2 then runGraph inp fuel (cycle + 1) r.1 r.2.1 rec' else (rec', r.2.1)

/-- one complete run: recorded buffer and the replay node's final output -/
def replayRecord {s : Shape} (inp : Buffer s) : Buffer s × St s :=
  runGraph inp (inp.length + 1) 0 0 (fresh s) []

end HgVerif.Delta
