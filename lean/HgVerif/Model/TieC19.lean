import HgVerif.Model.Extracted
import HgVerif.Model.Dispatch
/-!
Ties for the rank weights of operator overload resolution (C19): `tools/extract.py` reads the constants out of
`src/hgraph/types/type_pattern.cpp` and `include/hgraph/types/operator_dispatch.h` on every run; the model's named
constants (`Model/Dispatch.lean`) must be those.  A changed weight breaks the tie: `./check C19` then looks for a
call on which the implementation no longer picks the most specific candidate (see `Model/Tie.lean` for the scheme).
-/
namespace HgVerif.Tie
open HgVerif.Extracted

theorem tie_rankLarge : rankLarge = HgVerif.Dispatch.LARGE_RANK := rfl
theorem tie_rankScalarVar : rankScalarVar = HgVerif.Dispatch.SCALAR_VAR_RANK := rfl
/-- `collect_ts_rank`'s default `var_rank` and the value `collect_scalar_rank` is entered with -/
theorem tie_rankCollectTsDefault : rankCollectTsDefault = HgVerif.Dispatch.LARGE_RANK := rfl
theorem tie_rankCollectScalarDefault : rankCollectScalarDefault = HgVerif.Dispatch.SCALAR_VAR_RANK := rfl
/-- the decay under structure: `std::max(1, var_rank / 2)` at every site -/
theorem tie_rankDecayDiv : ∀ v, HgVerif.Dispatch.decay v = max rankDecayFloor (v / rankDecayDiv) := fun _ => rfl
theorem tie_rankDecayFloor : rankDecayFloor = 1 := rfl
/-- `ts_pattern_rank` bonuses -/
theorem tie_rankTslSizeVarBonus : rankTslSizeVarBonus = HgVerif.Dispatch.TSL_SIZE_VAR_BONUS := rfl
theorem tie_rankTslAnySizeBonus : rankTslAnySizeBonus = HgVerif.Dispatch.TSL_ANY_SIZE_BONUS := rfl
theorem tie_rankTswAnyWindowBonus : rankTswAnyWindowBonus = HgVerif.Dispatch.TSW_ANY_WINDOW_BONUS := rfl

end HgVerif.Tie
