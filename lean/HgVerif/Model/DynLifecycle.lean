import HgVerif.Model.Lifecycle
/-
Lifecycle of DYNAMICALLY created child graphs (property C14, dynamic children): a parent node that
owns a set of child graphs created and removed at run time.  Modelled code (read from /repo; same
cases, same order of side effects):

* a child graph is a nested graph of `n` nodes run through `graph.cpp start_impl / stop_impl`, i.e.
  through the loops of `Model/Lifecycle.lean` (`graphStart` = start loop + rollback of the started
  prefix with swallowed errors, `stopLoop` = every node gets its stop attempt, first error recorded),
  with the lifecycle-observer notifications of those functions written into a trace;
  node hooks are ARBITRARY functions of a user state (`Hooks`): every assignment of start / evaluate /
  stop faults, state dependent or not.
* `map_node.cpp`: `MapNodeStorage::entries` (slot -> `MapKeyEntry`, `slot_capacity()`), `primed`;
  `remove_entry_at_slot` (stop a started child, the entry stays constructed), `remove_all_entries`
  (slot scan), `create_entry_at_slot` (re-use of a constructed stopped entry, `UnwindCleanupGuard`
  rollback destroying a NEW entry when bind/start throws), `create_live_key_entries`,
  `map_reconcile_keys` for a key source that does not re-point (not valid -> remove all, unprime;
  not primed -> rebuild and prime AFTER the whole batch succeeded; modified -> removed chain then
  added chain), the evaluation loop (only started children are evaluated), `map_node_stop`,
  the slot observer's `on_erase` (`entries.destroy_at`; `GraphValue::reset` stops a started graph,
  swallowing), `~MapNodeStorage` (`destroy_entries_without_output_noexcept`).
  `remove_all_entries` exists in two variants selected by `Cfg.recorder`:
    `false` = the loop as it is on the tree this model was written against: the first child whose
              stop throws ABORTS the scan (children in later slots keep running),
    `true`  = the repaired loop of `fixes/c14_map_stop.patch`: every slot gets its attempt
              (`FirstExceptionRecorder`), the first error is rethrown at the end.
* `reduce_node.cpp`: the combiner graphs of the heap-shaped tree (see the section on the reduce node below).
* `switch_node.cpp`: two graph slots, `activate_branch` (build next, stop the active branch, start
  next), `switch_teardown`, `switch_node_stop`.
* `executor.cpp run_storage`: an evaluation error ends the run; the `stop_graph` guard stops the root
  graph on unwind iff `cleanup_on_error` (errors of that stop are swallowed); a normal end stops the
  graph and reports the first stop error; `~SimulationExecutorStorage` stops a graph that is still
  started (swallowing), then the node storages are destroyed.
  Only the dynamic parent is modelled of the root graph (its other nodes do not fail here).

What a cycle looks like to the parent (`CycleIn`) is an INPUT of the model: which slots the key set
erased / removed / added / holds, which children have a ticked input.  The theorems quantify over all
of them; the driver derives them from a key history with the slot-store model of C05.

Error capture (`map_` with an error output), source re-pointing (the second entry bank) and mesh
pause / resume are not modelled.  Core Lean only.
-/
namespace HgVerif.DynLife
open HgVerif.Lifecycle

/-- a child graph instance: key and generation (how many children this key has had) -/
structure Cid where
  key : Int
  gen : Nat
deriving DecidableEq, Repr

/-- node-level notifications and hook outcomes -/
inductive NTag where
  | sB | sA | sF            -- observer: before / after / failed start node
  | xB | xA | xF            -- observer: before / after / failed stop node
  | hS | hSf                -- start hook completed / threw
  | hX | hXf                -- stop hook completed / threw
  | hE | hEf                -- evaluate hook completed / threw
deriving DecidableEq, Repr

/-- graph-level notifications -/
inductive GTag where
  | sB | sA | sF | xB | xA | xF
deriving DecidableEq, Repr

inductive Ev where
  | n (t : NTag) (c : Cid) (i : Nat)
  | g (t : GTag) (c : Cid)
  | cyc (k : Nat)          -- the root graph begins cycle k
  | stopping               -- the root graph begins to stop
  | returned               -- run() returned to the caller
deriving DecidableEq, Repr

/-- the world the hooks live in: a user state (fault plans, counters) and the trace so far -/
structure World (υ : Type) where
  u : υ
  tr : List Ev := []

def emit {υ : Type} (e : Ev) (w : World υ) : World υ := { w with tr := w.tr ++ [e] }

/-- node behaviour: any functions of the user state; `some m` = the hook throws `m` -/
structure Hooks (υ : Type) where
  start : Cid → Nat → υ → υ × Option String
  stop : Cid → Nat → υ → υ × Option String
  eval : Cid → Nat → υ → υ × Option String

/-! ## one child graph (`graph.cpp start_impl / stop_impl / evaluate` on a nested graph) -/

/-- the body of the start loop for node `i` -/
def nodeStart {υ : Type} (h : Hooks υ) (c : Cid) (i : Nat) (w : World υ) : StepRes (World υ) :=
  let w1 := emit (.n .sB c i) w
  let r := h.start c i w1.u
  match r.2 with
  | none => { st := emit (.n .sA c i) (emit (.n .hS c i) { w1 with u := r.1 }), err := none }
  | some m => { st := emit (.n .sF c i) (emit (.n .hSf c i) { w1 with u := r.1 }), err := some m }

/-- the body of the stop loop (and of the start rollback) for node `i`: `after` fires even when the stop threw -/
def nodeStop {υ : Type} (h : Hooks υ) (c : Cid) (i : Nat) (w : World υ) : StepRes (World υ) :=
  let w1 := emit (.n .xB c i) w
  let r := h.stop c i w1.u
  match r.2 with
  | none => { st := emit (.n .xA c i) (emit (.n .hX c i) { w1 with u := r.1 }), err := none }
  | some m => { st := emit (.n .xA c i) (emit (.n .xF c i) (emit (.n .hXf c i) { w1 with u := r.1 })), err := some m }

/-- `start_impl` of a child graph of `n` nodes -/
def childStart {υ : Type} (h : Hooks υ) (n : Nat) (c : Cid) (w : World υ) : World υ × Option String :=
  let r := graphStart (nodeStart h c) (nodeStop h c) n (emit (.g .sB c) w)
  match r.err with
  | none => (emit (.g .sA c) r.st, none)
  | some m => (emit (.g .sF c) r.st, some m)

/-- `stop_impl` of a started child graph: every node gets its attempt, the first error is rethrown -/
def childStop {υ : Type} (h : Hooks υ) (n : Nat) (c : Cid) (w : World υ) : World υ × Option String :=
  let r := stopLoop (nodeStop h c) n (emit (.g .xB c) w) [] none
  let w2 := match r.err with
    | none => r.st
    | some _ => emit (.g .xF c) r.st
  (emit (.g .xA c) w2, r.err)

/-- one evaluation of a child whose input ticked: the nodes in rank order up to the first throw -/
def evalLoop {υ : Type} (h : Hooks υ) (c : Cid) : Nat → Nat → World υ → World υ × Option String
  | 0, _, w => (w, none)
  | rem + 1, i, w =>
    let r := h.eval c i w.u
    match r.2 with
    | none => evalLoop h c rem (i + 1) (emit (.n .hE c i) { w with u := r.1 })
    | some m => (emit (.n .hEf c i) { w with u := r.1 }, some m)

def childEval {υ : Type} (h : Hooks υ) (n : Nat) (c : Cid) (w : World υ) : World υ × Option String :=
  evalLoop h c n 0 w

/-! ## the keyed map node -/

/-- `MapKeyEntry` (its graph exists as long as the entry does) -/
structure Entry where
  key : Int
  gen : Nat
  started : Bool
deriving DecidableEq, Repr

def Entry.cid (e : Entry) : Cid := ⟨e.key, e.gen⟩

structure Cfg where
  n : Nat                  -- nodes per child graph
  cleanup : Bool := true   -- `cleanup_on_error`
  recorder : Bool := true  -- `remove_all_entries` with a first-exception recorder (the repaired loop)
  fwd : Bool := false      -- switch_: the output forwards to the child terminal (`output_forwards_to_child_terminal`)
  retireFirst : Bool := false  -- switch_, forwarding path only: the slot is retired BEFORE the outgoing branch is stopped
                               -- (NOT the code: the order of seed s88, kept for the counter-lemma)

structure MapSt (υ : Type) where
  ent : Nat → Option Entry := fun _ => none   -- `entries.entry_at(slot)`
  cap : Nat := 0                              -- `entries.slot_capacity()`
  primed : Bool := false
  gens : Int → Nat := fun _ => 0              -- children created so far per key (names the instances)
  w : World υ

def setEnt (f : Nat → Option Entry) (s : Nat) (v : Option Entry) : Nat → Option Entry :=
  fun i => if i = s then v else f i

def setGen (f : Int → Nat) (k : Int) (v : Nat) : Int → Nat := fun j => if j = k then v else f j

/-- `remove_entry_at_slot` (lifecycle part): stop a started child; the graph is stopped even when a node's stop threw -/
def removeEntry {υ : Type} (cfg : Cfg) (h : Hooks υ) (s : Nat) (m : MapSt υ) : MapSt υ × Option String :=
  match m.ent s with
  | none => (m, none)
  | some e =>
    if e.started then
      let r := childStop h cfg.n e.cid m.w
      ({ m with ent := setEnt m.ent s (some { e with started := false }), w := r.1 }, r.2)
    else (m, none)

/-- `remove_all_entries`: `for (slot = 0; slot < entries.slot_capacity(); ++slot) remove_entry_at_slot(slot)` -/
def removeAllFrom {υ : Type} (cfg : Cfg) (h : Hooks υ) : Nat → Nat → MapSt υ → Option String → MapSt υ × Option String
  | 0, _, m, e => (m, e)
  | fuel + 1, s, m, e =>
    let r := removeEntry cfg h s m
    match r.2 with
    | none => removeAllFrom cfg h fuel (s + 1) r.1 e
    | some x =>
      if cfg.recorder then removeAllFrom cfg h fuel (s + 1) r.1 (match e with | some y => some y | none => some x)
      else (r.1, some x)

def removeAll {υ : Type} (cfg : Cfg) (h : Hooks υ) (m : MapSt υ) : MapSt υ × Option String :=
  removeAllFrom cfg h m.cap 0 m none

/-- `create_entry_at_slot` (lifecycle part) -/
def createEntry {υ : Type} (cfg : Cfg) (h : Hooks υ) (s : Nat) (k : Int) (m : MapSt υ) : MapSt υ × Option String :=
  let m := { m with cap := max m.cap (s + 1) }
  let go := fun (key : Int) (old : Option Entry) =>
    let g := m.gens key + 1
    let r := childStart h cfg.n ⟨key, g⟩ m.w
    match r.2 with
    | none => ({ m with ent := setEnt m.ent s (some ⟨key, g, true⟩), gens := setGen m.gens key g, w := r.1 }, none)
    | some x => ({ m with ent := setEnt m.ent s old, gens := setGen m.gens key g, w := r.1 }, some x)
  match m.ent s with
  | some e => if e.started then (m, none) else go e.key (some e)
  | none => go k none

/-- a sequence of `create_entry_at_slot` calls; the first throw ends it -/
def createList {υ : Type} (cfg : Cfg) (h : Hooks υ) : List (Nat × Int) → MapSt υ → MapSt υ × Option String
  | [], m => (m, none)
  | (s, k) :: rest, m =>
    let r := createEntry cfg h s k m
    match r.2 with
    | none => createList cfg h rest r.1
    | some x => (r.1, some x)

/-- the removed-slot chain; the first throw ends it -/
def removeList {υ : Type} (cfg : Cfg) (h : Hooks υ) : List Nat → MapSt υ → MapSt υ × Option String
  | [], m => (m, none)
  | s :: rest, m =>
    let r := removeEntry cfg h s m
    match r.2 with
    | none => removeList cfg h rest r.1
    | some x => (r.1, some x)

/-- what one engine cycle looks like to the map node -/
structure CycleIn where
  active : Bool := true             -- the map node is evaluated in this cycle
  erased : List Nat := []           -- `on_erase(slot)` callbacks of the key set, delivered before the evaluation
  cap : Nat := 0                    -- `key_set.slot_capacity()`
  valid : Bool := true              -- `keys_input.valid()`
  modified : Bool := false          -- `keys_input.modified()`
  live : List (Nat × Int) := []     -- live slots of the key set with their keys (ascending)
  removed : List Nat := []          -- removed-slot chain
  added : List (Nat × Int) := []    -- added-slot chain with the keys
  ticked : List Nat := []           -- slots whose child is due (`next_scheduled_time() <= now`), evaluation order

/-- `entries.destroy_at(slot)`: `GraphValue::reset` stops a graph that is still started, swallowing -/
def destroySlot {υ : Type} (cfg : Cfg) (h : Hooks υ) (m : MapSt υ) (s : Nat) : MapSt υ :=
  match m.ent s with
  | none => m
  | some e =>
    let w := if e.started then (childStop h cfg.n e.cid m.w).1 else m.w
    { m with ent := setEnt m.ent s none, w := w }

/-- `map_reconcile_keys` -/
def reconcile {υ : Type} (cfg : Cfg) (h : Hooks υ) (I : CycleIn) (m : MapSt υ) : MapSt υ × Option String :=
  let m := { m with cap := max m.cap I.cap }
  if !I.valid then
    let r := removeAll cfg h m
    match r.2 with
    | none => ({ r.1 with primed := false }, none)
    | some x => (r.1, some x)
  else if !m.primed then
    let r := removeAll cfg h m
    match r.2 with
    | some x => (r.1, some x)
    | none =>
      let r2 := createList cfg h I.live r.1
      match r2.2 with
      | some x => (r2.1, some x)
      | none => ({ r2.1 with primed := true }, none)
  else if I.modified then
    let r := removeList cfg h I.removed m
    match r.2 with
    | some x => (r.1, some x)
    | none => createList cfg h I.added r.1
  else (m, none)

/-- the evaluation loop of `map_evaluate_impl`: missing and stopped entries are skipped -/
def evalSlots {υ : Type} (cfg : Cfg) (h : Hooks υ) : List Nat → MapSt υ → MapSt υ × Option String
  | [], m => (m, none)
  | s :: rest, m =>
    match m.ent s with
    | none => evalSlots cfg h rest m
    | some e =>
      if e.started then
        let r := childEval h cfg.n e.cid m.w
        match r.2 with
        | none => evalSlots cfg h rest { m with w := r.1 }
        | some x => ({ m with w := r.1 }, some x)
      else evalSlots cfg h rest m

/-- one cycle: the key set's erase callbacks, then `map_evaluate_impl` -/
def cycle {υ : Type} (cfg : Cfg) (h : Hooks υ) (I : CycleIn) (m : MapSt υ) : MapSt υ × Option String :=
  if !I.active then (m, none) else
  let m1 := I.erased.foldl (destroySlot cfg h) m
  let r := reconcile cfg h I m1
  match r.2 with
  | some x => (r.1, some x)
  | none => evalSlots cfg h I.ticked r.1

/-- `map_node_stop` -/
def mapStop {υ : Type} (cfg : Cfg) (h : Hooks υ) (m : MapSt υ) : MapSt υ × Option String :=
  let r := removeAll cfg h m
  match r.2 with
  | none => ({ r.1 with primed := false }, none)
  | some x => (r.1, some x)

/-- `destroy_entries_without_output_noexcept`: every entry's graph is stopped (swallowing), then destroyed -/
def destroyAllFrom {υ : Type} (cfg : Cfg) (h : Hooks υ) : Nat → Nat → MapSt υ → MapSt υ
  | 0, _, m => m
  | fuel + 1, s, m => destroyAllFrom cfg h fuel (s + 1) (destroySlot cfg h m s)

def destroyAll {υ : Type} (cfg : Cfg) (h : Hooks υ) (m : MapSt υ) : MapSt υ := destroyAllFrom cfg h m.cap 0 m

/-! ## the run (`executor.cpp run_storage` + release of the executor) -/

def runCycles {υ : Type} (cfg : Cfg) (h : Hooks υ) : List CycleIn → Nat → MapSt υ → MapSt υ × Option String
  | [], _, m => (m, none)
  | I :: rest, k, m =>
    let r := cycle cfg h I { m with w := emit (.cyc k) m.w }
    match r.2 with
    | none => runCycles cfg h rest (k + 1) r.1
    | some x => (r.1, some x)

structure RunRes (υ : Type) where
  ret : MapSt υ               -- when `run()` returns to the caller
  fin : MapSt υ               -- after the executor was released
  err : Option String         -- what `run()` throws

/-- the executor is released: a root graph that is still started is stopped (swallowing), then the
    map node's storage is destroyed -/
def release {υ : Type} (cfg : Cfg) (h : Hooks υ) (rootStopped : Bool) (m : MapSt υ) : MapSt υ :=
  let m1 := if rootStopped then m else (mapStop cfg h m).1
  destroyAll cfg h m1

def run {υ : Type} (cfg : Cfg) (h : Hooks υ) (cycles : List CycleIn) (u0 : υ) : RunRes υ :=
  let r := runCycles cfg h cycles 0 { w := { u := u0 } }
  match r.2 with
  | none =>
    -- `stop_graph.complete()`: the first stop error propagates
    let s := mapStop cfg h { r.1 with w := emit .stopping r.1.w }
    let ret := { s.1 with w := emit .returned s.1.w }
    { ret := ret, fin := release cfg h true ret, err := s.2 }
  | some x =>
    if cfg.cleanup then
      -- the `stop_graph` guard on unwind: errors of the stop are swallowed
      let s := mapStop cfg h { r.1 with w := emit .stopping r.1.w }
      let ret := { s.1 with w := emit .returned s.1.w }
      { ret := ret, fin := release cfg h true ret, err := some x }
    else
      let ret := { r.1 with w := emit .returned r.1.w }
      { ret := ret, fin := release cfg h false ret, err := some x }

/-! ## the associative reduce node (`reduce_node.cpp`): combiner graphs at the positions of a heap-shaped tree

`ReduceNodeStorage::combiners` (heap position -> `CombinerEntry`, two banks) is the same kind of slot table as the
map node's entries; a combiner of bank `b` at heap position `p` lives in slot `2 * p + b` of the `MapSt` below, so
that the slot scans visit the current generation in ascending position.  WHICH positions a structural change
creates / retires (`resolve_aggregate`, capacity growth) is an input of this model (`RedIn`); the driver derives it
with the C11 model of the tree (`Model/Reduce.lean`).

* `rebuild_structure`: phase 2 starts the newly created combiners in reverse creation order
  (`child.start`); a throwing start unwinds through the rollback guard, which resets (stops, swallowing, and
  destroys) the combiners created in this rebuild, in creation order, and puts the set-aside ones back — in the
  model they never left their slots; phase 3 then stops (`stop_combiner_noexcept`, swallowing) the combiners that
  are no longer needed, and, after a capacity growth, every combiner of the old generation.
* the evaluation loop: due combiners deepest-first; a stopped or missing one is skipped.
* `reduce_node_stop`: every live combiner gets its stop attempt, the first error is recorded and rethrown once the
  node's own state is reset = `mapStop` with the recorder.
* `~ReduceNodeStorage` = `destroyAll`.
A combiner instance has no key: it is named `⟨ordinal, 1⟩`, `ordinal` = the order of its start attempt in the run. -/

structure RedSt (υ : Type) where
  m : MapSt υ
  next : Nat := 0                  -- combiner graphs whose start was attempted so far

structure RedIn where
  active : Bool := true            -- the reduce node is evaluated in this cycle
  create : List Nat := []          -- slots of the combiners created by this rebuild, in START order
  retire : List Nat := []          -- slots stopped by phase 3, in stop order (set-aside ones, then the old generation)
  ticked : List Nat := []          -- slots of the due combiners, evaluation order

/-- phase 2: `child.start` for the created combiners; returns the slots started so far, latest first -/
def redStartList {υ : Type} (cfg : Cfg) (h : Hooks υ) : List Nat → RedSt υ → List Nat → RedSt υ × List Nat × Option String
  | [], m, acc => (m, acc, none)
  | s :: rest, m, acc =>
    match m.m.ent s with
    | some _ => redStartList cfg h rest m acc            -- `entry != nullptr`: nothing is created there
    | none =>
      let r := createEntry cfg h s (Int.ofNat (m.next + 1)) m.m
      match r.2 with
      | none => redStartList cfg h rest { m := r.1, next := m.next + 1 } (s :: acc)
      | some x => ({ m := r.1, next := m.next + 1 }, acc, some x)

/-- `rebuild_structure` (lifecycle part) -/
def redRebuild {υ : Type} (cfg : Cfg) (h : Hooks υ) (I : RedIn) (m : RedSt υ) : RedSt υ × Option String :=
  let r := redStartList cfg h I.create m []
  match r.2.2 with
  | some x => ({ r.1 with m := r.2.1.foldl (destroySlot cfg h) r.1.m }, some x)     -- the rollback guard
  | none => ({ r.1 with m := I.retire.foldl (destroySlot cfg h) r.1.m }, none)      -- phase 3

/-- `reduce_evaluate` -/
def redCycle {υ : Type} (cfg : Cfg) (h : Hooks υ) (I : RedIn) (m : RedSt υ) : RedSt υ × Option String :=
  if !I.active then (m, none) else
  let r := redRebuild cfg h I m
  match r.2 with
  | some x => (r.1, some x)
  | none =>
    let q := evalSlots cfg h I.ticked r.1.m
    ({ r.1 with m := q.1 }, q.2)

def redRunCycles {υ : Type} (cfg : Cfg) (h : Hooks υ) : List RedIn → Nat → RedSt υ → RedSt υ × Option String
  | [], _, m => (m, none)
  | I :: rest, k, m =>
    let r := redCycle cfg h I { m with m := { m.m with w := emit (.cyc k) m.m.w } }
    match r.2 with
    | none => redRunCycles cfg h rest (k + 1) r.1
    | some x => (r.1, some x)

/-- the run of a graph whose dynamic parent is a reduce node (`run_storage` + release, as `run`) -/
def redRun {υ : Type} (cfg : Cfg) (h : Hooks υ) (cycles : List RedIn) (u0 : υ) : RunRes υ :=
  let r := redRunCycles cfg h cycles 0 { m := { w := { u := u0 } } }
  match r.2 with
  | none =>
    let s := mapStop cfg h { r.1.m with w := emit .stopping r.1.m.w }
    let ret := { s.1 with w := emit .returned s.1.w }
    { ret := ret, fin := release cfg h true ret, err := s.2 }
  | some x =>
    if cfg.cleanup then
      let s := mapStop cfg h { r.1.m with w := emit .stopping r.1.m.w }
      let ret := { s.1 with w := emit .returned s.1.w }
      { ret := ret, fin := release cfg h true ret, err := some x }
    else
      let ret := { r.1.m with w := emit .returned r.1.m.w }
      { ret := ret, fin := release cfg h false ret, err := some x }

/-! ## the switch node (one active child, two graph slots)

`activate_branch`: the slot that is not active is emptied (`storage.graphs[next_slot] = GraphValue{}`: the graph retired
by the previous switch is destroyed; `GraphValue::reset` would stop it, swallowing, were it still started), the new
graph is built there and its inputs are bound; then
* owned output (`!output_forwards_to_child_terminal`): `switch_teardown` = clear the output binding, STOP the active
  graph, reset the output, retire the slot (`previous_slot = active_slot; active_slot.reset()`);
* forwarding output (`Cfg.fwd`): `bind_branch_output` to the NEW graph first (the old terminal is still alive while the
  subscribers move), then STOP the active graph, then retire the slot;
in both a throwing stop leaves `active_slot` on the (now stopped) old graph.  Then `active_slot = next_slot` and the new
graph is started.  The two paths have the same lifecycle events; output bindings are not part of this model. -/

structure SwSt (υ : Type) where
  active : Option Entry := none     -- the graph in `active_slot` (it may have failed to start / be stopped)
  activeKey : Option Int := none    -- `active_key` (reset by a teardown)
  retired : Option Entry := none    -- the graph in `previous_slot`: retired by the last switch, destroyed at the next one
  gens : Int → Nat := fun _ => 0
  w : World υ

/-- stop the graph in the active slot (`GraphView::stop` returns at once when it is not started): the body of
    `switch_teardown` / `switch_node_stop` -/
def swStop {υ : Type} (cfg : Cfg) (h : Hooks υ) (m : SwSt υ) : SwSt υ × Option String :=
  match m.active with
  | some e =>
    if e.started then
      let r := childStop h cfg.n e.cid m.w
      ({ m with active := some { e with started := false }, w := r.1 }, r.2)
    else (m, none)
  | none => (m, none)

/-- `storage.graphs[slot] = GraphValue{}` on the retired slot, and the destruction of the storage:
    `GraphValue::reset` stops a graph that is still started, swallowing -/
def swDropRetired {υ : Type} (cfg : Cfg) (h : Hooks υ) (m : SwSt υ) : SwSt υ :=
  match m.retired with
  | some e => { m with retired := none, w := if e.started then (childStop h cfg.n e.cid m.w).1 else m.w }
  | none => m

/-- `active_slot = next_slot; …; next.start()` -/
def swStartNew {υ : Type} (cfg : Cfg) (h : Hooks υ) (k : Int) (m1 : SwSt υ) : SwSt υ × Option String :=
  let g := m1.gens k + 1
  let r := childStart h cfg.n ⟨k, g⟩ m1.w
  match r.2 with
  | none => ({ m1 with active := some ⟨k, g, true⟩, activeKey := some k, gens := setGen m1.gens k g, w := r.1 }, none)
  | some x => ({ m1 with active := some ⟨k, g, false⟩, activeKey := some k, gens := setGen m1.gens k g, w := r.1 }, some x)

/-- `activate_branch` -/
def swActivate {υ : Type} (cfg : Cfg) (h : Hooks υ) (k : Int) (m : SwSt υ) : SwSt υ × Option String :=
  let m0 := swDropRetired cfg h m
  if cfg.fwd && cfg.retireFirst then
    -- the order of seed s88: `active_graph()` is null once the slot is retired, the outgoing branch is NOT stopped
    swStartNew cfg h k { m0 with retired := m0.active, active := none, activeKey := none }
  else
    let stopRes := swStop cfg h m0
    match stopRes.2 with
    | some x => (stopRes.1, some x)      -- `active_slot` still names the (stopped) old graph
    | none => swStartNew cfg h k { stopRes.1 with retired := stopRes.1.active, active := none, activeKey := none }

structure SwIn where
  active : Bool := true       -- the switch node is evaluated
  key : Option Int := none    -- the key input ticked with this value
  ticked : Bool := false      -- the active child is due

/-- `switch_evaluate` (no `reload_on_ticked`) -/
def swCycle {υ : Type} (cfg : Cfg) (h : Hooks υ) (I : SwIn) (m : SwSt υ) : SwSt υ × Option String :=
  if !I.active then (m, none) else
  let r : SwSt υ × Option String :=
    match I.key with
    | some k => if m.active.isSome && m.activeKey == some k then (m, none) else swActivate cfg h k m
    | none => (m, none)
  match r.2 with
  | some x => (r.1, some x)
  | none =>
    match r.1.active with
    | some e =>
      if e.started && I.ticked then
        let q := childEval h cfg.n e.cid r.1.w
        ({ r.1 with w := q.1 }, q.2)
      else (r.1, none)
    | none => (r.1, none)

def swRunCycles {υ : Type} (cfg : Cfg) (h : Hooks υ) : List SwIn → Nat → SwSt υ → SwSt υ × Option String
  | [], _, m => (m, none)
  | I :: rest, k, m =>
    let r := swCycle cfg h I { m with w := emit (.cyc k) m.w }
    match r.2 with
    | none => swRunCycles cfg h rest (k + 1) r.1
    | some x => (r.1, some x)

structure SwRunRes (υ : Type) where
  ret : SwSt υ
  fin : SwSt υ
  err : Option String

def swRun {υ : Type} (cfg : Cfg) (h : Hooks υ) (cycles : List SwIn) (u0 : υ) : SwRunRes υ :=
  let r := swRunCycles cfg h cycles 0 { w := { u := u0 } }
  match r.2 with
  | none =>
    let s := swStop cfg h { r.1 with w := emit .stopping r.1.w }
    let ret := { s.1 with w := emit .returned s.1.w }
    { ret := ret, fin := swDropRetired cfg h (swStop cfg h ret).1, err := s.2 }
  | some x =>
    if cfg.cleanup then
      let s := swStop cfg h { r.1 with w := emit .stopping r.1.w }
      let ret := { s.1 with w := emit .returned s.1.w }
      { ret := ret, fin := swDropRetired cfg h (swStop cfg h ret).1, err := some x }
    else
      let ret := { r.1 with w := emit .returned r.1.w }
      { ret := ret, fin := swDropRetired cfg h (swStop cfg h ret).1, err := some x }

/-! ## the property monitor as a fold over the trace (what the theorems are about) -/

/-- lifecycle position of one node of one child instance, as far as its hooks tell -/
inductive NodeSt where
  | fresh       -- no hook seen
  | failed      -- its start hook threw
  | started     -- its start hook completed
  | stopped     -- its stop hook was called
deriving DecidableEq, Repr

structure Ledger where
  st : Cid → Nat → NodeSt := fun _ _ => .fresh
  bad : Bool := false

def setSt (f : Cid → Nat → NodeSt) (c : Cid) (i : Nat) (v : NodeSt) : Cid → Nat → NodeSt :=
  fun c' i' => if c' = c ∧ i' = i then v else f c' i'

/-- one event: a start only on a fresh node, evaluations only while started, one stop only after a completed start -/
def Ledger.step (L : Ledger) : Ev → Ledger
  | .n .hS c i => if L.st c i = .fresh then { L with st := setSt L.st c i .started } else { L with bad := true }
  | .n .hSf c i => if L.st c i = .fresh then { L with st := setSt L.st c i .failed } else { L with bad := true }
  | .n .hE c i => if L.st c i = .started then L else { L with bad := true }
  | .n .hEf c i => if L.st c i = .started then L else { L with bad := true }
  | .n .hX c i => if L.st c i = .started then { L with st := setSt L.st c i .stopped } else { L with bad := true }
  | .n .hXf c i => if L.st c i = .started then { L with st := setSt L.st c i .stopped } else { L with bad := true }
  | _ => L

def ledgerOf (t : List Ev) : Ledger := t.foldl Ledger.step {}

/-- nothing is left started -/
def Clean (L : Ledger) : Prop := ∀ c i, L.st c i ≠ .started

end HgVerif.DynLife
