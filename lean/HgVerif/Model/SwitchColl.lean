/-
Model of a `switch_` node whose switch-owned output is a COLLECTION (`TSS<Int>` or
`TSD<Int, TS<Int>>`), property C12 on collection outputs.  Modelled code:

* `src/hgraph/runtime/switch_node.cpp`
  - `switch_evaluate`: a valid key that ticked (or no active branch yet) is looked at; a new
    instance is activated when `!active_slot || reload_on_ticked || !same_key`; `select_branch`
    (first matching case, else the default, else the "no branch is registered" error); afterwards
    the active child graph is evaluated;
  - `activate_branch` on the ordinary path (`output_forwards_to_child_terminal = false`: the branch
    terminal writes INTO the switch-owned output): `switch_teardown` = stop the running child, then
    `reset_switch_output` -> `clear_collection`; then the new child is started with its boundary
    sampled.  The reset does not look at which spec the new instance comes from: it also happens when
    `reload_on_ticked` re-selects the unchanged key and when two unmatched keys are both served by the
    default branch;
  - `reset_switch_output` (as repaired by /repo 98c6672): nothing when the output is not valid yet
    (`if (!output.valid()) return;`, the time-series validity: never written), otherwise
    `clear_tss_collection` / `clear_tsd_collection` (`types/time_series/ts_data/ops.cpp`):
    `begin_mutation(t).clear()` = touch + removal of every live key.  (The guard inside those two,
    `if (!view.valid()) return false;`, is `TSDataView::valid()` = "the view has storage" and never
    fires for the switch-owned output: before the repair the reset also stamped -- and thereby
    validated -- an output that no instance had written.  That rule is kept as `Coll.resetPre` /
    `runPre` with the counter-witness `prefix_reset_validates_unwritten_output` in `Props/C12Coll.lean`.)
* the collection itself at the level of its per-cycle delta marks
  (`src/hgraph/types/metadata/ts_data_slot_ops.cpp`, `TSSSlotStorage` / `TSDSlotStorage`;
  `prepare_delta`: a mutation at a later time than `delta_time_` starts a new window with all marks
  cleared; insert: a key carrying the removed mark is resurrected and loses it, any other new key gets
  the added mark; remove: a key carrying the added mark loses it (cancelled), any other live key gets
  the removed mark; a written dictionary child gets the modified mark, a removed key loses it; every
  mutation call, effective or not, stamps `last_modified_time`).  The slot table behind the marks
  (slot indices, free list, pending erase) is the subject of C05 (`Model/Slots.lean`) and is not
  repeated here: keys stand for their slots.
  A `TSS<Int>` is the same structure with every value `0`: the model driver maps `put k v` to
  `put k 0` and prints keys only; the modified marks of a set are not observable (the real set
  storage has none).  `last_modified_time` and `delta_time_` move together (both become
  `max(old, t)` in every mutation), so the readers' two gates (`modified()` for a set,
  `structural_delta_current` for a dictionary's added/removed) are one gate here.
* the child graph as seen from the switch: one node, an ARBITRARY function from (state, key, x) to a
  new state and a list of element operations (`Branch.step`); it is evaluated in its first cycle when
  its inputs pass the validity gate (the boundary is bound sampled: valid inputs count as ticked; a
  node with an explicitly empty gate -- `unchecked` -- is evaluated regardless), later when `x`
  ticked, or the key ticked and the branch consumes the key.  Self-scheduling branches, several
  inputs and the A/B slot bookkeeping are the subject of the scalar model (`Model/Switch.lean`).

Times are microseconds, `MIN_DT = 0`, cycle `i` of a history runs at `1 + i` (`MIN_ST`).
Core Lean only.
-/
namespace HgVerif.SwitchColl

local notation "Time" => Nat
abbrev Key := Int
abbrev Val := Int

/-- one element operation of a branch evaluation: `out.add(k)` / `out.set(k, v)`,
    `out.remove(k)` / `out.erase(k)`, `out.clear()` -/
inductive Op where
  | put (k : Key) (v : Val)
  | del (k : Key)
  | clr
deriving Repr, DecidableEq

/-! ## the collection -/

def look : List (Key × Val) → Key → Option Val
  | [], _ => none
  | p :: r, k => if p.1 = k then some p.2 else look r k

def eraseKey (l : List (Key × Val)) (k : Key) : List (Key × Val) := l.filter (fun p => decide (p.1 ≠ k))
def ins (k : Key) (l : List Key) : List Key := if k ∈ l then l else k :: l
def rem (k : Key) (l : List Key) : List Key := l.filter (fun j => decide (j ≠ k))

structure Coll where
  lmt : Time := 0                   -- last_modified_time (0 = MIN_DT: never written, not valid)
  deltaTime : Time := 0             -- delta_time_: the cycle the marks belong to
  items : List (Key × Val) := []    -- live keys with their values
  added : List Key := []            -- added_ marks
  removed : List Key := []          -- removed_ marks (keys waiting for their physical erase)
  modified : List Key := []         -- modified_ marks (dictionary)
deriving Repr

/-- `record_modified`: an older or equal time is ignored -/
def recMod (lmt t : Time) : Time := if t ≤ lmt then lmt else t

/-- `prepare_delta` -/
def Coll.prepare (c : Coll) (t : Time) : Coll :=
  if t ≤ c.deltaTime then c else { c with added := [], removed := [], modified := [], deltaTime := t }

/-- what every mutation call does first: join / open the delta window and stamp the time -/
def Coll.touch (c : Coll) (t : Time) : Coll :=
  let c1 := c.prepare t
  { c1 with lmt := recMod c1.lmt t }

/-- `add(k)` / `set(k, v)` after the touch: the key is live (its value is written, a dictionary marks it
    modified), or carries the removed mark (resurrected: the mark is dropped), or is new (added mark) -/
def Coll.putCore (c1 : Coll) (k : Key) (v : Val) : Coll :=
  match look c1.items k with
  | some _ => { c1 with items := (k, v) :: eraseKey c1.items k, modified := ins k c1.modified }
  | none =>
    if k ∈ c1.removed then
      { c1 with items := (k, v) :: eraseKey c1.items k, removed := rem k c1.removed, modified := ins k c1.modified }
    else
      { c1 with items := (k, v) :: eraseKey c1.items k, added := ins k c1.added, modified := ins k c1.modified }

def Coll.put (c : Coll) (t : Time) (k : Key) (v : Val) : Coll := (c.touch t).putCore k v

/-- `remove(k)` / `erase(k)` after the touch: nothing for a key that is not live; a key carrying the added
    mark is cancelled, any other live key gets the removed mark; the modified mark goes -/
def Coll.delCore (c1 : Coll) (k : Key) : Coll :=
  match look c1.items k with
  | none => c1
  | some _ =>
    if k ∈ c1.added then
      { c1 with items := eraseKey c1.items k, added := rem k c1.added, modified := rem k c1.modified }
    else
      { c1 with items := eraseKey c1.items k, removed := ins k c1.removed, modified := rem k c1.modified }

def Coll.del (c : Coll) (t : Time) (k : Key) : Coll := (c.touch t).delCore k

/-- the removal loop of `clear()` -/
def Coll.delAll (c : Coll) (t : Time) (ks : List Key) : Coll := ks.foldl (fun y k => y.del t k) c

/-- `clear()`: touch, then remove every live key -/
def Coll.clear (c : Coll) (t : Time) : Coll := (c.touch t).delAll t (c.items.map (·.1))

def Coll.apply (t : Time) (c : Coll) : Op → Coll
  | .put k v => c.put t k v
  | .del k => c.del t k
  | .clr => c.clear t

def Coll.applyAll (c : Coll) (t : Time) (ops : List Op) : Coll := ops.foldl (Coll.apply t) c

/-- `reset_switch_output`: `if (!output.valid()) return;` then `clear_collection` -/
def Coll.reset (c : Coll) (t : Time) : Coll := if c.lmt = 0 then c else c.clear t

/-- the rule BEFORE /repo 98c6672: the reset cleared (and stamped) unconditionally -/
def Coll.resetPre (c : Coll) (t : Time) : Coll := c.clear t

/-- what an output / input view at evaluation time `t` shows -/
def Coll.valid (c : Coll) : Bool := c.lmt != 0
def Coll.modifiedAt (c : Coll) (t : Time) : Bool := t != 0 && c.lmt == t
def Coll.addedAt (c : Coll) (t : Time) : List Key := if c.modifiedAt t then c.added else []
def Coll.removedAt (c : Coll) (t : Time) : List Key := if c.modifiedAt t then c.removed else []
def Coll.modifiedItemsAt (c : Coll) (t : Time) : List (Key × Val) :=
  if c.modifiedAt t then c.items.filter (fun p => decide (p.1 ∈ c.modified)) else []

/-! ## the switch node -/

/-- A branch: one node with an arbitrary state; `step st key x` is one run of its user code.
    `usesKey`: its first parameter is `key` (it is bound to the key input as well).
    `unchecked`: its validity gate is explicitly empty (`InputValidity::Unchecked`). -/
structure Branch (σ : Type) where
  name : String
  usesKey : Bool
  unchecked : Bool
  init : σ
  step : σ → Int → Int → σ × List Op

structure Cfg (σ : Type) where
  cases : List (Int × Branch σ)
  dflt : Option (Branch σ)
  reload : Bool                     -- `reload_on_ticked`

variable {σ : Type}

/-- `select_branch` -/
def select (cfg : Cfg σ) (k : Int) : Option (Branch σ) :=
  match cfg.cases.find? (fun c => c.1 == k) with
  | some c => some c.2
  | none => cfg.dflt

/-- the running child graph.  `pub` is a ghost: the operations this instance has published since it
    was activated; nothing reads it. -/
structure Active (σ : Type) where
  key : Int                         -- `active_key`
  br : Branch σ                     -- `active_spec`
  st : σ
  gen : Nat                         -- ordinal of the start
  fresh : Bool                      -- activated in this cycle (boundary bound sampled)
  pub : List Op

inductive Event where
  | start (gen : Nat) (name : String)
  | stop (gen : Nat)
deriving Repr, DecidableEq

structure SW (σ : Type) where
  active : Option (Active σ) := none
  out : Coll := {}                  -- the switch-owned output
  xval : Option Int := none         -- the held input `x`
  nextGen : Nat := 0
  dead : Bool := false              -- the run failed

structure CycIn where
  key : Option Int := none          -- the key ticked with this value
  x : Option Int := none            -- `x` ticked with this value
deriving Repr, DecidableEq

structure CycOut (σ : Type) where
  sw : SW σ
  events : List Event
  err : Bool

/-- a newly built instance of `b` -/
def newInst (b : Branch σ) (k : Int) (g : Nat) : Active σ :=
  { key := k, br := b, st := b.init, gen := g, fresh := true, pub := [] }

/-- `activate_branch` (ordinary output path): `switch_teardown` of the running child -- stop, then
    `reset_switch_output` (a written output is cleared, a never-written one is left alone) -- whatever spec
    the new instance is built from; then build and start. -/
def activate (s : SW σ) (now : Time) (k : Int) (b : Branch σ) : SW σ × List Event :=
  let g := s.nextGen + 1
  match s.active with
  | some a =>
    ({ s with active := some (newInst b k g), out := s.out.reset now, nextGen := g }, [.stop a.gen, .start g b.name])
  | none => ({ s with active := some (newInst b k g), nextGen := g }, [.start g b.name])

/-- `!active_slot || reload_on_ticked || !same_key` -/
def needsSwitch (cfg : Cfg σ) (s : SW σ) (k : Int) : Bool :=
  match s.active with
  | none => true
  | some a => cfg.reload || a.key != k

/-- the key part of `switch_evaluate`; third component: the run fails -/
def keyPhase (cfg : Cfg σ) (s : SW σ) (now : Time) : Option Int → SW σ × List Event × Bool
  | none => (s, [], false)
  | some k =>
    if needsSwitch cfg s k then
      match select cfg k with
      | none => ({ s with dead := true }, [], true)
      | some b => ((activate s now k b).1, (activate s now k b).2, false)
    else (s, [], false)

/-- is the child's node evaluated in this cycle: scheduled (sampled boundary in the first cycle, a
    ticking bound input later) and the validity gate passes -/
def instDue (a : Active σ) (xvalid xTicked keyTicked : Bool) : Bool :=
  (a.fresh || xTicked || (a.br.usesKey && keyTicked)) && (a.br.unchecked || xvalid)

/-- one evaluation of the running instance -/
def instStep (a : Active σ) (xval : Option Int) (xTicked keyTicked : Bool) : Active σ × List Op :=
  if instDue a xval.isSome xTicked keyTicked then
    let r := a.br.step a.st a.key (xval.getD 0)
    ({ a with st := r.1, fresh := false, pub := a.pub ++ r.2 }, r.2)
  else ({ a with fresh := false }, [])

/-- evaluation of the active child graph: its operations go into the switch-owned output -/
def evalPhase (s : SW σ) (now : Time) (xTicked keyTicked : Bool) : SW σ :=
  match s.active with
  | none => s
  | some a =>
    let r := instStep a s.xval xTicked keyTicked
    { s with active := some r.1, out := s.out.applyAll now r.2 }

def holdX (s : SW σ) (x : Option Int) : SW σ :=
  match x with
  | some v => { s with xval := some v }
  | none => s

/-- one engine cycle at time `now` -/
def cycle (cfg : Cfg σ) (s : SW σ) (now : Time) (c : CycIn) : CycOut σ :=
  if s.dead then ⟨s, [], false⟩ else
  let r := keyPhase cfg (holdX s c.x) now c.key
  if r.2.2 then ⟨r.1, r.2.1, true⟩
  else ⟨evalPhase r.1 now c.x.isSome c.key.isSome, r.2.1, false⟩

/-- the cycles of a history run at consecutive times from `now` -/
def runFrom (cfg : Cfg σ) (s : SW σ) (now : Time) : List CycIn → SW σ
  | [] => s
  | c :: rest => runFrom cfg (cycle cfg s now c).sw (now + 1) rest

def run (cfg : Cfg σ) (hist : List CycIn) : SW σ := runFrom cfg {} 1 hist

/-! ### the node with the pre-repair reset rule (`Coll.resetPre`), kept as a regression witness -/

def activatePre (s : SW σ) (now : Time) (k : Int) (b : Branch σ) : SW σ × List Event :=
  let g := s.nextGen + 1
  match s.active with
  | some a =>
    ({ s with active := some (newInst b k g), out := s.out.resetPre now, nextGen := g }, [.stop a.gen, .start g b.name])
  | none => ({ s with active := some (newInst b k g), nextGen := g }, [.start g b.name])

def keyPhasePre (cfg : Cfg σ) (s : SW σ) (now : Time) : Option Int → SW σ × List Event × Bool
  | none => (s, [], false)
  | some k =>
    if needsSwitch cfg s k then
      match select cfg k with
      | none => ({ s with dead := true }, [], true)
      | some b => ((activatePre s now k b).1, (activatePre s now k b).2, false)
    else (s, [], false)

def cyclePre (cfg : Cfg σ) (s : SW σ) (now : Time) (c : CycIn) : CycOut σ :=
  if s.dead then ⟨s, [], false⟩ else
  let r := keyPhasePre cfg (holdX s c.x) now c.key
  if r.2.2 then ⟨r.1, r.2.1, true⟩
  else ⟨evalPhase r.1 now c.x.isSome c.key.isSome, r.2.1, false⟩

def runFromPre (cfg : Cfg σ) (s : SW σ) (now : Time) : List CycIn → SW σ
  | [] => s
  | c :: rest => runFromPre cfg (cyclePre cfg s now c).sw (now + 1) rest

def runPre (cfg : Cfg σ) (hist : List CycIn) : SW σ := runFromPre cfg {} 1 hist

/-- stop of the switch node (`switch_node_stop`: teardown without output reset) -/
def shutdown (s : SW σ) : List Event :=
  match s.active with
  | some a => [.stop a.gen]
  | none => []

end HgVerif.SwitchColl
