import HgVerif.Model.Extracted
/-!
Ties between the comparison operators the hand-written models use and the ones the translator
(`tools/extract.py`) reads out of /repo's sources on every run.  Each `tie_*` theorem is a proof
obligation: when a decision point in the code changes, `Extracted.lean` is regenerated with the new
operator, the tie no longer checks, and `./check` goes looking for a failing input.
-/
namespace HgVerif.Tie
open HgVerif.Extracted

/-- `NodeScheduler::schedule`: a started node may only schedule strictly in the future -/
theorem tie_nsStartedGuard : nsStartedGuard = .le := rfl
/-- … during `start` the current time is still admitted -/
theorem tie_nsStartGuard : nsStartGuard = .lt := rfl
/-- the graph is re-armed only when the earliest pending time moved earlier -/
theorem tie_nsPushGuard : nsPushGuard = .lt := rfl
/-- `advance` consumes events with `time <= now` -/
theorem tie_nsAdvanceGuard : nsAdvanceGuard = .le := rfl

/-- `schedule_node_impl`: `scheduled <= current || when < scheduled` -/
theorem tie_slotConsumed : slotConsumed = .le := rfl
theorem tie_slotEarlier : slotEarlier = .lt := rfl
/-- … `when > current && when < next_scheduled_time` -/
theorem tie_cacheFuture : cacheFuture = .gt := rfl
theorem tie_cacheEarlier : cacheEarlier = .lt := rfl
/-- `start_impl` cache seed: `scheduled >= evaluation_time` -/
theorem tie_startFoldFrom : startFoldFrom = .ge := rfl
/-- `evaluate_impl` scan: runs when `scheduled == evaluation_time`, folds `scheduled > evaluation_time` -/
theorem tie_scanRunsWhen : scanRunsWhen = .eq := rfl
theorem tie_scanFoldFuture : scanFoldFuture = .gt := rfl

/-- `evaluate_impl`: a graph evaluation that failed is never taken for a paused one (F1 repaired) -/
theorem tie_resumeChecksFailed : resumeChecksFailed = true := rfl

/-- `evaluate_impl`: both failure handlers of the node scan call `keep_unvisited_wakeups`, which folds
    `pending > evaluation_time && pending < next_scheduled_time` over the nodes after the cursor (F5 repaired) -/
theorem tie_failKeepsWakeups : failKeepsWakeups = true := rfl
theorem tie_keepFuture : keepFuture = .gt := rfl
theorem tie_keepEarlier : keepEarlier = .lt := rfl

end HgVerif.Tie
