/-
A sub-graph whose terminal is a REF-producing node, exposed as a plain (dereferenced) result (C09 finding
"ref-terminal").  Same forwarding machinery as `Model/NestShape.lean` (see there for the code references), generalised
to SEVERAL terminals: level 0 is the from-REF alternative of the REF output (a target link that follows the published
reference: `alternative.cpp bind_target_link_at` -> same-target dedup, else `bind_current_value`: tick when the new
referent has a value), levels `1..D` are the nested nodes' forwarding outputs.  `bind_forwarding_output_tree_to_source`
adapts the terminal's root REF to that alternative and then RESOLVES it (`resolve_forwarding_source` walks through the
bound alternative), so a nested level is bound to the alternative's CURRENT referent - before the child graph (and with
it the REF node) is evaluated.  The inlined reading is level 0 itself (the consumer's input is bound to the
alternative).  Core Lean only.
-/
namespace HgVerif.NestRef

inductive Tgt where
  | none
  | ep (j : Nat)
  | term (i : Nat)        -- one of the outputs the reference can point at
deriving DecidableEq, Repr

structure Link where
  tgt : Tgt := .none
  lastMod : Nat := 0

structure Term where
  val : Option Int := none
  lastMod : Nat := 0

structure Chain where
  links : Nat → Link := fun _ => {}
  terms : Nat → Term := fun _ => {}

def recordTime (old t : Nat) : Nat := if old < t then t else old

def setLink (c : Chain) (k : Nat) (l : Link) : Chain :=
  { c with links := fun j => if j = k then l else c.links j }

def resolveSrc (c : Chain) : Nat → Nat → Tgt
  | 0, j => .ep j
  | fuel + 1, j =>
    match (c.links j).tgt with
    | .none => .ep j
    | .term i => .term i
    | .ep j' => resolveSrc c fuel j'

def tgtLastMod (c : Chain) : Tgt → Nat
  | .none => 0
  | .ep j => (c.links j).lastMod
  | .term i => (c.terms i).lastMod

def fired (t : Nat) (c0 c : Chain) : Tgt → Bool
  | .none => false
  | .term i => decide ((c0.terms i).lastMod < t) && (c.terms i).lastMod == t
  | .ep j => decide ((c0.links j).lastMod < t) && (c.links j).lastMod == t

def stepLevel (t : Nat) (c0 : Chain) (k : Nat) (c : Chain) : Chain :=
  if fired t c0 c (c.links k).tgt && decide ((c.links k).lastMod < t) then setLink c k { c.links k with lastMod := t } else c

def propagate (t : Nat) (c0 : Chain) : Nat → Chain → Chain
  | 0, c => c
  | m + 1, c => stepLevel t c0 m (propagate t c0 m c)

def recordLink (D t k : Nat) (c : Chain) : Chain :=
  let l := c.links k
  propagate t c (D + 1) (setLink c k { l with lastMod := recordTime l.lastMod t })

/-- the producer of terminal `i` sets it at time `t` -/
def writeTerm (D t i : Nat) (v : Int) (c : Chain) : Chain :=
  propagate t c (D + 1)
    { c with terms := fun j => if j = i then { val := some v, lastMod := recordTime (c.terms i).lastMod t } else c.terms j }

/-- plain leaf bind of level `k >= 1`: the source (the level below; level 0 = the REF's alternative) is resolved through
    every bound endpoint -/
def bindLeaf (D t k : Nat) (c : Chain) : Chain :=
  let src := resolveSrc c k (k - 1)
  let l := c.links k
  if l.tgt = src then c else
  let c1 := setLink c k { l with tgt := src }
  let c2 := if tgtLastMod c src ≠ 0 then recordLink D (tgtLastMod c src) k c1 else c1
  if t ≠ 0 ∧ l.tgt ≠ .none then recordLink D t k c2 else c2

def bindLevels (D t : Nat) : Nat → Chain → Chain
  | 0, c => c
  | k + 1, c => bindLevels D t k (bindLeaf D t (k + 1) c)

/-- the REF node publishes a reference to terminal `i`: the alternative follows it -/
def retarget (D t i : Nat) (c : Chain) : Chain :=
  let l := c.links 0
  if l.tgt = .term i then c else
  let c1 := setLink c 0 { l with tgt := .term i }
  if (c.terms i).val.isSome then recordLink D t 0 c1 else c1

def start (D t0 : Nat) : Chain := bindLevels D t0 D {}

/-- one engine cycle: the outer producers write (`ws`: terminal, value), then - when the nested nodes are evaluated -
    every level re-binds (outermost first) and the child runs the REF node, which may publish a new referent -/
structure Cycle where
  t : Nat
  ws : List (Nat × Int)
  pick : Option Nat

def cycle (D : Nat) (cy : Cycle) (c : Chain) : Chain :=
  let c1 := cy.ws.foldl (fun c w => writeTerm D cy.t w.1 w.2 c) c
  let c2 := bindLevels D cy.t D c1
  match cy.pick with
  | some i => retarget D cy.t i c2
  | none => c2

def run (D t0 : Nat) (h : List Cycle) : Chain := h.foldl (fun c cy => cycle D cy c) (start D t0)

def outerMod (D t : Nat) (c : Chain) : Bool := (c.links D).lastMod == t

def outerVal (D : Nat) (c : Chain) : Option Int :=
  match resolveSrc c (D + 1) D with
  | .term i => (c.terms i).val
  | _ => none

def outerDelta (D t : Nat) (c : Chain) : Option Int := if outerMod D t c then outerVal D c else none

def outerGhost (D t : Nat) (c : Chain) : Bool := outerMod D t c && (outerVal D c).isNone

end HgVerif.NestRef
