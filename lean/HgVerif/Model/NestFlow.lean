import HgVerif.Model.Nested
import HgVerif.Model.Flow
/-
A dataflow program executed as a CHAIN OF NESTED GRAPHS, by the same definitions as the code model:
every graph of the chain runs `Sched.cycle` (`evaluate_impl`) over its own positions and its own
schedule `G`; the position of a nested node runs the child graph's `cycle` and then pull-propagates
(`propagate_nested_parent_schedule`, `Nest.eval`); a write of a node that a node of a deeper graph
subscribes to goes through `nested_schedule_node_impl` on that graph (`Nest.push`, with the clamp, the
cache lowering and the recursion up to the graph that is currently evaluating); a write inside a
child that an outer node subscribes to schedules that node in ITS graph for this cycle.

The sub-graph definition is given once, as a flat `Flow S` over global node ids (`Model/Flow.lean`):
the inlined program is `F` itself; the nested wirings carve a suffix of the id space out as the child
graph (`Tree`):  `node hi rk child` at lower bound `lo` is a graph whose ordinary nodes are the ids
`[lo, hi)` and which holds ONE nested node whose child graph owns the ids `[hi, F.n)`; `leaf rk` is a
flat graph owning `[lo, F.n)`.  The boundary is by binding, not by copy (`nested_bindings.h`): a child
node reads the global state at the outer producer's id directly, and an outer consumer reads the
child's output node directly — exactly the edges of `F`.  Depth 1 ("parent with one nested node whose
child is flat") is `Tree.node c ρp (Tree.leaf ρc)`.

Node functions, `selfReq` and states are arbitrary (as in `Flow`).  Core Lean only.
-/
namespace HgVerif.NestFlow
open HgVerif.Sched HgVerif.Flow

/-- a rank as raw data: position → local node id and back (validity is a hypothesis of the theorems) -/
structure Rk where
  node : Nat → Nat
  posOf : Nat → Nat

def Rk.ofRank {n : Nat} (ρ : Rank n) : Rk := ⟨ρ.node, ρ.posOf⟩

/-- a chain of nested graphs over the ids of one flow.  Local ids of a graph at lower bound `lo` are
    `id - lo`; in `node hi rk child` the nested node has local id `hi - lo` (the last one). -/
inductive Tree where
  | leaf (rk : Rk)
  | node (hi : Nat) (rk : Rk) (child : Tree)

/-- `node_count` of the graph described by a tree at lower bound `lo`, for a flow of `n` nodes -/
def Tree.size (n : Nat) : Tree → Nat → Nat
  | .leaf _, lo => n - lo
  | .node hi _ _, lo => hi - lo + 1

def Tree.depth : Tree → Nat
  | .leaf _ => 0
  | .node _ _ ch => ch.depth + 1

/-- what a graph's node evaluation works on: the node states (global, shared through the bindings), the
    schedules of the graphs nested below this one (nearest first), the notifications that leave this
    graph upwards, and two ghost logs -/
structure CSt (S : Type) where
  σ : Nat → S
  gs : List G := []
  /-- consumers OUTSIDE this graph (ids) that a write inside it notified: each is scheduled in its own
      graph for this cycle by the level that owns it -/
  up : List Nat := []
  /-- ghost: the nodes whose user code ran, in order -/
  fl : List Nat := []
  /-- ghost: the nodes that wrote (latest first) -/
  wl : List Nat := []

def dG : G := { slots := [] }

/-- the child graph's schedule and the schedules below it -/
def sub (gs : List G) : G × List G := (gs.headD dG, gs.tail)

/-- the child part of `nested_schedule_node_impl` on a started, idle child whose parent graph's
    `evaluation_time` is `pnow`: clamp, `schedule_node_impl`, lower the cached next time.
    (`Nest.push s j w = { s with gc := pushC s.gp.now s.gc j w, gp := scheduleNode s.gp ⟨s.k, max w s.gp.now⟩ }`.) -/
def pushC (pnow : Time) (gc : G) (j : Nat) (w : Time) : G :=
  let w' := max w pnow
  let gc1 := scheduleNode gc ⟨j, w'⟩
  if olt w' gc1.next then { gc1 with next := some w' } else gc1

/-- `nested_schedule_node_impl` reaching node `i` of the (idle) graph `T` at lower bound `lo`, whose
    parent graph's time is `pnow`: if `i` lives in a deeper graph the call is made there (clamped to THIS
    graph's time) and that graph's implementation forwards `parent.graph().schedule_node(k, w')` to this
    graph — again `nested_schedule_node_impl`.  The last forward, to the graph that is evaluating, is a
    plain request of the evaluating node (`behT`). -/
def pushT : Tree → Nat → Time → G × List G → Nat → Time → G × List G
  | .leaf rk, lo, pnow, x, i, w => (pushC pnow x.1 (rk.posOf (i - lo)) w, x.2)
  | .node hi rk ch, lo, pnow, x, i, w =>
    if i < hi then (pushC pnow x.1 (rk.posOf (i - lo)) w, x.2)
    else
      let xc := pushT ch hi x.1.now (sub x.2) i w
      (pushC pnow x.1 (rk.posOf (hi - lo)) (max w x.1.now), xc.1 :: xc.2)

/-- `propagate_nested_parent_schedule` at the end of the child's `evaluate_impl`: the request the nested node
    (position `q`) makes for itself — none if the child has nothing pending (`MAX_DT`) or did not complete -/
def propagate (q : Nat) (next : Option Time) (ok : Bool) : List Req :=
  match next with
  | some nx => if ok then [(⟨q, nx⟩ : Req)] else []
  | none => []

/-- the node evaluations of the graph `T` at lower bound `lo`.
    * an ordinary node runs its user code; if it wrote, its consumers are notified for this cycle: those
      of this graph by `schedule_node` (a request), those in the nested child through `pushT` (which
      also wakes the nested node here at the clamped time `max t t`), those further out are handed
      upwards; then it re-arms itself.
    * the nested node (`Nest.eval`): a `cycle` of the child graph at the same time; the notifications
      that left the child are delivered (own nodes: requests for this cycle; others: upwards); the
      nested node's slot is re-armed at the child's cached next time — only if the child completed. -/
def behT {S : Type} (F : Flow S) (fx : Bool) : Tree → Nat → Beh (CSt S)
  | .leaf rk, lo =>
    ⟨fun q t u =>
      let i := lo + rk.node q
      let r := F.f i u.σ t
      let cons := if r.2 then consumers F i else []
      { st := { u with σ := upd u.σ i r.1, up := u.up ++ cons.filter (fun c => decide (c < lo)),
                       fl := u.fl ++ [i], wl := if r.2 then i :: u.wl else u.wl },
        reqs := (cons.filter (fun c => decide (lo ≤ c))).map (fun c => (⟨rk.posOf (c - lo), t⟩ : Req)) ++
                (F.selfReq i r.1 t).map (fun T => (⟨q, T⟩ : Req)) }⟩
  | .node hi rk ch, lo =>
    ⟨fun q t u =>
      if q = rk.posOf (hi - lo) then
        let r := cycle fx (behT F fx ch hi) (ch.size F.n hi) t (sub u.gs).1
                   { u with gs := (sub u.gs).2, up := [] }
        { st := { r.st with gs := r.g :: r.st.gs, up := u.up ++ r.st.up.filter (fun c => decide (c < lo)) },
          reqs := (r.st.up.filter (fun c => decide (lo ≤ c))).map (fun c => (⟨rk.posOf (c - lo), t⟩ : Req)) ++
                  propagate q r.g.next r.ok,
          ok := r.ok }
      else
        let i := lo + rk.node q
        let r := F.f i u.σ t
        let cons := if r.2 then consumers F i else []
        let deep := cons.filter (fun c => decide (hi ≤ c))
        let xc := deep.foldl (fun x c => pushT ch hi t x c t) (sub u.gs)
        { st := { σ := upd u.σ i r.1, gs := xc.1 :: xc.2,
                  up := u.up ++ cons.filter (fun c => decide (c < lo)),
                  fl := u.fl ++ [i], wl := if r.2 then i :: u.wl else u.wl },
          reqs := (cons.filter (fun c => decide (lo ≤ c ∧ c < hi))).map (fun c => (⟨rk.posOf (c - lo), t⟩ : Req)) ++
                  deep.map (fun _ => (⟨rk.posOf (hi - lo), max t t⟩ : Req)) ++
                  (F.selfReq i r.1 t).map (fun T => (⟨q, T⟩ : Req)) }⟩

/-- the rank of the inlined program that keeps every child graph's nodes together at the position of
    its nested node (any other topological rank gives the same runs: `run_rank_independent`) -/
def flatRk (n : Nat) : Tree → Nat → Rk
  | .leaf rk, _ => rk
  | .node hi rk ch, lo =>
    let nO := hi - lo
    let k := rk.posOf nO
    let m := n - hi
    let rc := flatRk n ch hi
    { node := fun q => if q < k then rk.node q else if q < k + m then nO + rc.node (q - k) else rk.node (q + 1 - m),
      posOf := fun i => if i < nO then (if rk.posOf i < k then rk.posOf i else rk.posOf i + m - 1)
                        else k + rc.posOf (i - nO) }

/-! ### depth 1: a parent dataflow with ONE nested node whose child is a flat dataflow -/

/-- outer nodes `[0, c)`, the nested node (parent-local id `c`), child nodes `[c, F.n)` -/
def nest1 (c : Nat) (ρp ρc : Rk) : Tree := .node c ρp (.leaf ρc)

/-- one `evaluate_impl` of the root graph of a nesting -/
def cycleT {S : Type} (F : Flow S) (fx : Bool) (T : Tree) (t : Time) (g : G) (u : CSt S) : ScanRes (CSt S) :=
  cycle fx (behT F fx T 0) (T.size F.n 0) t g u

/-- the simulation loop of the root graph of a nesting -/
def simT {S : Type} (F : Flow S) (fx : Bool) (T : Tree) (endT : Time) (fuel : Nat) (g : G) (u : CSt S) (ts : List Time) :
    RunRes (CSt S) :=
  simLoop fx (behT F fx T 0) (T.size F.n 0) endT fuel g u ts

end HgVerif.NestFlow
