import HgVerif.Model.InternKey
/-!
Node interning INSIDE a compiled sub-graph body (C06; `src/hgraph/types/graph_wiring.cpp`: `SourceKey`,
`InstanceKeyHash::hash_source`, `source_key_for`, `Wiring::capture_outer_source`, `Wiring::add_node`).

A body (the compose function of `nested_<G>`, `try_except_<G>`, a `map_` / `switch_` child) is wired against a fresh child
`Wiring`.  Its declared `Port` parameters are BOUNDARY sources (`WiringPortRef::boundary_source(arg_index, path, schema)`), a
port of the enclosing wiring imported through `context::get` / a `Context<>` input is a CAPTURED boundary source
(`captured_boundary_source(capture_index, path, schema)`), where `capture_index` is the LOCAL index handed out by
`capture_outer_source`: the position of the outer port in `impl_->captured_inputs`, numbered from 0 in the order of first
import.  The offset past the declared arguments is applied only in `finish_subgraph`
(`OuterCaptureCollector::boundary_ordinal = base_index + capture_index`).

`source_key_for` copies into the `SourceKey` of an input

* peered source (output of a node of this wiring): `kind = Peered`, `peered_node`, `peered_path` (+ output kind),
* boundary source: `kind = Boundary`, `peered_node = nullptr`, `boundary_arg` = the declared argument index OR the local
  capture index, `boundary_path`, `captured_boundary` = which of the two numberings `boundary_arg` belongs to,

and every `InputKey` adds the slot (`target_path = {slot}`).  `SAttr` is that record without the `peered_node` pointer; the
pointer is the `Nat` next to it in `InternKey.Key` (the generic statement machinery of `Model/InternKey.lean`): node id 0 is
the null instance (declared first by `nullDecl`, label `none`), real instances are numbered from 1.  Schema, output kind,
rank flag and passive marker are the same for every input of the programs modelled here (all leaves are `TS<Int>`, plain
usages) and are left out.

The model of one statement order is `wireL {} (nullDecl :: transK π caps₀ ds)`: every statement first imports its captured
inputs, left to right (`captureIns`), then asks `Wiring::add_node` (`InternKey.step` = `Intern.addNode` on the resolved key)
with the key built against the capture table of that moment.  `π` is what the key records of an `SAttr`: `π = id` is the
code; `forgetKind` is the key without `captured_boundary`.

`PAttr` / `toP` is the order-free reading of the same statement: a captured input is named by the OUTER PORT, not by its
local index.  Core Lean only.
-/
namespace HgVerif.BodyKey
open HgVerif.Intern HgVerif.InternKey

/-- a source as written in a body; `path` = element / field projections (`tsl_element`, `tsb_field`) -/
inductive Src (Λ P : Type) where
  | arg (k : Nat) (path : List Nat)      -- declared argument #k
  | cap (p : P) (path : List Nat)        -- the outer port `p` of the enclosing wiring (context::get)
  | out (l : Λ) (path : List Nat)        -- the output of the declaration labelled `l`
  deriving DecidableEq

/-- one statement of a body: `lbl = defn(ins…)`; `defn` = definition + scalars -/
structure BDecl (Λ δ P : Type) where
  lbl : Λ
  defn : δ
  ins : List (Src Λ P)
  sink : Bool := false

/-- `SourceKey` + `InputKey::target_path` as coded, without the `peered_node` pointer -/
structure SAttr where
  slot : Nat
  kind : Nat                          -- `SourceKind`: 2 Peered, 4 Boundary
  peeredPath : List Nat := []
  boundaryArg : Option Nat := none    -- `static_cast<size_t>(-1)` when the source is not a boundary source
  boundaryPath : List Nat := []
  captured : Bool := false            -- `captured_boundary`
  deriving DecidableEq, Repr

/-- what a statement says about one input, independent of the statement order: a captured input by its OUTER PORT -/
inductive PAttr (P : Type) where
  | arg (slot k : Nat) (path : List Nat)
  | cap (slot : Nat) (p : P) (path : List Nat)
  | out (slot : Nat) (path : List Nat)
  deriving DecidableEq

variable {Λ δ P : Type}

/-- `source_key_for` against the capture table `caps` -/
def loc [DecidableEq P] (caps : List P) : PAttr P → SAttr
  | .arg slot k path => { slot := slot, kind := 4, boundaryArg := some k, boundaryPath := path, captured := false }
  | .cap slot p path => { slot := slot, kind := 4, boundaryArg := some (caps.idxOf p), boundaryPath := path, captured := true }
  | .out slot path => { slot := slot, kind := 2, peeredPath := path }

/-- the variant key of seed s111: `captured_boundary` is not part of `SourceKey` -/
def forgetKind (a : SAttr) : SAttr := { a with captured := false }

/-- the inputs of a statement, slot by slot: producer label (`none`: no producer node, a boundary source) + attribute -/
def entries : Nat → List (Src Λ P) → List (Option Λ × PAttr P)
  | _, [] => []
  | n, .arg k path :: r => (none, .arg n k path) :: entries (n + 1) r
  | n, .cap p path :: r => (none, .cap n p path) :: entries (n + 1) r
  | n, .out l path :: r => (some l, .out n path) :: entries (n + 1) r

/-- the statement for the generic machinery, order-free attributes -/
def toP (d : BDecl Λ δ P) : LDecl (Option Λ) (Option δ) (PAttr P) :=
  { lbl := some d.lbl, defn := some d.defn, ins := entries 0 d.ins, sink := d.sink }

def mapAttr {Λ' δ' α β : Type} (g : α → β) (d : LDecl Λ' δ' α) : LDecl Λ' δ' β :=
  { lbl := d.lbl, defn := d.defn, ins := d.ins.map fun p => (p.1, g p.2), sink := d.sink }

/-- the statement as `Wiring::add_node` sees it when the capture table is `caps` and the key records `π` of every source -/
def toK {κ : Type} [DecidableEq P] (π : SAttr → κ) (caps : List P) (d : BDecl Λ δ P) : LDecl (Option Λ) (Option δ) κ :=
  mapAttr (fun a => π (loc caps a)) (toP d)

/-- the null `WiringInstance*`: node 0, the `peered_node` of every boundary source -/
def nullDecl {α : Type} : LDecl (Option Λ) (Option δ) α := { lbl := none, defn := none, ins := [], sink := false }

/-- `Wiring::capture_outer_source`: an already captured port keeps its index, a new one is appended -/
def capture [DecidableEq P] (caps : List P) (p : P) : List P := if p ∈ caps then caps else caps ++ [p]

/-- the imports of one statement, input by input from the left -/
def captureIns [DecidableEq P] : List P → List (Src Λ P) → List P
  | caps, [] => caps
  | caps, .cap p _ :: r => captureIns (capture caps p) r
  | caps, .arg _ _ :: r => captureIns caps r
  | caps, .out _ _ :: r => captureIns caps r

/-- the capture table after the imports `pre` at the top of the body -/
def capsOfPre [DecidableEq P] (pre : List P) : List P := pre.foldl capture []

/-- the capture table when the body is finished (`impl_->captured_inputs` in `finish_subgraph`) -/
def finalCaps [DecidableEq P] : List P → List (BDecl Λ δ P) → List P
  | caps, [] => caps
  | caps, d :: r => finalCaps (captureIns caps d.ins) r

/-- the statements as `Wiring::add_node` sees them, one after the other, each against the capture table of its moment -/
def transK {κ : Type} [DecidableEq P] (π : SAttr → κ) : List P → List (BDecl Λ δ P) → List (LDecl (Option Λ) (Option δ) κ)
  | _, [] => []
  | caps, d :: r => toK π (captureIns caps d.ins) d :: transK π (captureIns caps d.ins) r

/-- one statement order of a body, wired: interning table + label ↦ node -/
def wireK {κ : Type} [DecidableEq Λ] [DecidableEq δ] [DecidableEq P] [DecidableEq κ] (π : SAttr → κ) (pre : List P)
    (ds : List (BDecl Λ δ P)) : LSt (Option Λ) (Option δ) κ :=
  wireL {} (nullDecl :: transK π (capsOfPre pre) ds)

/-- the code: the whole `SourceKey` is in the key -/
def wireB [DecidableEq Λ] [DecidableEq δ] [DecidableEq P] (pre : List P) (ds : List (BDecl Λ δ P)) :
    LSt (Option Λ) (Option δ) SAttr := wireK id pre ds

/-- the order-free reading: the expression tree of every label, captured inputs by outer port -/
def specTrees [DecidableEq Λ] (ds : List (BDecl Λ δ P)) : List (Option Λ × Tree (Option δ) (PAttr P)) :=
  semL [] (nullDecl :: ds.map toP)

/-- admissible statement order: every `out l` names a value declaration wired earlier (`BAdmU`: value labels pairwise
    different) -/
def BAdm (ds : List (BDecl Λ δ P)) : Prop := Adm [] ((nullDecl : LDecl (Option Λ) (Option δ) (PAttr P)) :: ds.map toP)
def BAdmU (ds : List (BDecl Λ δ P)) : Prop := AdmU [] ((nullDecl : LDecl (Option Λ) (Option δ) (PAttr P)) :: ds.map toP)

/-! ### what the built nodes compute

`σ` = what a port carries over a run (a stream).  A node computes `alg defn` of what the nodes its inputs RESOLVE to carry -
so a node that was handed out for a declaration with other inputs computes the wrong thing.  Generic in the statement
machinery; `obs` lists for every declaration what its port carries / what the recorder (a sink) sees. -/

structure VSt (Λ' δ' α σ : Type) where
  ls : LSt Λ' δ' α := {}
  vals : List (Nat × σ) := []                 -- node ↦ what its output carries
  obs : List (LDecl Λ' δ' α × σ) := []        -- declaration ↦ what its port carries (sink: what it sees)

section values
variable {Λ' δ' α σ : Type} [DecidableEq Λ'] [DecidableEq δ'] [DecidableEq α]

/-- the value computed from the resolved inputs -/
def nodeVal (alg : δ' → List (σ × α) → σ) (dflt : σ) (vals : List (Nat × σ)) (f : δ') (rins : List (Nat × α)) : σ :=
  alg f (rins.map fun q => ((get vals q.1).getD dflt, q.2))

def stepV (alg : δ' → List (σ × α) → σ) (dflt : σ) (s : VSt Λ' δ' α σ) (d : LDecl Λ' δ' α) : VSt Λ' δ' α σ :=
  let rins := resolve s.ls.env d.ins
  let v := nodeVal alg dflt s.vals d.defn rins
  let r := step s.ls d
  let vals := if d.sink then s.vals else
    match lookup s.ls.st.tbl (d.defn, rins) with
    | some _ => s.vals
    | none => (s.ls.st.next, v) :: s.vals
  { ls := r.1, vals := vals, obs := s.obs ++ [(d, if d.sink then v else (get vals r.2).getD dflt)] }

def wireV (alg : δ' → List (σ × α) → σ) (dflt : σ) : VSt Λ' δ' α σ → List (LDecl Λ' δ' α) → VSt Λ' δ' α σ
  | s, [] => s
  | s, d :: rest => wireV alg dflt (stepV alg dflt s d) rest

/-- the order-free reading of the values: `label ↦ alg defn (values of the input labels)` -/
def valIns (sv : List (Λ' × σ)) (dflt : σ) (ins : List (Λ' × α)) : List (σ × α) :=
  ins.map fun p => ((get sv p.1).getD dflt, p.2)

def valOf (alg : δ' → List (σ × α) → σ) (dflt : σ) (sv : List (Λ' × σ)) (d : LDecl Λ' δ' α) : σ :=
  alg d.defn (valIns sv dflt d.ins)

def semVStep (alg : δ' → List (σ × α) → σ) (dflt : σ) (sv : List (Λ' × σ)) (d : LDecl Λ' δ' α) : List (Λ' × σ) :=
  if d.sink then sv else (d.lbl, valOf alg dflt sv d) :: sv

def semV (alg : δ' → List (σ × α) → σ) (dflt : σ) : List (Λ' × σ) → List (LDecl Λ' δ' α) → List (Λ' × σ)
  | sv, [] => sv
  | sv, d :: rest => semV alg dflt (semVStep alg dflt sv d) rest

end values

/-! ### the algebra of a body: what a source carries

`fn` = the node functions; `argV k path` / `capV p path` = what the parent feeds into declared argument #k / what the outer
port `p` carries (below `path`).  `algP` reads the order-free attributes.  `algC caps` reads the attributes as coded: a
captured boundary source with local index `i` is bound by `finish_subgraph` / the nested node to `captured_inputs[i]`. -/

structure Feeds (δ P σ : Type) where
  fn : δ → List σ → σ
  argV : Nat → List Nat → σ
  capV : P → List Nat → σ
  proj : σ → List Nat → σ := fun v _ => v
  none : σ

/-- what a source carries, read from the statement as written -/
def readP {σ : Type} (F : Feeds δ P σ) (v : σ) : PAttr P → σ
  | .arg _ k path => F.argV k path
  | .cap _ p path => F.capV p path
  | .out _ path => F.proj v path

def algP {σ : Type} (F : Feeds δ P σ) : Option δ → List (σ × PAttr P) → σ
  | Option.none, _ => F.none
  | some f, ins => F.fn f (ins.map fun q => readP F q.1 q.2)

/-- what a source carries, read from the key attributes as coded -/
def readC {σ : Type} (F : Feeds δ P σ) (caps : List P) (v : σ) (a : SAttr) : σ :=
  if a.kind = 2 then F.proj v a.peeredPath
  else match a.boundaryArg with
    | Option.none => F.none
    | some i =>
      if a.captured then (match caps[i]? with | some p => F.capV p a.boundaryPath | Option.none => F.none)
      else F.argV i a.boundaryPath

def algC {σ : Type} (F : Feeds δ P σ) (caps : List P) : Option δ → List (σ × SAttr) → σ
  | Option.none, _ => F.none
  | some f, ins => F.fn f (ins.map fun q => readC F caps q.1 q.2)

/-- one statement order of a body, wired and evaluated: the interning as coded, every created node computing from what
    it is wired to, boundary sources bound through the final capture table -/
def runB {σ : Type} [DecidableEq Λ] [DecidableEq δ] [DecidableEq P] (F : Feeds δ P σ) (pre : List P)
    (ds : List (BDecl Λ δ P)) : VSt (Option Λ) (Option δ) SAttr σ :=
  wireV (algC F (finalCaps (capsOfPre pre) ds)) F.none {} (nullDecl :: transK id (capsOfPre pre) ds)

/-- the order-free values of a body -/
def specVals {σ : Type} [DecidableEq Λ] (F : Feeds δ P σ) (ds : List (BDecl Λ δ P)) : List (Option Λ × σ) :=
  semV (algP F) F.none [] (nullDecl :: ds.map toP)

end HgVerif.BodyKey
