/-
Model of the KEYED PUBLICATION of the associative `reduce` runtime node,
`src/hgraph/runtime/reduce_node.cpp`: `reduce_publication_ops_for`, `begin_direct_reduce_publication`,
`begin_keyed_reduce_publication`, `finish_reduce_publication`, and of what they call:
`bind_reduce_output` (`reduce_output_binding.h` -> `bind_forwarding_output_tree_to_source(…, sampled)`),
`reconcile_current_state` for a `TSS` target (`ts_delta.cpp`, `reconcile_set_impl`) and the per-cycle
delta bookkeeping of a `TSS` (`ts_data_slot_ops.cpp`, `TSSSlotStorage::insert_key / remove_key / touch`,
`set_view.cpp` `TSSDataMutationView::add / remove / clear / touch`).

A reduce node whose RESULT schema is `TSS` (or `TSD`) publishes "keyed": as long as the root of the
combiner tree keeps its identity the node's forwarding output simply aliases it ("direct"); the first
time the root changes identity while the old root holds a value, the old value is copied into a
node-owned SNAPSHOT output, the node's output is pointed at the snapshot for the rest of the node's
life, and at the end of every evaluation the snapshot is reconciled with the current root (full
comparison when the root changed in that cycle, the root's own delta otherwise), so that a re-shaped
tree yields the difference of the values, not a re-publication of the whole value.

What is modelled, as the code has it:

* `Cell`     — a `TSS` output with its delta of the current engine time: `add` of a key that was
               removed at this time un-removes it, `remove` of a key added at this time un-adds it, an
               `add` / `remove` that changes nothing still `touch`es (marks modified), `clear` touches
               and removes every key, `touch` marks modified (and valid).
* `SView`    — what the publication reads of a source output (the old root, the new root): bound,
               live (`valid() && has_current_value()`), value, modified at this time, its delta.
* `reconcileSet` — `reconcile_set_impl`: `should_visit_source`, the not-live branch (`clear`), the
               `Full` branch (remove `target \ source`, add `source \ target`, `sample_all` -> `touch`),
               the `Incremental` branch (the source's `removed()` then its `added()` not yet contained).
* `beginKeyed` — both branches of `begin_keyed_reduce_publication` incl. the snapshot being filled at
               `snapshot_time = previous.last_modified_time()`: when the old root was modified in this
               very cycle that IS the current time and the whole old value enters the snapshot's delta
               of this cycle (`fillSnapshot`); `bindDirect` — `bind_reduce_output` (sampled re-point).
* `finishPub` — `finish_reduce_publication`.
* `observe`  — what a consumer of the node's output sees in the cycle: validity, value, modified, delta
               (a sampled re-point to a valid source presents the whole value as added).
* `cycleK`   — ONE evaluation of the node: `ReduceInc.cycleG` (the structural storage, the combiner
               child graphs and their cached outputs; `Model/ReduceInc.lean`) with set union as the
               combiner, the identity of the published root, the views of the old and new root, `beginKeyed`
               when `rebuild_structure` ran, `finishPub`.

The set carrier is `List ε` read as a set (first-occurrence order is kept, never observed: the theorems
speak about membership, the driver prints sorted).  `unionL` is associative on the nose, which is all
`Props/C11Inc.lean` needs to make the cached root the fold over the live elements.

Core Lean only (no Mathlib): the driver runs these definitions.
-/
import HgVerif.Model.ReduceInc
set_option linter.unusedVariables false

namespace HgVerif.ReduceKeyed
open HgVerif.Reduce HgVerif.ReduceInc

/-! ## finite sets as lists -/

section Sets
variable {ε : Type} [DecidableEq ε]

/-- set union (first occurrences kept): the value `union_tss_binary` maintains in its output -/
def unionL (a b : List ε) : List ε := a ++ b.filter (fun x => !a.contains x)

/-- set difference `a \ b` -/
def diffL (a b : List ε) : List ε := a.filter (fun x => !b.contains x)

end Sets

/-! ## a `TSS` output and its delta of the current engine time -/

/-- `TSSSlotStorage` + `TSDataTracking`, for ONE engine time: `value` the live keys, `added` / `removed`
    the keys whose `added_` / `removed_` bit is set, `modified` = `last_modified_time == now`,
    `hasValue` = `last_modified_time != MIN_DT` -/
structure Cell (ε : Type) where
  hasValue : Bool := false
  value : List ε := []
  added : List ε := []
  removed : List ε := []
  modified : Bool := false
deriving Repr

section CellOps
variable {ε : Type} [DecidableEq ε]

/-- a later engine time begins (`prepare_delta(modified_time)` resets the delta at the first mutation
    of a new time; a reader at a time without mutation sees no delta) -/
def Cell.newCycle (c : Cell ε) : Cell ε := { c with added := [], removed := [], modified := false }

/-- `mark_modified()` -/
def Cell.mark (c : Cell ε) : Cell ε := { c with modified := true, hasValue := true }

/-- `TSSDataMutationView::touch`: `touch_impl` says whether this time is new; `mark_modified` -/
def Cell.touch (c : Cell ε) : Cell ε := c.mark

/-- `TSSDataMutationView::add` -> `insert_key`: already present -> not changed -> `touch`; a key removed
    at this time gets its `removed_` bit reset, any other one its `added_` bit set -/
def Cell.add (c : Cell ε) (x : ε) : Cell ε :=
  if c.value.contains x then c.touch
  else if c.removed.contains x then
    ({ c with value := c.value ++ [x], removed := c.removed.filter (fun y => y != x) } : Cell ε).mark
  else ({ c with value := c.value ++ [x], added := c.added ++ [x] } : Cell ε).mark

/-- `TSSDataMutationView::remove` -> `remove_key`: absent -> not changed -> `touch`; a key added at this
    time gets its `added_` bit reset, any other one its `removed_` bit set -/
def Cell.remove (c : Cell ε) (x : ε) : Cell ε :=
  if !c.value.contains x then c.touch
  else if c.added.contains x then
    ({ c with value := c.value.filter (fun y => y != x), added := c.added.filter (fun y => y != x) } : Cell ε).mark
  else ({ c with value := c.value.filter (fun y => y != x), removed := c.removed ++ [x] } : Cell ε).mark

/-- `TSSDataMutationView::clear`: touch, then remove every key -/
def Cell.clear (c : Cell ε) : Cell ε := c.value.foldl Cell.remove c.touch

/-- `if (!target_set.contains(key)) mutation.add(key)` -/
def Cell.addIfAbsent (c : Cell ε) (x : ε) : Cell ε := if c.value.contains x then c else c.add x

end CellOps

/-! ## what the publication reads of a source output -/

/-- a `TSOutputView` of a candidate root (an element of the collection, the zero input's output, a
    combiner's output) at the current engine time -/
structure SView (ε : Type) where
  /-- `bound()` -/
  bound : Bool := false
  /-- `valid() && has_current_value()` -/
  live : Bool := false
  value : List ε := []
  /-- `modified(now)`: `last_modified_time == now` -/
  modified : Bool := false
  /-- `as_set().added()` / `.removed()` at the current time -/
  added : List ε := []
  removed : List ε := []
deriving Repr

/-- the identity of an output (`TSOutputHandle::same_as`): nothing, the zero input's output, the source
    element of a key, the output of the combiner at heap position `q` of bank `bank` -/
inductive PSrc (κ : Type) where
  | unbound : PSrc κ
  | zero : PSrc κ
  | elem (k : κ) : PSrc κ
  | comb (bank q : Nat) : PSrc κ
deriving DecidableEq, Repr, Inhabited

/-! ## `reconcile_current_state` for a `TSS` target -/

section Reconcile
variable {ε : Type} [DecidableEq ε]

/-- `reconcile_set_impl(target, source, {scope, sample_all})` -/
def reconcileSet (full sampleAll : Bool) (c : Cell ε) (s : SView ε) : Cell ε :=
  -- should_visit_source
  if !(full || sampleAll || (s.live && s.modified)) then c
  else if !s.live then
    (if c.hasValue then c.clear else c)
  else if full then
    let c1 := (c.value.filter (fun x => !s.value.contains x)).foldl Cell.remove c
    let c2 := s.value.foldl Cell.addIfAbsent c1
    if sampleAll then c2.touch else c2
  else
    let c1 := s.removed.foldl Cell.remove c
    let c2 := s.added.foldl Cell.addIfAbsent c1
    if sampleAll then c2.touch else c2

/-- `snapshot.emplace(schema)` + `reconcile_current_state(snapshot->view(snapshot_time), previous, Full)`
    with `snapshot_time = previous.last_modified_time()`: the additions belong to the delta of the
    CURRENT engine time exactly when the old root was modified in this cycle -/
def fillSnapshot (pv : SView ε) : Cell ε :=
  let filled := reconcileSet true false ({} : Cell ε) pv
  if pv.modified then filled else filled.newCycle

end Reconcile

/-! ## the publication state of one reduce node -/

/-- the part of `ReduceNodeStorage` the publication uses, plus the forwarding target of the node's
    output endpoint -/
structure Pub (κ ε : Type) where
  /-- `output.forwarding_target()` while the snapshot is not active -/
  target : PSrc κ := .unbound
  /-- the forwarding target was re-pointed (sampled) in the current cycle -/
  rebound : Bool := false
  /-- `publication_snapshot_active` -/
  active : Bool := false
  /-- `publication_snapshot` -/
  snap : Cell ε := {}
  /-- `pending_publication_source` -/
  pending : PSrc κ := .unbound
  /-- `publication_full_reconcile` -/
  fullRec : Bool := false
  /-- `publication_sample_all` -/
  sampleAll : Bool := false
deriving Repr

/-- what a consumer of the node's output sees in one engine cycle -/
structure Obs (ε : Type) where
  valid : Bool := false
  value : List ε := []
  modified : Bool := false
  added : List ε := []
  removed : List ε := []
deriving Repr

/-- the set a consumer holds after the cycle (`[]`: no value) -/
def obsSet {ε : Type} (o : Obs ε) : List ε := if o.valid then o.value else []

section Publication
variable {κ ε : Type} [DecidableEq κ] [DecidableEq ε]

/-- the view of "no source" (`TSDataView{}`) -/
def noView : SView ε := {}

/-- `bind_reduce_output(output, source)` = `bind_forwarding_output_tree_to_source(…, sampled = true)`:
    unbound source -> clear (when bound); same target -> nothing; otherwise a sampled re-point -/
def bindDirect (p : Pub κ ε) (src : PSrc κ) : Pub κ ε :=
  if src = p.target then p else { p with target := src, rebound := true }

/-- `begin_keyed_reduce_publication(output, source, storage, evaluation_time, sample_all)`;
    `pv` is `previous.view(evaluation_time)`, the old root as it stands when `rebuild_structure` runs -/
def beginKeyed (pv : SView ε) (p : Pub κ ε) (src : PSrc κ) (sampleAll : Bool) : Pub κ ε :=
  if p.active then
    { p with fullRec := p.fullRec || decide (src ≠ p.pending)
             sampleAll := p.sampleAll || sampleAll
             pending := src }
  else
    let changed := decide (p.target ≠ .unbound) && (decide (src = .unbound) || decide (p.target ≠ src))
    if !changed then bindDirect p src
    else if !pv.live then bindDirect p src
    else
      { p with target := .unbound, active := true, snap := fillSnapshot pv, pending := src,
               fullRec := true, sampleAll := sampleAll }

/-- `begin_direct_reduce_publication` -/
def beginDirect (p : Pub κ ε) (src : PSrc κ) : Pub κ ε := bindDirect p src

/-- `finish_reduce_publication(storage, evaluation_time)`; `view` gives the outputs as they stand after
    the evaluation loop -/
def finishPub (view : PSrc κ → SView ε) (p : Pub κ ε) : Pub κ ε :=
  if !p.active then p
  else
    let s := if p.pending = .unbound then noView else view p.pending
    { p with snap := reconcileSet p.fullRec p.sampleAll p.snap s, fullRec := false, sampleAll := false }

/-- the node's output while it forwards to the source `s`; `seen` is the set the consumer held at the end
    of the previous cycle (`[]`: none).  A sampled re-point is a tick at which a set input reports the
    difference between what it held and the value of the new target. -/
def observeDirect (s : SView ε) (rebound : Bool) (seen : List ε) : Obs ε :=
  if rebound then
    if s.live then
      { valid := true, value := s.value, modified := true, added := diffL s.value seen, removed := diffL seen s.value }
    else { modified := !seen.isEmpty, removed := seen }
  else if !s.live then {}
  else
    { valid := true, value := s.value, modified := s.modified,
      added := if s.modified then s.added else [], removed := if s.modified then s.removed else [] }

/-- the node's output as its consumers see it at the end of the cycle -/
def observe (view : PSrc κ → SView ε) (p : Pub κ ε) (seen : List ε) : Obs ε :=
  if p.active then
    { valid := p.snap.hasValue, value := p.snap.value, modified := p.snap.modified,
      added := if p.snap.modified then p.snap.added else [],
      removed := if p.snap.modified then p.snap.removed else [] }
  else observeDirect (if p.target = .unbound then noView else view p.target) p.rebound seen

/-- what `rebuild_structure` hands to `publication_ops->begin` -/
structure RootEv (κ : Type) where
  src : PSrc κ
  /-- `bank_changed` (passed as `sample_all`) -/
  bankChanged : Bool

/-- the publication part of ONE engine cycle: a new time begins; `begin` when `rebuild_structure` ran;
    `finish` when the node was evaluated.  `keyed = false` is the "direct" strategy (every other result
    schema; applied to a keyed result it is the counter-example of `Props/C11Keyed.lean`). -/
def pubCycle (keyed : Bool) (pv : SView ε) (view : PSrc κ → SView ε) (p : Pub κ ε) (ev : Option (RootEv κ))
    (evaluated : Bool) : Pub κ ε :=
  let p0 : Pub κ ε := { p with rebound := false, snap := p.snap.newCycle }
  let p1 := match ev with
    | some e => if keyed then beginKeyed pv p0 e.src e.bankChanged else beginDirect p0 e.src
    | none => p0
  if evaluated && keyed then finishPub view p1 else p1

end Publication

/-! ## one evaluation of a reduce node with a set-valued result -/

/-- the inputs of one evaluation beyond `ReduceInc.CycleIn`: the deltas the element outputs and the zero
    output carry at this time -/
structure KIn (κ ε : Type) where
  inp : CycleIn κ (List ε)
  /-- the element values before this cycle's upstream writes: the element of a key removed in this
      cycle is still there (and valid, not modified) while the node evaluates -/
  srcOld : κ → Option (List ε) := fun _ => none
  /-- `(added, removed)` of the element of a ticked key -/
  elemDelta : κ → List ε × List ε := fun _ => ([], [])
  zeroDelta : List ε × List ε := ([], [])

structure KSt (κ ε : Type) where
  g : GSt κ (List ε) := {}
  pub : Pub κ ε := {}
  /-- the value a consumer of the result holds (`[]`: none) -/
  seen : List ε := []

structure KOut (κ ε : Type) where
  st : KSt κ ε
  obs : Obs ε
  /-- the root after the evaluation -/
  root : PSrc κ

section CycleK
variable {κ ε : Type} [DecidableEq κ] [DecidableEq ε]

/-- `aggregate_output(root_aggregate(...))` as an output identity -/
def rootId (hasZero : Bool) (t : Tree κ) : PSrc κ :=
  match rootAgg hasZero t.cap t.keys.length t.combiners.length with
  | .empty => if hasZero then .zero else .unbound
  | .leaf i => match t.keys[i]? with
    | some k => .elem k
    | none => .unbound
  | .node q => .comb t.bank q

/-- an element output / the zero output at this time -/
def inputView (v : Option (List ε)) (ticked : Bool) (d : List ε × List ε) : SView ε :=
  match v with
  | some x => { bound := true, live := true, value := x, modified := ticked,
                added := if ticked then d.1 else [], removed := if ticked then d.2 else [] }
  | none => { bound := true }

/-- a combiner output: `old` its value before this cycle's evaluation loop (`none`: a combiner created
    in this cycle, or not valid), `new` after it.  `union_tss_binary` writes the exact difference to its
    own previous output and ticks when that is non-empty or the output was not valid. -/
def combView (old new : Option (List ε)) : SView ε :=
  match new with
  | none => { bound := true }
  | some v =>
    let o := old.getD []
    let a := diffL v o
    let r := diffL o v
    { bound := true, live := true, value := v,
      modified := !a.isEmpty || !r.isEmpty || old.isNone, added := a, removed := r }

/-- the old root when `rebuild_structure` runs: elements / zero already carry this cycle's upstream
    writes, a combiner still holds the output of its last evaluation -/
def prevView (hasZero : Bool) (g : GSt κ (List ε)) (i : KIn κ ε) : PSrc κ → SView ε
  | .unbound => noView
  | .zero => inputView (if hasZero then i.inp.zero else none) i.inp.zeroEvent i.zeroDelta
  | .elem k => match i.inp.src k with
    | some v => inputView (some v) (i.inp.ticked.contains k) (i.elemDelta k)
    | none => inputView (i.srcOld k) false ([], [])
  | .comb _ q => combView ((g.cache[q]?).getD none) ((g.cache[q]?).getD none)

/-- the outputs after the evaluation loop (read for the CURRENT root only) -/
def curView (hasZero : Bool) (g : GSt κ (List ε)) (fresh : Nat → Bool) (g' : GSt κ (List ε)) (i : KIn κ ε) :
    PSrc κ → SView ε
  | .unbound => noView
  | .zero => inputView (if hasZero then i.inp.zero else none) i.inp.zeroEvent i.zeroDelta
  | .elem k => inputView (i.inp.src k) (i.inp.ticked.contains k) (i.elemDelta k)
  | .comb _ q => combView (if fresh q then none else (g.cache[q]?).getD none) ((g'.cache[q]?).getD none)

/-- ONE evaluation of a reduce node over set-valued elements with set union as the combiner (a combiner
    child graph: the generic path), publishing `keyed` or `direct` -/
def cycleK (keyed hasZero : Bool) (s : KSt κ ε) (i : KIn κ ε) : KOut κ ε :=
  let pl := plan hasZero s.g.tree i.inp
  let r := cycleGOf unionL hasZero s.g i.inp pl
  let fresh : Nat → Bool := match pl.rb with
    | some rb => fun q => rb.bankChanged || rb.created.contains q
    | none => fun _ => false
  let root := rootId hasZero r.st.tree
  let ev : Option (RootEv κ) := pl.rb.map fun rb => { src := root, bankChanged := rb.bankChanged }
  let view := curView hasZero s.g fresh r.st i
  let pv := prevView hasZero s.g i s.pub.target
  let pub := pubCycle keyed pv view s.pub ev true
  let obs := observe view pub s.seen
  { st := { g := r.st, pub := pub, seen := obsSet obs }, obs := obs, root := root }

/-- an engine cycle in which the node is NOT evaluated: a new time begins, nothing else -/
def idleK (hasZero : Bool) (s : KSt κ ε) (i : KIn κ ε) : KOut κ ε :=
  let view := curView hasZero s.g (fun _ => false) s.g i
  let pub := pubCycle true noView view s.pub none false
  let obs := observe view pub s.seen
  { st := { s with pub := pub, seen := obsSet obs }, obs := obs,
    root := rootId hasZero s.g.tree }

end CycleK

end HgVerif.ReduceKeyed
