/-
Model for the service-transport-context stream of C07: a process runs a HISTORY of builds of small
subscription-service client graphs; `runtime/service_node.cpp` keeps PROCESS-LIFETIME transport contexts that are
found or created at build time, and the context a capture node gets decides in which engine cycle a key change
is published.  What a graph does must follow from its own recipe alone.

Modelled code (read on the current tree):
* `runtime/service_node.cpp`
    `register_subscription_key_source_context(path, offset)`   - `find_if` on (path, offset), else `push_back`
    `register_subscription_key_capture_context(path, offset, same_cycle)` - `find_if` on (path, offset,
        same_cycle), else `push_back`; the vectors are `static auto *contexts = new std::vector<unique_ptr<..>>`
        (append-only, entries never touched again); the returned reference is the `extended_view_context` of the
        node type AND the `runtime_type_id` handed to `NodeBuilder::from_canonical_descriptor`
    `capture_subscription_key` / `record_subscription_key`      - previous key, remove + add hand-off,
        `schedule_time = same_cycle ? t : t + MIN_TD` (root graph, evaluation phase)
    `SubscriptionKeySourceView::enqueue`                         - `pending.push_back`, `schedule_node(source, when)`
    `subscription_key_source_evaluate_impl` / `apply_pending_subscription_key_changes` - one batch (the changes
        observed at the time of the FRONT entry) per evaluation, reference counts, the rest re-scheduled `t + MIN_TD`
* `runtime/node.cpp` `make_type` / `find_canonical`              - node types interned under the runtime type id
        (+ schema): the first type made for an id and schema is the one every later builder gets
* `runtime/graph.cpp` `schedule_node_impl` (`scheduled <= current || when < scheduled`), `evaluate_impl` (scan in
        index order, a node runs iff its slot equals the evaluation time; next time = least slot above it)
* `runtime/executor.cpp` `run_storage`                          - cycles while the next time is `< end_time`
* `harness/drv_svcctx.cpp`                                       - the graph (0 key script, capture / source in
        either order, 3 observer), the step vocabulary, the end time.

`MIN_DT = 0` (an empty schedule slot), `MIN_ST = MIN_TD = 1`.  Keys are naturals (the harness maps them to the key
type).  Core Lean only.
-/
namespace HgVerif.SvcCtx

abbrev Path := String

inductive KeyType where
  | int | i32 | str
deriving DecidableEq, Repr

def MIN_ST : Nat := 1
def MIN_TD : Nat := 1

/-! ## the process-lifetime context tables -/

/-- `SubscriptionKeySourceContext` -/
structure SrcCtx where
  path : Path
  off : Nat
deriving DecidableEq, Repr

/-- `SubscriptionKeyCaptureContext` -/
structure CapCtx where
  path : Path
  off : Nat
  sameCycle : Bool
deriving DecidableEq, Repr

/-- first index whose entry satisfies `p` (`std::ranges::find_if`) -/
def findIdx {α : Type} (p : α → Bool) : List α → Option Nat
  | [] => none
  | x :: xs => if p x then some 0 else (findIdx p xs).map (· + 1)

/-- find-or-create on an append-only table: the table afterwards and the index (= the address) of the entry -/
def intern {α : Type} (p : α → Bool) (mk : α) (t : List α) : List α × Nat :=
  match findIdx p t with
  | some i => (t, i)
  | none => (t ++ [mk], t.length)

/-- `register_subscription_key_source_context` -/
def registerSrc (t : List SrcCtx) (path : Path) (off : Nat) : List SrcCtx × Nat :=
  intern (fun c => c.path == path && c.off == off) ⟨path, off⟩ t

/-- `register_subscription_key_capture_context`: **the key includes the hand-off mode** -/
def registerCap (t : List CapCtx) (path : Path) (off : Nat) (sameCycle : Bool) : List CapCtx × Nat :=
  intern (fun c => c.path == path && c.off == off && c.sameCycle == sameCycle) ⟨path, off, sameCycle⟩ t

/-! ## node types interned under the context's address -/

/-- the runtime type id: the address of a context (the two tables live in different vectors) -/
inductive CtxId where
  | src (i : Nat)
  | cap (i : Nat)
deriving DecidableEq, Repr

/-- a canonical node type: `extended_view_context` = the context, the schema is a function of the key type -/
structure NodeTy where
  ctx : CtxId
  kt : KeyType
deriving DecidableEq, Repr

/-- `NodeRuntimeRegistry::make_type` with a runtime type id: `find_canonical` (same id, equivalent schema), else a
    new type -/
def makeType (t : List NodeTy) (ctx : CtxId) (kt : KeyType) : List NodeTy × Nat :=
  intern (fun ty => ty.ctx == ctx && ty.kt == kt) ⟨ctx, kt⟩ t

/-! ## one run: the four nodes, their schedule slots, the scan -/

/-- `SubscriptionKeyChange` -/
structure Change where
  key : Nat
  observedAt : Nat
  add : Bool
deriving DecidableEq, Repr

/-- one tick of the source's key set as the observer logs it -/
structure Pub where
  time : Nat
  removed : List Nat
  added : List Nat
  members : List Nat
deriving DecidableEq, Repr

structure Trace where
  cycles : List Nat
  pubs : List Pub
deriving DecidableEq, Repr

structure RS where
  /-- schedule slots (`graph_schedule`), `0` = MIN_DT -/
  sScript : Nat
  sCap : Nat := 0
  sSrc : Nat := 0
  sObs : Nat := 0
  /-- key script: `State<Int> step`, the `TS<K>` output -/
  step : Nat := 0
  key : Option Nat := none
  /-- capture storage: `has_previous` / `previous_key` -/
  prev : Option Nat := none
  /-- source storage: `counts`, `pending`; its `TSS<K>` output: members and this cycle's delta -/
  counts : List (Nat × Nat) := []
  pending : List Change := []
  members : List Nat := []
  delta : Option (List Nat × List Nat) := none
  /-- what the harness logs -/
  cycles : List Nat := []
  pubs : List Pub := []
deriving DecidableEq, Repr

/-- `schedule_node_impl`: the slot afterwards -/
def sched (slot current when_ : Nat) : Nat :=
  if slot ≤ current || when_ < slot then when_ else slot

/-- key script at `t`: token `i` of the script, re-armed for the next cycle while tokens remain; a tick of its
    output notifies the capture node's active `key` input for `t` -/
def evalScript (script : List (Option Nat)) (t : Nat) (s : RS) : RS :=
  let i := s.step
  let s1 := { s with step := i + 1 }
  let s2 := match script[i]? with
    | some (some k) => { s1 with key := some k, sCap := sched s1.sCap t t }
    | _ => s1
  if i + 1 < script.length then { s2 with sScript := sched s2.sScript t (t + MIN_TD) } else s2

/-- `SubscriptionKeySourceView::enqueue` -/
def enqueue (s : RS) (t when_ : Nat) (key : Nat) (add : Bool) : RS :=
  { s with pending := s.pending ++ [⟨key, t, add⟩], sSrc := sched s.sSrc t when_ }

/-- `capture_subscription_key` (evaluation phase, root graph) + `record_subscription_key` -/
def evalCapture (sameCycle : Bool) (t : Nat) (s : RS) : RS :=
  let when_ := if sameCycle then t else t + MIN_TD
  match s.key with
  | none =>
    match s.prev with
    | some p => { enqueue s t when_ p false with prev := none }
    | none => s
  | some k =>
    if s.prev = some k then s
    else
      let s1 := match s.prev with
        | some p => enqueue s t when_ p false
        | none => s
      { enqueue s1 t when_ k true with prev := some k }

def countOf (cs : List (Nat × Nat)) (k : Nat) : Option Nat := cs.lookup k

def setCount (cs : List (Nat × Nat)) (k n : Nat) : List (Nat × Nat) :=
  if (cs.lookup k).isSome then cs.map (fun p => if p.1 == k then (k, n) else p) else cs ++ [(k, n)]

/-- the state a batch is folded over: counts, members, removed, added -/
structure Batch where
  counts : List (Nat × Nat)
  members : List Nat
  removed : List Nat := []
  added : List Nat := []

/-- one change of `apply_pending_subscription_key_changes` -/
def applyChange (b : Batch) (c : Change) : Batch :=
  if c.add then
    match countOf b.counts c.key with
    | none => { b with counts := setCount b.counts c.key 1, members := b.members ++ [c.key], added := b.added ++ [c.key] }
    | some n => { b with counts := setCount b.counts c.key (n + 1) }
  else
    match countOf b.counts c.key with
    | none => b
    | some n =>
      if n > 1 then { b with counts := setCount b.counts c.key (n - 1) }
      else { b with counts := b.counts.filter (fun p => p.1 != c.key), members := b.members.filter (· != c.key),
                    removed := b.removed ++ [c.key] }

/-- `subscription_key_source_evaluate_impl`: nothing when nothing is pending; else the changes observed at the time
    of the FRONT entry are applied, the others stay pending and the node re-arms for `t + MIN_TD`; a delta that
    changes the set ticks the output and notifies the observer for `t` -/
def evalSource (t : Nat) (s : RS) : RS :=
  match s.pending with
  | [] => s
  | first :: _ =>
    let now := s.pending.filter (fun c => c.observedAt == first.observedAt)
    let later := s.pending.filter (fun c => c.observedAt != first.observedAt)
    let b := now.foldl applyChange { counts := s.counts, members := s.members }
    let s1 := { s with counts := b.counts, members := b.members, pending := later }
    let s2 := if b.removed.isEmpty && b.added.isEmpty then s1
              else { s1 with delta := some (b.removed, b.added), sObs := sched s1.sObs t t }
    if later.isEmpty then s2 else { s2 with sSrc := sched s2.sSrc t (t + MIN_TD) }

/-- the observer logs the delta and the members it sees -/
def evalObserver (t : Nat) (s : RS) : RS :=
  match s.delta with
  | some (r, a) => { s with pubs := s.pubs ++ [⟨t, r, a, s.members⟩] }
  | none => s

/-- `evaluate_impl`: one scan in index order; a node runs iff its slot equals the evaluation time WHEN THE SCAN
    REACHES IT (a request for `t` made after the scan has passed the node is not served in this cycle) -/
def cycle (sameCycle captureFirst : Bool) (script : List (Option Nat)) (t : Nat) (s : RS) : RS :=
  let s0 := { s with delta := none, cycles := s.cycles ++ [t] }
  let s1 := if s0.sScript = t then evalScript script t s0 else s0
  let cap := fun (x : RS) => if x.sCap = t then evalCapture sameCycle t x else x
  let src := fun (x : RS) => if x.sSrc = t then evalSource t x else x
  let s3 := if captureFirst then src (cap s1) else cap (src s1)
  if s3.sObs = t then evalObserver t s3 else s3

def minOpt (a : Option Nat) (x t : Nat) : Option Nat :=
  if x > t then (match a with | some m => some (min m x) | none => some x) else a

/-- `next_scheduled_time`: the least slot above `t` -/
def nextTime (s : RS) (t : Nat) : Option Nat :=
  minOpt (minOpt (minOpt (minOpt none s.sScript t) s.sCap t) s.sSrc t) s.sObs t

/-- `run_storage`: evaluate, then go to the next scheduled time while it is `< end` -/
def loop (sameCycle captureFirst : Bool) (script : List (Option Nat)) (end_ : Nat) : Nat → Nat → RS → RS
  | 0, _, s => s
  | fuel + 1, t, s =>
    let s' := cycle sameCycle captureFirst script t s
    match nextTime s' t with
    | none => s'
    | some n => if n < end_ then loop sameCycle captureFirst script end_ fuel n s' else s'

/-- the harness ends a run `2 * len + 3` steps after the start -/
def endTime (script : List (Option Nat)) : Nat := MIN_ST + MIN_TD * (2 * script.length + 3)

/-- **One run**: a function of the capture context's mode, the node order and the script.  Start: the key script
    is `schedule_on_start`; the capture node's start hook finds no valid key and records nothing. -/
def run (sameCycle captureFirst : Bool) (script : List (Option Nat)) : Trace :=
  let s := loop sameCycle captureFirst script (endTime script) (endTime script) MIN_ST { sScript := MIN_ST }
  ⟨s.cycles, s.pubs⟩

/-! ## recipes, builders, the process -/

structure Recipe where
  path : Path
  kt : KeyType
  sameCycle : Bool
  captureFirst : Bool
  script : List (Option Nat)
deriving DecidableEq, Repr

/-- what a graph builder holds of the two service nodes: their (interned) node types -/
structure Builder where
  capTy : Nat
  srcTy : Nat
  captureFirst : Bool
  script : List (Option Nat)
deriving DecidableEq, Repr

/-- the offsets of the two storage fields inside the node storage: a function of the node's schema, i.e. of the
    key type.  ARBITRARY here (also constant): no theorem depends on it. -/
structure Offsets where
  cap : KeyType → Nat
  src : KeyType → Nat

structure Proc where
  srcCtx : List SrcCtx := []
  capCtx : List CapCtx := []
  types : List NodeTy := []
  /-- the builders of the current case, in `build` order -/
  builders : List Builder := []
deriving DecidableEq, Repr

inductive Step where
  | build (r : Recipe)
  | reuse (i : Nat)
deriving DecidableEq, Repr

inductive Obs where
  | trace (t : Trace)
  | badOp
deriving DecidableEq, Repr

/-- the mode the capture node of a builder runs with: `view.type().ops_ref().extended_view_context->same_cycle`
    (a node type that is not one of a capture context cannot be reached; `true` is the struct's default) -/
def Proc.modeOf (p : Proc) (b : Builder) : Bool :=
  match p.types[b.capTy]? with
  | some ⟨.cap i, _⟩ => match p.capCtx[i]? with
    | some c => c.sameCycle
    | none => true
  | _ => true

/-- make an executor from a builder and run it -/
def Proc.exec (p : Proc) (b : Builder) : Trace := run (p.modeOf b) b.captureFirst b.script

/-- `make_subscription_key_capture_node` + `make_subscription_key_source_node` (in the node order of the layout:
    the two registrations touch different tables, their order is immaterial) -/
def Proc.build (o : Offsets) (p : Proc) (r : Recipe) : Proc × Builder :=
  let c := registerCap p.capCtx r.path (o.cap r.kt) r.sameCycle
  let t1 := makeType p.types (.cap c.2) r.kt
  let s := registerSrc p.srcCtx r.path (o.src r.kt)
  let t2 := makeType t1.1 (.src s.2) r.kt
  ({ p with capCtx := c.1, srcCtx := s.1, types := t2.1 }, ⟨t1.2, t2.2, r.captureFirst, r.script⟩)

def Proc.step (o : Offsets) (p : Proc) : Step → Proc × Obs
  | .build r =>
    let pb := p.build o r
    ({ pb.1 with builders := pb.1.builders ++ [pb.2] }, .trace (pb.1.exec pb.2))
  | .reuse i =>
    match p.builders[i]? with
    | some b => (p, .trace (p.exec b))
    | none => (p, .badOp)

def Proc.runSteps (o : Offsets) (p : Proc) : List Step → Proc × List Obs
  | [] => (p, [])
  | st :: rest =>
    let r := p.step o st
    let t := Proc.runSteps o r.1 rest
    (t.1, r.2 :: t.2)

/-- a new case: the driver forgets its builders; the process-lifetime tables stay -/
def Proc.newCase (p : Proc) : Proc := { p with builders := [] }

/-! ## the variant: ONE find-or-create helper keyed on (path, offset) for both tables (the seeded shape)

The hand-off mode is only handed to the maker: the first capture context made for a (path, offset) fixes it. -/

def registerCapM (t : List CapCtx) (path : Path) (off : Nat) (sameCycle : Bool) : List CapCtx × Nat :=
  intern (fun c => c.path == path && c.off == off) ⟨path, off, sameCycle⟩ t

def Proc.buildM (o : Offsets) (p : Proc) (r : Recipe) : Proc × Builder :=
  let c := registerCapM p.capCtx r.path (o.cap r.kt) r.sameCycle
  let t1 := makeType p.types (.cap c.2) r.kt
  let s := registerSrc p.srcCtx r.path (o.src r.kt)
  let t2 := makeType t1.1 (.src s.2) r.kt
  ({ p with capCtx := c.1, srcCtx := s.1, types := t2.1 }, ⟨t1.2, t2.2, r.captureFirst, r.script⟩)

def Proc.stepM (o : Offsets) (p : Proc) : Step → Proc × Obs
  | .build r =>
    let pb := p.buildM o r
    ({ pb.1 with builders := pb.1.builders ++ [pb.2] }, .trace (pb.1.exec pb.2))
  | .reuse i =>
    match p.builders[i]? with
    | some b => (p, .trace (p.exec b))
    | none => (p, .badOp)

def Proc.runStepsM (o : Offsets) (p : Proc) : List Step → Proc × List Obs
  | [] => (p, [])
  | st :: rest =>
    let r := p.stepM o st
    let t := Proc.runStepsM o r.1 rest
    (t.1, r.2 :: t.2)

end HgVerif.SvcCtx
