import HgVerif.Model.Extracted
import HgVerif.Model.Feedback
/-!
Ties for the feedback delay (C08): the sink books the paired source at `evaluation_time + MIN_TD`
(`feedback_node.cpp`), `MIN_TD` is one tick of the clock and `MIN_ST = MIN_DT + MIN_TD` (`date_time.h`); the model's
sink (`Model/Feedback.lean`) books `t + 1`.
-/
namespace HgVerif.Tie
open HgVerif.Extracted

theorem tie_fbDelayIsOneMinTd : fbDelayIsOneMinTd = true := rfl
/-- the model's sink books exactly one extracted smallest step after the write -/
theorem tie_minTdTicks : ∀ (t : Nat) (v : Int) (s : HgVerif.Feedback.FB),
    (HgVerif.Feedback.sinkStep t (some v) s).pend = some (t + minTdTicks, v) := fun _ _ _ => rfl
theorem tie_minStIsMinDtPlusMinTd : minStIsMinDtPlusMinTd = true := rfl

end HgVerif.Tie
