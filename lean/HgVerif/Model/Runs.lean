/-
Model for C07 (reproducible, isolated simulation runs):
* process-wide registries as grow-only intern tables whose entries are determined by their key
  (`types/utils/intern_table.h`);
* independent executors as state machines over their own state, stepped in any interleaving.
Core Lean only.
-/
namespace HgVerif.Runs

/-- `InternTable<Key,Value>`: find-or-create; the created value is a function of the key -/
def find {κ ν : Type} [DecidableEq κ] : List (κ × ν) → κ → Option ν
  | [], _ => none
  | (k', v) :: rest, k => if k' = k then some v else find rest k

def intern {κ ν : Type} [DecidableEq κ] (mk : κ → ν) (t : List (κ × ν)) (k : κ) : List (κ × ν) × ν :=
  match find t k with
  | some v => (t, v)
  | none => ((k, mk k) :: t, mk k)

/-- any history of earlier registrations -/
def internAll {κ ν : Type} [DecidableEq κ] (mk : κ → ν) (t : List (κ × ν)) (ks : List κ) : List (κ × ν) :=
  ks.foldl (fun acc k => (intern mk acc k).1) t

/-- a deterministic executor: its own state, one output per step -/
structure Exec (σ ο : Type) where
  step : σ → σ × ο

/-- run executor `e` alone for `n` steps -/
def runAlone {σ ο : Type} (e : Exec σ ο) : Nat → σ → List ο
  | 0, _ => []
  | n + 1, s => let r := e.step s; r.2 :: runAlone e n r.1

/-- a process with executors `0 … k-1` (each with its own state); `sched` says whose turn it is.
    Returns the global trace of `(executor, output)` pairs. -/
def runInterleaved {σ ο : Type} (e : Nat → Exec σ ο) : (Nat → σ) → List Nat → List (Nat × ο)
  | _, [] => []
  | st, i :: rest =>
    let r := (e i).step (st i)
    (i, r.2) :: runInterleaved e (fun j => if j = i then r.1 else st j) rest

def project {ο : Type} (i : Nat) (tr : List (Nat × ο)) : List ο :=
  (tr.filter (fun p => p.1 == i)).map (·.2)

end HgVerif.Runs
