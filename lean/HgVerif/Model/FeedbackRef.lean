import HgVerif.Model.FeedbackShape
/-
C08 × C13 — a feedback whose PRODUCER PORT is a REF-selected output.

    A (scripted writer, Out<S>) ──┐
    B (scripted writer, Out<S>) ──┼─ if_then_else(cond, A, B) / switch_(key, {pass-A, pass-B}, A, B) ── feedback sink
    cond (scripted TS<Bool>)    ──┘                                                                feedback source ── reader

`S` is `TSS<Int>` (`set`), `TSD<Int,TS<Int>>` (`dict`), `TSL<TS<Int>,2>` (`fix`) or `TSB{a,b}` (`fix`, `bundle`).

What the code does (and the model repeats):

* the selection operator (`if_then_else_impl`, `lib/std/operators/impl/control_impl.h`) publishes the reference of the
  selected branch on a tick of `cond`, unless it already holds that reference (`flips`); every consumer below the
  reference is re-bound to the new target in that cycle (`bind_target_link_at`, `ts_output/alternative.cpp`).
* what a consumer of the port then sees (property C13, `Model/RefLink.lean` `view`; here only the part a feedback
  needs):
  - value = the bound target's value (`portVal`);
  - selection unchanged: the port ticks iff the bound target ticked, with that target's own delta (`own`);
  - selection flipped onto a VALID target: the port ticks with the OLD-vs-NEW DIFFERENCE (`diff`), "old" being what the
    port showed at the end of the previous cycle (`pubR` / `pubA` of `RefLink`): `TSS` added = new \ old, removed =
    old \ new; `TSD` modified = every item of the new target, removed keys = old \ new; `TSB` / `TSL` every valid
    child of the new target ticks with its value.  A flip onto a target that is not valid leaves the port not valid
    (the feedback sink has `valid_inputs = {ts}`: it is not evaluated).
* `evaluate_feedback_sink` (`feedback_node.cpp`) stores `ts.delta_value()` IN PLACE when that view has a value the
  planned state accepts, else `capture_delta(ts)` (`sinkCapture`):
  - `ts.delta_value()` is NOT link-aware (finding C13-A): for `TSS` / `TSD` it has no value in a pure re-bind cycle
    (→ `capture_delta`, which reads `added()` / `removed()` / `modified_items()`: the difference) but is the new
    target's OWN delta when that target ticks in the flip cycle (`if_then_else`; not under `switch_`); for a `TSB` it carries exactly the children that
    ticked by themselves - nothing at all in a pure re-bind cycle; for a `TSL` the copy is rejected or complete
    (correspondence), so what is stored is the port's tick.
  `Capture.asBuilt` is that rule, `Capture.difference` the link-aware rule (always what the accessors show),
  `Capture.currentValue` the seeded change s117 (a "sampled rebind" of a collection stores
  `capture_current_delta(ts)`: the new target's whole state, never a removal).
* the feedback pair itself is `Model/FeedbackShape.lean` (`sourceStep`, `sinkStep`, `applyDelta`).

Core Lean only.
-/
namespace HgVerif.FeedbackRef

open HgVerif.FeedbackShape

/-- how `evaluate_feedback_sink` obtains the delta it stores -/
inductive Capture where
  | asBuilt | difference | currentValue
deriving Repr, DecidableEq

structure Cfg where
  kind : Kind := .set
  /-- `fix` only: the port is a `TSB` (its `delta_value()` is never link-aware) rather than a `TSL` -/
  bundle : Bool := false
  /-- the selection is a `switch_` whose branches forward an argument, not `if_then_else`: in the cycle of a switch the
      sink's input has no `delta_value()` the state accepts (the new branch's boundary was bound in this cycle), so the
      sink captures - the difference - even when the new target ticks (correspondence) -/
  sw : Bool := false
  cap : Capture := .asBuilt
deriving Repr, DecidableEq

/-- what the script does in one engine cycle: a tick of `cond` (`true` = A), operations on A, operations on B -/
structure In where
  sel : Option Bool := none
  a : Option Delta := none
  b : Option Delta := none
deriving Repr, DecidableEq

structure St where
  a : Val := {}                 -- output of target A
  b : Val := {}                 -- output of target B
  cond : Option Bool := none    -- the reference the selection operator holds (`none`: never selected)
  fb : FB Delta := {}           -- the feedback pair
  rv : Val := {}                -- output of the feedback source = what the reader sees
deriving Repr, DecidableEq

/-- the output a reference points at (`none`: an empty reference, nothing bound) -/
def pick (c : Option Bool) (a b : Val) : Val :=
  match c with
  | some true => a
  | some false => b
  | none => {}

/-- value of the producer port -/
def portVal (s : St) : Val := pick s.cond s.a s.b

def keysOf (m : List (Pos × Int)) : List Pos := m.map (·.1)

/-- the tick a consumer sees when its link is re-bound from contents `o` to the valid target `n` -/
def diff (k : Kind) (o n : Val) : Delta :=
  match k with
  | .fix => { mods := n.items }
  | .set => { mods := (n.items.filter (fun e => !hasKey e.1 o.items)).map (fun e => (e.1, 0)),
              rems := (keysOf o.items).filter (fun p => !hasKey p n.items) }
  | .dict => { mods := n.items, rems := (keysOf o.items).filter (fun p => !hasKey p n.items) }

/-- `capture_current_delta`: the whole current state as one delta, no removals -/
def curDelta (k : Kind) (n : Val) : Delta :=
  match k with
  | .set => { mods := n.items.map (fun e => (e.1, 0)) }
  | _ => { mods := n.items }

/-- a target's turn: its new output and its own delta if the script wrote to it -/
def tickT (k : Kind) (v : Val) : Option Delta → Val × Option Delta
  | some ops => ((producerStep k v ops).1, some (producerStep k v ops).2)
  | none => (v, none)

/-- the selection operator publishes a different reference in this cycle -/
def flips (s : St) (i : In) : Bool :=
  match i.sel with
  | some c => decide (s.cond ≠ some c)
  | none => false

def newCond (s : St) (i : In) : Option Bool := if flips s i then i.sel else s.cond

/-- the bound target after this cycle's writes and selection -/
def newTarget (k : Kind) (s : St) (i : In) : Val :=
  pick (newCond s i) (tickT k s.a i.a).1 (tickT k s.b i.b).1

/-- the bound target's own delta of this cycle (what `delta_value()` of a keyed input shows) -/
def ownTick (k : Kind) (s : St) (i : In) : Option Delta :=
  match newCond s i with
  | some true => (tickT k s.a i.a).2
  | some false => (tickT k s.b i.b).2
  | none => none

/-- the producer port's tick as a consumer sees it through `added()` / `removed()` / `modified_items()` /
    `modified()` per child (`none`: the port did not tick, or is not valid) -/
def portTick (k : Kind) (s : St) (i : In) : Option Delta :=
  if !(newTarget k s i).valid then none
  else if flips s i then some (diff k (portVal s) (newTarget k s i))
  else ownTick k s i

/-- `evaluate_feedback_sink`: the delta stored as the source's state when the port ticked with `port` -/
def sinkCapture (c : Cfg) (flipped : Bool) (own : Option Delta) (port : Delta) (n : Val) : Delta :=
  let copyOrCapture : Delta :=
    if c.kind == .fix then (if c.bundle then own.getD {} else port)
    else match own with
      | some d => if flipped && c.sw then port else d
      | none => port
  match c.cap with
  | .difference => port
  | .asBuilt => copyOrCapture
  | .currentValue =>
    if c.kind != .fix && flipped && own.isNone then curDelta c.kind n else copyOrCapture

/-- what the sink hands to the source in this cycle -/
def storedOf (c : Cfg) (s : St) (i : In) : Option Delta :=
  (portTick c.kind s i).map (fun p => sinkCapture c (flips s i) (ownTick c.kind s i) p (newTarget c.kind s i))

/-- everything observable in one cycle -/
structure Out where
  w : Option Delta := none     -- producer-port tick
  pv : Val := {}               -- producer-port value after the cycle
  dl : Option Delta := none    -- the delta the source hands to `apply_delta` (the delivery)
  r : Option Delta := none     -- the reader's observed tick
  rv : Val := {}               -- the reader's value after the cycle
deriving Repr, DecidableEq

/-- one engine cycle at time `t`: source (ranks first), targets, selection, sink -/
def step (c : Cfg) (t : Nat) (s : St) (i : In) : St × Out :=
  let src := sourceStep t s.fb
  let rd : Val × Option Delta :=
    match src.2 with
    | some d => applyDelta c.kind s.rv d
    | none => (s.rv, none)
  ({ a := (tickT c.kind s.a i.a).1, b := (tickT c.kind s.b i.b).1, cond := newCond s i,
     fb := sinkStep t (storedOf c s i) src.1, rv := rd.1 },
   { w := portTick c.kind s i, pv := newTarget c.kind s i, dl := src.2, r := rd.2, rv := rd.1 })

/-- consecutive smallest steps from time `t` -/
def runFrom (c : Cfg) : Nat → St → List In → List Out
  | _, _, [] => []
  | t, s, i :: rest => (step c t s i).2 :: runFrom c (t + 1) (step c t s i).1 rest

def finalSt (c : Cfg) : Nat → St → List In → St
  | _, s, [] => s
  | t, s, i :: rest => finalSt c (t + 1) (step c t s i).1 rest

/-- the delta the source is due to deliver in the cycle at `t` -/
def pendOf (t : Nat) (s : St) : Option Delta := if s.fb.sched = t then s.fb.state else none

/-- the engine runs a cycle at `t`: the source is due or the script does something -/
def runs (t : Nat) (s : St) (i : In) : Bool :=
  sourceDue t s.fb || i.sel.isSome || i.a.isSome || i.b.isSome

end HgVerif.FeedbackRef
