import HgVerif.Model.PushQueue
/-!
Several push sources in ONE root graph, sharing ONE executor wake flag (C16, multi-source part).

The per-source code is the one modelled in `Model/PushQueue.lean`
(`push_source_node.cpp`: `PushSourceSenderControl::{enter,try_send,send_blocking,begin_close}`,
`QueuePolicyStorage::{start,stop,try_send,send_blocking,try_pop,take_all}`, `push_source_eval`,
`push_source_stop`); its types (`Policy`, `Cfg`, `SendKind`, `Outcome`, `PPc`) are re-used.  Every
source `k < n` has its own control block, policy mutex, deque, producers and ghost history (`Src`);
the executor state is shared: `push_update_pending` (`flag`), `stop_requested` (`stopReq`)
(`executor.cpp realtime_mark_push_update_pending_impl / realtime_reset_push_update_pending_impl /
realtime_request_stop_impl`).

The evaluation thread is the push phase of `graph.cpp evaluate_impl` (l.1121-1160):

    if (first_normal_node > 0) {
      const bool push_update_pending = push_queue.reset_push_update_pending();   -- ONCE: `beginCycle`
      for (index = 0; index < first_normal_node; ++index)
        if (push_update_pending || scheduled_now) node_view.evaluate(evaluation_time);
    }                                                    -- per source, in index order: `pop`, `rearm`

and `push_source_eval`: `more_pending = emit_next(...)` (`pop`), then
`if (more_pending) mark_push_update_pending()` (`rearm`).  So a queue source that still holds values
re-arms the SAME flag from inside the cycle that was entered by resetting it.

The conflating policy comes in two forms.  With a scalar output (`TS<int>`, `cfg.dict = false`)
every delta has effect and merging keeps the last value (as in `PushQueue`).  With a COLLECTION
output (`TSD<int, TS<int>>`, `cfg.dict = true`) the payloads are collection deltas that
`ConflatingPolicyStorage::try_send` merges into a per-window accumulator:

    const bool was_pending = pending;
    apply_delta(accumulator.view(mutation_time), value.view());     -- a NO-OP when the delta has no effect
    pending = pending || accumulator.view(mutation_time).modified();
    return {.accepted = true, .wake_required = pending && !was_pending};

(`ts_delta.cpp apply_delta / delta_has_effect_tsd / apply_delta_tsd`: a delta with sets always has
effect; removals only have effect if a removed key is in the accumulator; the empty delta only
validates a fresh accumulator; removals are applied before sets), and `take_accumulated` hands the
accumulated VALUE of the window over (`apply_current_value`) iff `pending`, then starts a fresh
accumulator.  The policy's `pending` flag is represented by the marker deque: `pending ⇔ deque ≠ []`
(so `pending_items = deque.length` as for the scalar form).

The atomic steps are the mutex-protected sections; `step` is a partial deterministic function of
the label, the theorems quantify over all label sequences (`Reach`), the driver composes the same
function per operation (`Drivers/C16N.lean`).  Core Lean only.
-/
namespace HgVerif.PushQueueN
open HgVerif.PushQueue (Policy Cfg SendKind Outcome PPc upd)

/-! ### collection deltas and the conflating accumulator (`TSD<int, TS<int>>`) -/

/-- a `TSD` delta: lenient removals (applied first), then sets -/
structure Delta where
  removes : List Nat := []
  sets : List (Nat × Nat) := []
deriving Repr, DecidableEq

/-- a dict value: association list with unique keys (printed sorted by key) -/
abbrev Dict := List (Nat × Nat)

def dictErase (m : Dict) (k : Nat) : Dict := m.filter (fun e => e.1 != k)
def dictSet (m : Dict) (kv : Nat × Nat) : Dict := dictErase m kv.1 ++ [kv]
def dictHas (m : Dict) (k : Nat) : Bool := m.any (fun e => e.1 == k)

/-- `delta_has_effect_tsd` against accumulator `a` (`none` = fresh, not yet valid) -/
def Delta.hasEffect (a : Option Dict) (d : Delta) : Bool :=
  if !d.sets.isEmpty then true
  else if !d.removes.isEmpty then d.removes.any (fun k => dictHas (a.getD []) k)
  else a.isNone            -- the explicitly empty tick validates a fresh collection, else it is deduplicated

/-- `apply_delta` on the accumulator: skipped when the delta has no effect; the Boolean is
    `accumulator.view(mutation_time).modified()` -/
def applyDelta (a : Option Dict) (d : Delta) : Option Dict × Bool :=
  if d.hasEffect a then
    (some (d.sets.foldl dictSet (d.removes.foldl dictErase (a.getD []))), true)
  else (a, false)

/-- the specification of one conflation window: the fold of its accepted deltas from a fresh
    accumulator, and whether any of them had effect -/
def foldWindow (w : List Delta) : Option Dict × Bool :=
  w.foldl (fun s d => ((applyDelta s.1 d).1, s.2 || (applyDelta s.1 d).2)) (none, false)

/-- the policy is the conflating one with a collection output -/
def isDict (cfg : Cfg) : Bool :=
  match cfg.policy with
  | .conflating => cfg.dict
  | _ => false

def updD (f : Nat → Delta) (i : Nat) (d : Delta) : Nat → Delta := fun j => if j = i then d else f j

/-- the state of ONE push source: control block, policy storage, its producers, ghost history -/
structure Src where
  started : Bool := false
  accepting : Bool := false          -- `QueuePolicyStorage::accepting`
  closing : Bool := false            -- `PushSourceSenderControl::closing_`
  deque : List (Nat × Nat) := []     -- `values` as (producer, value); conflating: the accumulator, length ≤ 1
  pcs : Nat → PPc := fun _ => .idle  -- the producers of THIS source
  accepted : List (Nat × Nat) := []                       -- ghost: accepted (producer, value) in admission order
  delivered : List (Nat × List (Nat × Nat)) := []         -- ghost: (cycle time, values handed to the graph)
  results : List (Nat × SendKind × Nat × Outcome) := []   -- ghost: returned sends
  -- collection-conflating sources (`isDict`): `deque` is the `pending` marker (`[]` / one entry)
  pay : Nat → Delta := fun _ => {}                        -- the delta a producer is sending (its local `value`)
  acc : Option Dict := none                               -- `accumulator` (`none` = fresh `TSOutput{schema}`)
  window : List Delta := []                               -- ghost: deltas accepted since the last take
  caccepted : List (Nat × Delta) := []                    -- ghost: accepted (producer, delta) in admission order
  cdelivered : List (Nat × List Delta × Dict) := []       -- ghost: (cycle time, the window, value handed to the graph)

/-- `QueuePolicyStorage::full()` -/
def Src.full (cfg : Cfg) (x : Src) : Bool :=
  match cfg.policy with
  | .conflating => false
  | _ => cfg.cap != 0 && decide (x.deque.length ≥ cfg.cap)

/-- the policy accepts `v` for producer `i`: push (or merge) and compute `wake_required = was_empty` -/
def Src.accept (cfg : Cfg) (x : Src) (i : Nat) (k : SendKind) (v : Nat) : Src :=
  let wasEmpty := x.deque.isEmpty
  let dq := match cfg.policy with
    | .conflating => [(i, v)]
    | _ => x.deque ++ [(i, v)]
  { x with deque := dq, accepted := x.accepted ++ [(i, v)], pcs := upd x.pcs i (.admitted k v wasEmpty) }

/-- `ConflatingPolicyStorage::try_send` on a collection accumulator: always accepted; the delta is
    merged (a no-op when it has no effect); `pending = pending || modified`;
    `wake_required = pending && !was_pending` -/
def Src.acceptD (x : Src) (i : Nat) (k : SendKind) : Src :=
  let r := applyDelta x.acc (x.pay i)
  let wasPending := !x.deque.isEmpty
  { x with acc := r.1, deque := if wasPending then x.deque else (if r.2 then [(i, 0)] else []),
           window := x.window ++ [x.pay i], caccepted := x.caccepted ++ [(i, x.pay i)],
           pcs := upd x.pcs i (.admitted k 0 ((wasPending || r.2) && !wasPending)) }

/-- the seeded variant (s51): `pending = modified` — ASSIGNED instead of OR-ed -/
def Src.acceptDSeeded (x : Src) (i : Nat) (k : SendKind) : Src :=
  let r := applyDelta x.acc (x.pay i)
  let wasPending := !x.deque.isEmpty
  { x with acc := r.1, deque := if r.2 then (if wasPending then x.deque else [(i, 0)]) else [],
           window := x.window ++ [x.pay i], caccepted := x.caccepted ++ [(i, x.pay i)],
           pcs := upd x.pcs i (.admitted k 0 (r.2 && !wasPending)) }

def Src.refuse (x : Src) (i : Nat) (k : SendKind) (v : Nat) (o : Outcome) : Src :=
  { x with pcs := upd x.pcs i .idle, results := x.results ++ [(i, k, v, o)] }

/-- the steps that belong to one source: its lifecycle and its producers -/
inductive SLabel where
  | start                                -- the node's `start`: the policy starts accepting
  | enter (i : Nat) (k : SendKind) (v : Nat)
  | enterD (i : Nat) (k : SendKind) (d : Delta)    -- a send whose payload is a collection delta (`isDict` sources)
  | check (i : Nat)
  | admitQ (i : Nat)
  | wake (i : Nat)
  | mark (i : Nat)
  | closeBegin                           -- `push_source_stop`: `control->begin_close()`
  | queueStop                            -- `policy.stop()`
deriving Repr, DecidableEq

/-- one atomic step of source-local code.  The second component says whether the step calls
    `mark_push_update_pending()` on the shared executor (only `mark` with `wake_required`). -/
def lstep (cfg : Cfg) (stopReq : Bool) (x : Src) : SLabel → Option (Src × Bool)
  | .start =>
    if x.started then none        -- restart is not supported by design
    else some ({ x with started := true, accepting := true, deque := [], acc := none, window := [] }, false)
  | .enter i k v =>
    if isDict cfg then none       -- an int payload does not fit a collection source (`invalid_argument`)
    else match x.pcs i with
    | .idle =>
      if !x.started || x.closing then some (x.refuse i k v .refusedClosed, false)
      else some ({ x with pcs := upd x.pcs i (.entered k v) }, false)
    | _ => none
  | .enterD i k d =>
    if !isDict cfg then none
    else match x.pcs i with
    | .idle =>
      if !x.started || x.closing then some (x.refuse i k 0 .refusedClosed, false)
      else some ({ x with pcs := upd x.pcs i (.entered k 0), pay := updD x.pay i d }, false)
    | _ => none
  | .check i =>
    match x.pcs i with
    | .entered k v =>
      if stopReq then some (x.refuse i k v .refusedStopReq, false)
      else some ({ x with pcs := upd x.pcs i (.checked k v) }, false)
    | _ => none
  | .admitQ i =>
    match x.pcs i with
    | .checked .try_ v =>
      if !x.accepting then some (x.refuse i .try_ v .refusedNotAccepting, false)
      else if isDict cfg then some (x.acceptD i .try_, false)
      else if x.full cfg then some (x.refuse i .try_ v .refusedFull, false)
      else some (x.accept cfg i .try_ v, false)
    | .checked .blocking v =>
      if !x.accepting then some (x.refuse i .blocking v .refusedNotAccepting, false)
      else if isDict cfg then some (x.acceptD i .blocking, false)     -- conflating `send_blocking` = `try_send`
      else if x.full cfg then some ({ x with pcs := upd x.pcs i (.blocked v) }, false)
      else some (x.accept cfg i .blocking v, false)
    | _ => none
  | .wake i =>
    match x.pcs i with
    | .blocked v =>
      if !x.accepting then some (x.refuse i .blocking v .refusedNotAccepting, false)
      else if isDict cfg then some (x.acceptD i .blocking, false)     -- (unreachable: a conflating send never parks)
      else if x.full cfg then some (x, false)
      else some (x.accept cfg i .blocking v, false)
    | _ => none
  | .mark i =>
    match x.pcs i with
    | .admitted k v wake =>
      some ({ x with pcs := upd x.pcs i .idle, results := x.results ++ [(i, k, v, .accepted)] }, wake)
    | _ => none
  | .closeBegin => if x.started && !x.closing then some ({ x with closing := true }, false) else none
  | .queueStop =>
    if x.closing && x.accepting then some ({ x with accepting := false, deque := [], acc := none, window := [] }, false)
    else none

/-- `emit_next` of one source at cycle time `t`: `try_pop` / `take_all` / `take_accumulated`;
    the Boolean is `more_pending` -/
def popL (cfg : Cfg) (t : Nat) (x : Src) : Src × Bool :=
  match cfg.policy, x.deque with
  | _, [] => (x, false)
  | .queue, v :: rest => ({ x with deque := rest, delivered := x.delivered ++ [(t, [v])] }, !rest.isEmpty)
  | _, v :: rest =>
    if isDict cfg then
      -- `take_accumulated`: the accumulated VALUE of the window; a fresh accumulator; `pending = false`
      ({ x with deque := [], delivered := x.delivered ++ [(t, v :: rest)],
                cdelivered := x.cdelivered ++ [(t, x.window, x.acc.getD [])], acc := none, window := [] }, false)
    else ({ x with deque := [], delivered := x.delivered ++ [(t, v :: rest)] }, false)

/-- the graph: `n` push sources (the push prefix, node indices `0 .. n-1`) with their policies -/
structure Sys where
  n : Nat
  cfg : Nat → Cfg

/-- program counter of the evaluation thread inside the push phase of one cycle -/
inductive CPc where
  | idle                               -- not in a push phase
  | at (k : Nat)                       -- the flag was set and has been reset ONCE; `push_source_eval` of source `k` is next
  | popped (k : Nat) (more : Bool)     -- source `k`'s `emit_next` returned `more`; its re-arm is next
deriving Repr, DecidableEq

inductive Label where
  | src (k : Nat) (l : SLabel)         -- a step of source `k`'s own code (producers, start, stop)
  | beginCycle (dt : Nat)              -- a new evaluation cycle: `reset_push_update_pending()` ONCE
  | pop                                -- `emit_next` of the source the push phase stands at
  | rearm                              -- `if (more_pending) mark_push_update_pending()`; on to the next source
  | reqStop
deriving Repr, DecidableEq

structure St where
  flag : Bool := false               -- executor `push_update_pending` (shared by all sources)
  stopReq : Bool := false            -- executor `stop_requested`
  cpc : CPc := .idle
  time : Nat := 0
  src : Nat → Src := fun _ => {}

def setSrc (s : St) (k : Nat) (x : Src) : St := { s with src := fun j => if j = k then x else s.src j }

/-- `realtime_mark_push_update_pending_impl` -/
def markFlag (s : St) : St := if s.stopReq then s else { s with flag := true }

/-- every node of the push prefix is started and none is stopping: `evaluate` may be called -/
def allRunning (sys : Sys) (s : St) : Bool :=
  (List.range sys.n).all (fun k => (s.src k).started && !(s.src k).closing)

/-- after source `k`: the next source of the prefix, or the end of the push phase -/
def nextPc (sys : Sys) (k : Nat) : CPc := if k + 1 < sys.n then .at (k + 1) else .idle

/-- one atomic step; `none` when the label is not enabled in `s` -/
def step (sys : Sys) (s : St) : Label → Option St
  | .src k l =>
    if k < sys.n then
      -- the graph stop runs on the evaluation thread, never inside a cycle
      if l = .closeBegin ∧ s.cpc ≠ .idle then none
      else match lstep (sys.cfg k) s.stopReq (s.src k) l with
        | some (x, m) => some (if m then markFlag (setSrc s k x) else setSrc s k x)
        | none => none
    else none
  | .beginCycle dt =>
    match s.cpc with
    | .idle =>
      if !allRunning sys s then none
      else if sys.n = 0 then some { s with time := s.time + dt + 1 }      -- `if (first_normal_node > 0)`
      else some { s with time := s.time + dt + 1, flag := false, cpc := if s.flag then .at 0 else .idle }
    | _ => none
  | .pop =>
    match s.cpc with
    | .at k =>
      let r := popL (sys.cfg k) s.time (s.src k)
      some { setSrc s k r.1 with cpc := .popped k r.2 }
    | _ => none
  | .rearm =>
    match s.cpc with
    | .popped k more => some { (if more then markFlag s else s) with cpc := nextPc sys k }
    | _ => none
  | .reqStop => some { s with stopReq := true }

/-- reachable states: all interleavings of the atomic steps -/
inductive Reach (sys : Sys) : St → Prop where
  | init : Reach sys {}
  | step {s s' : St} (l : Label) : Reach sys s → step sys s l = some s' → Reach sys s'

/-- run a label sequence; disabled labels are skipped -/
def runLabels (sys : Sys) : St → List Label → St
  | s, [] => s
  | s, l :: ls => match step sys s l with
    | some s' => runLabels sys s' ls
    | none => runLabels sys s ls

/-! ### the seeded variant (s36): the flag is sampled and reset once PER SOURCE

`push_update_pending = push_queue.reset_push_update_pending() || push_update_pending;` at the head
of the loop body.  In a cycle whose first sample found the flag set the accumulated value is `true`
for every later source, so the only difference to `step` is that the `pop` of every source `k > 0`
is preceded by another reset of the flag.  (Cycles whose first sample finds the flag clear differ
too — a later sample may pick up a mark made meanwhile — but they are not needed for the witness
and are left as in `step`.)  Used only by the counter-lemma `per_source_sampling_loses_wakeup`. -/
def stepPerSource (sys : Sys) (s : St) : Label → Option St
  | .pop =>
    match s.cpc with
    | .at k => step sys (if k = 0 then s else { s with flag := false }) .pop
    | _ => none
  | l => step sys s l

def runPerSource (sys : Sys) : St → List Label → St
  | s, [] => s
  | s, l :: ls => match stepPerSource sys s l with
    | some s' => runPerSource sys s' ls
    | none => runPerSource sys s ls

inductive ReachPerSource (sys : Sys) : St → Prop where
  | init : ReachPerSource sys {}
  | step {s s' : St} (l : Label) : ReachPerSource sys s → stepPerSource sys s l = some s' → ReachPerSource sys s'

/-! ### the seeded variant (s51): the conflating `pending` flag is ASSIGNED from `modified()`

`pending = accumulator.view(mutation_time).modified();` — an accepted delta without effect clears
the flag an earlier effective delta of the same window had set.  Used only by the counter-lemma
`assigning_pending_loses_accepted_delta`. -/
def lstepS51 (cfg : Cfg) (stopReq : Bool) (x : Src) : SLabel → Option (Src × Bool)
  | .admitQ i =>
    match x.pcs i with
    | .checked k _ =>
      if isDict cfg && x.accepting then some (x.acceptDSeeded i k, false) else lstep cfg stopReq x (.admitQ i)
    | _ => none
  | l => lstep cfg stopReq x l

def stepS51 (sys : Sys) (s : St) : Label → Option St
  | .src k l =>
    if k < sys.n then
      if l = .closeBegin ∧ s.cpc ≠ .idle then none
      else match lstepS51 (sys.cfg k) s.stopReq (s.src k) l with
        | some (x, m) => some (if m then markFlag (setSrc s k x) else setSrc s k x)
        | none => none
    else none
  | l => step sys s l

def runS51 (sys : Sys) : St → List Label → St
  | s, [] => s
  | s, l :: ls => match stepS51 sys s l with
    | some s' => runS51 sys s' ls
    | none => runS51 sys s ls

inductive ReachS51 (sys : Sys) : St → Prop where
  | init : ReachS51 sys {}
  | step {s s' : St} (l : Label) : ReachS51 sys s → stepS51 sys s l = some s' → ReachS51 sys s'

end HgVerif.PushQueueN
