import HgVerif.Model.Dispatch
/-!
A VARIANT of the matcher of `Model/Dispatch.lean`, not the code: the "variable already bound" branch
of the `Var` arm compares with `time_series_schema_equivalent` (`equiv`: field names and field types
only) instead of identity of the interned schema (`bound == concrete`).  Everything else - the other
arms, the argument loop, the candidate loop, the sort, the decision - is a literal copy.

It exists so that `Props/C19.lean` can state, kernel-checked, what the identity comparison buys:
with the structural comparison a repeated whole-time-series variable `f(~T,~T)` accepts two DIFFERENT
bundle types that merely share their field list (`TSB<A>[x,y]`, `TSB<B>[x,y]`, the un-named
`TSB[x,y]`), stays bound to the first one, and the repeated-variable candidate beats the correct
fallback `f(~X,~Y)` / turns a no-match into a match.
-/
namespace HgVerif.Dispatch

/-- the `Var` arm with a STRUCTURAL comparison of a variable that is already bound -/
def varMatchS (n : Name) (cs : List CT) (c : CT) (m : RMap) : Option RMap :=
  match m.findTs n with
  | some b => if equiv b c = true ∧ allowedT cs c then some m else none
  | none => if allowedT cs c then some (m.bindTs n c) else none

mutual
def inMatchS (p : TP) (c : CT) (m : RMap) : Option RMap :=
  match p with
  | .signal => some m
  | .ref t => inMatchS t (stripOne c) m
  | .var n cs => varMatchS n cs (stripRefs c) m
  | .conc pc => if accepts pc (stripRefs c) then some m else none
  | .ts s =>
    match stripRefs c with
    | .ts a => scalarMatch s a m
    | _ => none
  | .tss s =>
    match stripRefs c with
    | .tss a => scalarMatch s a m
    | _ => none
  | .tsl e sz =>
    match stripRefs c with
    | .tsl ce n =>
      match sizeMatch sz n m with
      | some m1 => inMatchS e ce m1
      | none => none
    | _ => none
  | .tsd k v =>
    match stripRefs c with
    | .tsd ck cv =>
      match scalarMatch k ck m with
      | some m1 => inMatchS v cv m1
      | none => none
    | _ => none
  | .tsw s w =>
    match stripRefs c with
    | .tsw a period minp =>
      match scalarMatch s a m with
      | some m1 => if windowOk w period minp then some m1 else none
      | none => none
    | _ => none
  | .tsb pn fs =>
    match stripRefs c with
    | .tsb cn cfs => if nameOk pn cn then inMatchFieldsS fs cfs m else none
    | _ => none
  | .tsbVar n =>
    match stripRefs c with
    | .tsb cn cfs =>
      match m.findTs n with
      | some b => if equiv b (.tsb cn cfs) then some m else none
      | none => some (m.bindTs n (.tsb cn cfs))
    | _ => none
def inMatchFieldsS (fs : PFields) (cfs : CFields) (m : RMap) : Option RMap :=
  match fs, cfs with
  | .nil, .nil => some m
  | .cons f p rest, .cons g c crest =>
    if f = g then
      match inMatchS p c m with
      | some m1 => inMatchFieldsS rest crest m1
      | none => none
    else none
  | .nil, .cons _ _ _ => none
  | .cons _ _ _, .nil => none
end

def matchArgsS : List Param → List Arg → RMap → Nat → Option RMap × Nat
  | [], [], m, adj => (some m, adj)
  | .input p :: ps, .ts c :: as, m, adj =>
    match inMatchS p c m with
    | some m1 => matchArgsS ps as m1 adj
    | none => (none, adj)
  | .input _ :: _, .sc _ :: _, _, adj => (none, adj + 1)
  | .scalar _ :: _, .ts _ :: _, _, adj => (none, adj)
  | .scalar (.conc s) :: ps, .sc a :: as, m, adj =>
    if a = s then matchArgsS ps as m adj
    else if coercible a s then matchArgsS ps as m (adj + 1)
    else (none, adj)
  | .scalar (.var n cs) :: ps, .sc a :: as, m, adj =>
    match scalarMatch (.var n cs) a m with
    | some m1 => matchArgsS ps as m1 adj
    | none => (none, adj)
  | [], _ :: _, _, adj => (none, adj)
  | _ :: _, [], _, adj => (none, adj)

def tryMatchS (o : Overload) (args : List Arg) : Option RMap × Nat :=
  if o.params.length ≠ args.length then (none, 0)
  else
    match matchArgsS o.params args RMap.empty (kwAdjust o.kw) with
    | (some m, adj) => if outResolvable o.out m then (some m, adj) else (none, adj)
    | (none, adj) => (none, adj)

def survivorOfS (args : List Arg) (o : Overload) : Option Survivor :=
  match tryMatchS o args with
  | (some m, adj) => some ⟨o, m, operatorRank o.params + adj⟩
  | (none, _) => none

def resolveCallS (os : List Overload) (args : List Arg) : Outcome :=
  decide_ (stableSort (os.filterMap (survivorOfS args)))

end HgVerif.Dispatch
