import HgVerif.Model.Extracted
/-!
Tie for the key-tick rule of `switch_evaluate` (C12): a new instance is made iff nothing is active, the switch
reloads on every key tick, or the key differs from the active key (`same_key` = active slot present, active key
present, `key_value.equals(active_key)`); `Model/Switch.lean keyStep` has exactly this test.
-/
namespace HgVerif.Tie
open HgVerif.Extracted

theorem tie_switchReloadRule : switchReloadRule = true := rfl

end HgVerif.Tie
