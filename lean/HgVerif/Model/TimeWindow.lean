/-!
# Model of the duration (time-span) `TSW` storage  (property C05, window part)

Transcribed from `src/hgraph/types/metadata/ts_data_window_ops.cpp`:

* `TSWindowStorageCore`  : two parallel heap arrays (`value_bytes_`, `time_bytes_`; here ONE list of
  `(value, time)` slots `buf`, `capacity_ = buf.length`), `head_`, `size_`, `evicted_`, `evicted_time_`;
  `physical_index(i) = capacity_ == 0 ? 0 : (head_ + i) % capacity_`; `element_at` / `time_at`;
  `append` (slot `(head_ + size_) % capacity_`), `prune_before` (advance `head_` while the head slot is older
  than the cut-off, `head_ = 0` once the window is empty), `ensure_capacity` (`max(required, 4)` for the first
  allocation, afterwards `max(required, 2 * capacity_)`), `reserve_exact` (NEW buffer, the live elements are
  copied in LOGICAL order `element_at(0), element_at(1), …` to the slots `0, 1, …`, `head_ = 0`),
  `clear_values` (logical clear, the allocation is kept).
* `TimeTSWindowStorage::push` : cut-off `modified_time - time_range_`; scan `dropped` = number of leading
  elements with `time_at(i) < cutoff`; `record_evicted(element_at(dropped - 1))` when `dropped > 0`;
  `prune_before(cutoff)`; `ensure_capacity(size() + 1)`; `append`.
* `TimeTSWContext::time_all_valid` and `TSDataView::all_valid`.
* `TSWDataMutationView::push / clear` (`window_view.cpp`): one window tick per evaluation time, a push directly
  after a clear in the same mutation view is allowed; `mark_modified` = `record_modified` (an older or equal
  time is ignored).

Times are `Nat` microseconds (`MIN_DT = 0`).  The C++ cut-off is computed in SIGNED microseconds
(`modified_time - time_range_` may be negative); `time < modified_time - range` is written here as
`time + range < modified_time`, which is the same comparison without the subtraction.

Core Lean only.
-/

namespace HgVerif.TimeWindow

/-- times are `Nat` microseconds -/
local notation "Time" => Nat
/-- one slot of the cyclic buffer: `(value, time)` -/
abbrev Elem := Int × Time

/-- value of a slot that has never been constructed (raw memory in the C++; never read) -/
def dflt : Elem := (0, 0)

structure TWin where
  span : Nat                        -- time_range_  (µs)
  minSpan : Nat                     -- layout.min_time_range
  buf : List Elem := []             -- physical slots; capacity_ = buf.length
  head : Nat := 0                   -- head_
  size : Nat := 0                   -- size_
  evicted : Option Int := none      -- evicted_
  evictedTime : Time := 0           -- evicted_time_
  lmt : Time := 0                   -- tracking.last_modified_time
deriving Repr, DecidableEq

def TWin.init (span minSpan : Nat) : TWin := { span := span, minSpan := minSpan }

def TWin.cap (w : TWin) : Nat := w.buf.length

/-- `physical_index` -/
def TWin.phys (w : TWin) (i : Nat) : Nat := if w.cap = 0 then 0 else (w.head + i) % w.cap

/-- `element_at(i)` / `time_at(i)` (logical index; the range check is the caller's `i < size`) -/
def TWin.elemAt (w : TWin) (i : Nat) : Elem := w.buf.getD (w.phys i) dflt

/-- the logical window: `element_at(0) … element_at(size-1)` with their times -/
def TWin.content (w : TWin) : List Elem := (List.range w.size).map w.elemAt

def TWin.values (w : TWin) : List Int := w.content.map (·.1)
def TWin.times (w : TWin) : List Time := w.content.map (·.2)

/-- `time < modified_time - time_range_` (signed), i.e. the element has left the span at time `t` -/
def expired (span t : Nat) (e : Elem) : Bool := decide (e.2 + span < t)

/-- the scan at the top of `TimeTSWindowStorage::push`:
    `while (dropped < size() && time_at(dropped) < cutoff) ++dropped;`  (fuel = `size`) -/
def TWin.scanGo (w : TWin) (t : Time) : Nat → Nat → Nat
  | 0, d => d
  | fuel + 1, d => if d < w.size && expired w.span t (w.elemAt d) then w.scanGo t fuel (d + 1) else d

def TWin.dropped (w : TWin) (t : Time) : Nat := w.scanGo t w.size 0

/-- the loop of `prune_before`: `while (size_ > 0 && time_at_physical(head_) < cutoff)
    { destroy_slot(head_); head_ = (head_ + 1) % capacity_; --size_; }`, as recursion on `size_`;
    returns `(head_, size_)` -/
def pruneGo (buf : List Elem) (span t : Nat) : Nat → Nat → Nat × Nat
  | head, 0 => (head, 0)
  | head, size + 1 =>
    if expired span t (buf.getD head dflt) then
      pruneGo buf span t (if buf.length = 0 then 0 else (head + 1) % buf.length) size
    else (head, size + 1)

/-- `prune_before(cutoff)` incl. the final `if (size_ == 0) head_ = 0;` -/
def TWin.prune (w : TWin) (t : Time) : TWin :=
  let r := pruneGo w.buf w.span t w.head w.size
  { w with head := if r.2 = 0 then 0 else r.1, size := r.2 }

/-- `reserve_exact(new_capacity)`: element `i` of the NEW buffer is `element_at(i)` (logical index) for
    `i < size_`; the remaining slots are raw; `head_ = 0`. -/
def TWin.reserveExact (w : TWin) (newCap : Nat) : TWin :=
  if newCap ≤ w.cap then w
  else { w with buf := w.content ++ List.replicate (newCap - w.size) dflt, head := 0 }

/-- `ensure_capacity(required)` -/
def TWin.ensureCapacity (w : TWin) (required : Nat) : TWin :=
  if required ≤ w.cap then w
  else w.reserveExact (if w.cap = 0 then max required 4 else max required (w.cap * 2))

/-- `append`: throws (`logic_error`, window unchanged) without capacity; `push` never gets there because of the
    preceding `ensure_capacity(size() + 1)` -/
def TWin.append (w : TWin) (v : Int) (t : Time) : TWin :=
  if w.cap = 0 then w
  else if w.size ≥ w.cap then w
  else { w with buf := w.buf.set ((w.head + w.size) % w.cap) (v, t), size := w.size + 1 }

/-- `TimeTSWindowStorage::push(source, modified_time)` -/
def TWin.pushRaw (w : TWin) (v : Int) (t : Time) : TWin :=
  let d := w.dropped t
  let w1 := if d > 0 then { w with evicted := some (w.elemAt (d - 1)).1, evictedTime := t } else w
  let w2 := w1.prune t
  let w3 := w2.ensureCapacity (w2.size + 1)
  w3.append v t

/-- `clear_values(modified_time)`: `clear()` (size 0, head 0, allocation kept), `evicted_.reset()` -/
def TWin.clearRaw (w : TWin) (t : Time) : TWin :=
  { w with size := 0, head := 0, evicted := none, evictedTime := t }

/-- `record_modified`: an older or equal time is ignored -/
def recMod (lmt t : Time) : Time := if t ≤ lmt then lmt else t

inductive TWOp where
  | push (t : Time) (v : Int)
  | clear (t : Time)
  | clearPush (t : Time) (v : Int)
deriving Repr, DecidableEq

def TWOp.time : TWOp → Time
  | .push t _ => t
  | .clear t => t
  | .clearPush t _ => t

inductive TWErr where
  | invalidArg | logic
deriving Repr, DecidableEq

/-- one mutation view per op. `begin_mutation(MIN_DT)` is refused (`invalid_argument`); `push` / `clear` throw
    `logic_error` when the window already ticked at `t`; a push directly after a clear inside the same view is
    allowed (`cleared_`) -/
def TWin.step (w : TWin) (o : TWOp) : Except TWErr TWin :=
  match o with
  | .push t v =>
    if t == 0 then .error .invalidArg
    else if w.lmt == t then .error .logic
    else .ok { (w.pushRaw v t) with lmt := recMod w.lmt t }
  | .clear t =>
    if t == 0 then .error .invalidArg
    else if w.lmt == t then .error .logic
    else .ok { (w.clearRaw t) with lmt := recMod w.lmt t }
  | .clearPush t v =>
    if t == 0 then .error .invalidArg
    else if w.lmt == t then .error .logic
    else
      let w1 := { (w.clearRaw t) with lmt := recMod w.lmt t }
      .ok { (w1.pushRaw v t) with lmt := recMod w1.lmt t }

/-- errors leave the window unchanged -/
def TWin.stepD (w : TWin) (o : TWOp) : TWin := match w.step o with | .ok w' => w' | .error _ => w

/-! ### readers -/

def TWin.valid (w : TWin) : Bool := w.lmt != 0

/-- `TSDataView::all_valid` = `has_current_value` && `time_all_valid`:
    `!empty && (min_time_range <= 0 || time_at(size-1) - time_at(0) >= min_time_range)` -/
def TWin.allValid (w : TWin) : Bool :=
  w.lmt != 0 && (w.size != 0 &&
    (w.minSpan == 0 || decide ((w.elemAt 0).2 + w.minSpan ≤ (w.elemAt (w.size - 1)).2)))

/-- `first_modified_time()` -/
def TWin.firstModifiedTime (w : TWin) : Time := if w.size = 0 then 0 else (w.elemAt 0).2

def TWin.modifiedAt (w : TWin) (t : Time) : Bool := t != 0 && w.lmt == t

/-- `has_removed_value(t) ? removed_value(t) : none` -/
def TWin.removedAt (w : TWin) (t : Time) : Option Int :=
  if t != 0 && w.evictedTime == t then w.evicted else none

/-- `cleared(t)`: `cleared_time() = evicted_.has_value() ? MIN_DT : evicted_time_` -/
def TWin.clearedAt (w : TWin) (t : Time) : Bool :=
  t != 0 && (if w.evicted.isSome then 0 else w.evictedTime) == t

/-- `delta_value(t)`: the newest element when the window ticked at `t` (nothing for an empty window) -/
def TWin.deltaAt (w : TWin) (t : Time) : Option Int :=
  if w.modifiedAt t && w.size != 0 then some (w.elemAt (w.size - 1)).1 else none

end HgVerif.TimeWindow
