import HgVerif.Model.NodeSched
/-!
Model of the real-time run loop of `src/hgraph/runtime/executor.cpp`
(`run_storage` instantiated with `advance_realtime`, `realtime_mark_push_update_pending_impl`,
`realtime_request_stop_impl`, `realtime_reset_push_update_pending_impl`), of the wall-clock
alarm admission rule of `include/hgraph/runtime/node_scheduler.h` (`schedule(..., on_wall_clock)`),
and of the small graph the correspondence harness (`harness/drv_realtime.cpp`) runs:
one unbounded queue push source (+ sink) and `n` scripted scheduler nodes.

The environment is explicit and arbitrary:
* the wall clock is a field of the shared state that only environment events move (monotone);
* environment events (`adv`ance the clock, `push` a value through the sender, request `stop`)
  arrive at every point where the single evaluation thread is not inside a mutex-protected
  section: while the loop waits (`WEv`, together with time-outs and spurious wake-ups), just
  before a cycle evaluates (after the loop's stop check, before the flag reset), inside node
  evaluation, and after the cycle;
* the wait is the predicate wait of `advance_realtime`, in slices of `max_wait_slice`.

Times are microsecond counts.  `none : Option Nat` stands for `MAX_DT`.
The node scheduler is the C18 model (`HgVerif.NodeSched`); a wall-clock alarm is the same
`schedule` call after the admission rewrite `wallTime`.
Core Lean only.
-/
namespace HgVerif.Realtime
open HgVerif.NodeSched (NodeSt)

/-- `max_immediate_drain_cycles` -/
def drainLimit : Nat := 1024

/-! ### environment events and the shared (cross-thread) state -/

inductive EnvEv where
  | adv (d : Nat)      -- the wall clock moves forward by `d`
  | push (v : Nat)     -- `sender.try_send(v)` from some thread
  | stop               -- `request_stop()` from some thread
deriving Repr, DecidableEq

/-- what can happen while the loop is blocked in the wait -/
inductive WEv where
  | env (e : EnvEv)
  | tmo                -- the wait times out (the clock moves to the deadline)
  | spur               -- spurious wake-up
deriving Repr, DecidableEq

/-- operations of a scripted node -/
inductive ROp where
  | rel (d : Nat)       -- `sched.schedule(TimeDelta{d})`
  | abs (t : Nat)       -- `sched.schedule(DateTime{t})`
  | wallRel (d : Nat)   -- `sched.schedule(TimeDelta{d}, nullopt, on_wall_clock = true)`
  | wallAbs (t : Nat)   -- `sched.schedule(DateTime{t}, nullopt, on_wall_clock = true)`
  | env (e : EnvEv)     -- an environment event landing while this node evaluates
  | loop                -- marker: this script entry repeats for every later evaluation
deriving Repr, DecidableEq

/-- `RealTimeExecutorStorage` flags + the push queue + the wall clock -/
structure Sh where
  wall : Nat
  flag : Bool := false         -- `push_update_pending` (under the executor mutex)
  stopReq : Bool := false      -- `stop_requested`
  queue : List Nat := []       -- `QueuePolicyStorage::values` (unbounded: `max_pending = 0`)
  accepting : Bool := false    -- `QueuePolicyStorage::accepting`
deriving Repr, DecidableEq

/-- log token of one event / operation -/
inductive Tok where
  | adv (d : Nat)
  | pushed (v : Nat) (accepted : Bool) (wall : Nat)
  | stopped (wall : Nat)
  | tmo
  | spur
  | rel (d : Nat)
  | abs (t : Nat)
  | wallRel (d : Nat) (wall : Nat)
  | wallAbs (t : Nat) (wall : Nat)
deriving Repr, DecidableEq

/-- `realtime_mark_push_update_pending_impl`: under the mutex, ignored once stop is requested -/
def mark (s : Sh) : Sh := if s.stopReq then s else { s with flag := true }

/-- `realtime_request_stop_impl` -/
def reqStop (s : Sh) : Sh := { s with stopReq := true }

/-- `realtime_reset_push_update_pending_impl` -/
def resetFlag (s : Sh) : Bool × Sh := (s.flag, { s with flag := false })

/-- `PushSourceSenderControl::try_send` on an unbounded queue policy:
    refused when the executor has a stop request or the queue is not accepting;
    the executor is marked only when the queue was empty (`wake_required = was_empty`). -/
def trySend (v : Nat) (s : Sh) : Sh × Bool :=
  if s.stopReq then (s, false)
  else if !s.accepting then (s, false)
  else
    let s1 := { s with queue := s.queue ++ [v] }
    (if s.queue.isEmpty then mark s1 else s1, true)

def playEnv (e : EnvEv) (s : Sh) : Sh × Tok :=
  match e with
  | .adv d => ({ s with wall := s.wall + d }, .adv d)
  | .push v => let r := trySend v s; (r.1, .pushed v r.2 s.wall)
  | .stop => (reqStop s, .stopped s.wall)

def playEnvs : List EnvEv → Sh → List Tok → Sh × List Tok
  | [], s, toks => (s, toks)
  | e :: rest, s, toks => let r := playEnv e s; playEnvs rest r.1 (toks ++ [r.2])

/-! ### the wait -/

/-- the predicate of the wait: `push_update_pending || stop_requested` -/
def wakeRequested (s : Sh) : Bool := s.flag || s.stopReq

structure WaitRes where
  woken : Bool          -- `wait_for` returned `true` (predicate satisfied before the time-out)
  evs : List WEv
  sh : Sh
  toks : List Tok

/-- one `condition.wait_for(lock, remaining, wake_requested)`: the mutex is released, events
    happen one at a time, and after each of them (notification, spurious wake-up or time-out)
    the predicate is evaluated under the mutex.  An exhausted script lets the wait time out. -/
def waitOnce : Nat → List WEv → Sh → List Tok → WaitRes
  | remaining, [], s, toks =>
    let s' := { s with wall := s.wall + remaining }
    { woken := wakeRequested s', evs := [], sh := s', toks := toks }
  | remaining, e :: rest, s, toks =>
    let r : Sh × Tok × Bool × Nat := match e with
      | .env (.adv d) => ({ s with wall := s.wall + d }, .adv d, decide (d ≥ remaining), remaining - d)
      | .tmo => ({ s with wall := s.wall + remaining }, .tmo, true, 0)
      | .spur => (s, .spur, false, remaining)
      | .env ev => let p := playEnv ev s; (p.1, p.2, false, remaining)
    if wakeRequested r.1 then { woken := true, evs := rest, sh := r.1, toks := toks ++ [r.2.1] }
    else if r.2.2.1 then { woken := false, evs := rest, sh := r.1, toks := toks ++ [r.2.1] }
    else waitOnce r.2.2.2 rest r.1 (toks ++ [r.2.1])

/-- trace entries -/
inductive Reason where
  | stop | endReached | cutoff | fuel
deriving Repr, DecidableEq

structure CycleRec where
  t : Nat                                   -- evaluation time
  wall : Nat                                -- the wall clock when the cycle begins (= the loop's last read)
  before : Option (List Tok) := none
  nodes : List (Nat × Nat × List Tok) := [] -- (node id, evaluation count, ops) in evaluation order
  delivered : Option Nat := none            -- value the sink received
  next : Option Nat := none                 -- `next_scheduled_time` after the cycle
  after : Option (List Tok) := none
deriving Repr, DecidableEq

inductive Entry where
  | start (wall : Nat)
  | startNode (id : Nat) (toks : List Tok)
  | waited (toks : List Tok)
  | cycle (c : CycleRec)
  | fin (r : Reason) (wall : Nat)
deriving Repr, DecidableEq

structure LoopRes where
  wallNow : Nat
  evs : List WEv
  sh : Sh
  log : List Entry

/-- the `while (wall_now < target && !wake_requested())` loop of `advance_realtime`.
    `fuel` bounds the iterations; `target - wall_now` always suffices (each time-out moves the
    clock by at least one microsecond). -/
def waitLoop (target slice : Nat) : Nat → Nat → List WEv → Sh → List Entry → LoopRes
  | 0, wn, evs, s, log => { wallNow := wn, evs := evs, sh := s, log := log }
  | fuel + 1, wn, evs, s, log =>
    if wn < target && !wakeRequested s then
      let r := waitOnce (min (target - wn) slice) evs s []
      let log' := if r.toks.isEmpty then log else log ++ [.waited r.toks]
      if r.woken then { wallNow := r.sh.wall, evs := r.evs, sh := r.sh, log := log' }
      else waitLoop target slice fuel r.sh.wall r.evs r.sh log'
    else { wallNow := wn, evs := evs, sh := s, log := log }

structure AdvRes where
  t : Nat               -- the new `evaluation_time`
  cut : Bool            -- the drain cut-off fired and changed the result
  wallNow : Nat         -- the loop's last clock read
  evs : List WEv
  sh : Sh
  log : List Entry

/-- `GraphExecutorBuilder::max_wait_slice`: non-positive values select the default -/
def effSlice (slice : Nat) : Nat := if slice > 0 then slice else 10000000

/-- `advance_realtime(state, next_scheduled_time)` -/
def advance (endT slice nextSched prevT consec : Nat) (evs : List WEv) (s : Sh) (log : List Entry) : AdvRes :=
  let target := min nextSched endT
  let nextCycle := prevT + 1
  let r := waitLoop target (effSlice slice) (target - s.wall) s.wall evs s log
  let wallOrNextCycle := max r.wallNow nextCycle
  let next := min target wallOrNextCycle
  if r.wallNow ≥ endT && next ≤ nextCycle && consec ≥ drainLimit then
    { t := endT, cut := decide (next < endT), wallNow := r.wallNow, evs := r.evs, sh := r.sh, log := r.log }
  else
    { t := next, cut := false, wallNow := r.wallNow, evs := r.evs, sh := r.sh, log := r.log }

/-! ### wall-clock alarms -/

/-- the rewrite `NodeScheduler::schedule` applies to an `on_wall_clock` request before inserting
    it (`ref = max(now_, wall_clock_.now())`): an alarm that is already due is moved to the next
    evaluatable time instead of being dropped. -/
def wallTime (now ref : Nat) (started : Bool) (w : Nat) : Nat :=
  if started then (if w ≤ ref then max (now + 1) ref else w)
  else (if w < ref then ref else w)

/-! ### the scripted graph -/

structure RNode where
  st : NodeSt := {}
  k : Nat := 0               -- evaluations so far (the start hook is evaluation 0)
deriving Repr, DecidableEq

structure Gr where
  nodes : List RNode
  next : Option Nat := none  -- `next_scheduled_time`
deriving Repr, DecidableEq

structure Cfg where
  start : Nat
  endT : Nat
  slice : Nat
  wall0 : Nat
  cost : Nat                              -- wall-clock cost of one evaluation cycle
  scripts : List (List (List ROp))        -- node `i` (id `i+1`): its per-evaluation op lists
  before : List (Nat × List EnvEv) := []  -- cycle ordinal ↦ events just before it evaluates
  after : List (Nat × List EnvEv) := []
deriving Repr

def lookupEvs : List (Nat × List EnvEv) → Nat → Option (List EnvEv)
  | [], _ => none
  | (k, l) :: rest, n => if k = n then some l else lookupEvs rest n

def hasLoop (l : List ROp) : Bool := l.any (fun o => o == .loop)

/-- the op list of evaluation `k` of a script -/
def scriptEntry (sc : List (List ROp)) (k : Nat) : List ROp :=
  match sc[k]? with
  | some l => l
  | none => match sc.getLast? with
    | some l => if hasLoop l then l else []
    | none => []

structure OpsRes where
  ops : List NodeSched.Op
  sh : Sh
  toks : List Tok

/-- execute one script entry at evaluation time `now`: scheduler requests are resolved against
    the clock into node-scheduler operations, environment events act on the shared state. -/
def runOps (now : Nat) (started : Bool) : List ROp → Sh → List NodeSched.Op → List Tok → OpsRes
  | [], s, acc, toks => { ops := acc, sh := s, toks := toks }
  | .rel d :: r, s, acc, toks => runOps now started r s (acc ++ [.schedDelta d 0]) (toks ++ [.rel d])
  | .abs t :: r, s, acc, toks => runOps now started r s (acc ++ [.sched t 0]) (toks ++ [.abs t])
  | .wallRel d :: r, s, acc, toks =>
    let ref := max now s.wall
    runOps now started r s (acc ++ [.sched (wallTime now ref started (ref + d)) 0]) (toks ++ [.wallRel d s.wall])
  | .wallAbs t :: r, s, acc, toks =>
    let ref := max now s.wall
    runOps now started r s (acc ++ [.sched (wallTime now ref started t) 0]) (toks ++ [.wallAbs t s.wall])
  | .env e :: r, s, acc, toks => let p := playEnv e s; runOps now started r p.1 acc (toks ++ [p.2])
  | .loop :: r, s, acc, toks => runOps now started r s acc toks

structure NodesRes where
  nodes : List RNode
  sh : Sh
  recs : List (Nat × Nat × List Tok)

/-- `graph.start`: the start hooks of the script nodes in order (`started = false`) -/
def startNodes (start : Nat) : List (List (List ROp)) → Nat → Sh → List RNode → List (Nat × Nat × List Tok) → NodesRes
  | [], _, s, acc, recs => { nodes := acc, sh := s, recs := recs }
  | sc :: rest, id, s, acc, recs =>
    let r := runOps start false (scriptEntry sc 0) s [] []
    let st := NodeSched.startNode start r.ops {}
    startNodes start rest (id + 1) r.sh (acc ++ [{ st := st, k := 1 }]) (recs ++ [(id, 0, r.toks)])

/-- the scan of `evaluate_impl` over the script nodes: a node runs iff its slot equals the cycle time -/
def evalNodes (t : Nat) : List (List (List ROp)) → List RNode → Nat → Sh → List RNode → List (Nat × Nat × List Tok) → NodesRes
  | sc :: scs, n :: ns, id, s, acc, recs =>
    if n.st.slot = t then
      let r := runOps t true (scriptEntry sc n.k) s [] []
      let st := NodeSched.evalNode t r.ops n.st
      evalNodes t scs ns (id + 1) r.sh (acc ++ [{ st := st, k := n.k + 1 }]) (recs ++ [(id, n.k, r.toks)])
    else evalNodes t scs ns (id + 1) s (acc ++ [n]) recs
  | _, ns, _, s, acc, recs => { nodes := acc ++ ns, sh := s, recs := recs }

/-- `min` of the armed slots satisfying `p` -/
def minSlot (p : Nat → Bool) (nodes : List RNode) : Option Nat :=
  nodes.foldl (fun acc n => if p n.st.slot then
      (match acc with | none => some n.st.slot | some m => if n.st.slot < m then some n.st.slot else acc)
    else acc) none

structure StartRes where
  g : Gr
  sh : Sh
  log : List Entry

/-- `graph.start(start_time)`: the push source starts accepting, the script nodes run their
    start hooks, `next_scheduled_time` is seeded with `scheduled >= evaluation_time`. -/
def startGraph (cfg : Cfg) (s : Sh) : StartRes :=
  let s0 := { s with accepting := true }
  let r := startNodes cfg.start cfg.scripts 1 s0 [] []
  { g := { nodes := r.nodes, next := minSlot (fun x => decide (x ≥ cfg.start)) r.nodes },
    sh := r.sh,
    log := r.recs.map (fun x => .startNode x.1 x.2.2) }

structure EvalRes where
  g : Gr
  sh : Sh
  crec : CycleRec

/-- one `graph.evaluate(t)` of cycle number `k`, with the harness's observation points around it -/
def evalGraph (cfg : Cfg) (k t : Nat) (g : Gr) (s : Sh) : EvalRes :=
  let wallAtBegin := s.wall
  -- events after the loop's stop check and before the flag reset (`on_before_graph_evaluation`)
  let b : Sh × Option (List Tok) := match lookupEvs cfg.before k with
    | some l => let r := playEnvs l s []; (r.1, some r.2)
    | none => (s, none)
  -- push phase: `reset_push_update_pending`, then `push_source_eval` when it was set
  let rf := resetFlag b.1
  let p : Sh × Option Nat :=
    if rf.1 then
      match rf.2.queue with
      | [] => (rf.2, none)
      | v :: rest =>
        let s1 := { rf.2 with queue := rest }
        (if rest.isEmpty then s1 else mark s1, some v)     -- re-arm when more is pending
    else (rf.2, none)
  let nr := evalNodes t cfg.scripts g.nodes 1 p.1 [] []
  let nxt := minSlot (fun x => decide (x > t)) nr.nodes
  -- the cycle took `cost`; then events before the loop looks at the stop flag again
  let s2 := { nr.sh with wall := nr.sh.wall + cfg.cost }
  let a : Sh × Option (List Tok) := match lookupEvs cfg.after k with
    | some l => let r := playEnvs l s2 []; (r.1, some r.2)
    | none => (s2, none)
  let cr : CycleRec :=
    { t := t, wall := wallAtBegin, before := b.2, nodes := nr.recs, delivered := p.2, next := nxt, after := a.2 }
  { g := { nodes := nr.nodes, next := nxt }, sh := a.1, crec := cr }

/-! ### the run loop -/

structure LoopSt where
  k : Nat := 0            -- cycles evaluated so far
  evalTime : Nat          -- `state.evaluation_time`
  consec : Nat := 0       -- `consecutive_immediate_cycles`
  g : Gr
  evs : List WEv
  sh : Sh
  log : List Entry := []

inductive Iter where
  | cont (st : LoopSt)
  | done (r : Reason) (st : LoopSt)

/-- one iteration of the `while (!stop_requested)` loop of `run_storage` -/
def iter (cfg : Cfg) (st : LoopSt) : Iter :=
  if st.sh.stopReq then .done .stop st
  else
    -- `idle_run_continues` is `true` in real time: an idle graph waits for `end_time`
    let nxt := match st.g.next with
      | none => cfg.endT
      | some n => if n ≥ cfg.endT then cfg.endT else n
    let a := advance cfg.endT cfg.slice nxt st.evalTime st.consec st.evs st.sh st.log
    let st1 : LoopSt := { st with evalTime := a.t, evs := a.evs, sh := a.sh, log := a.log }
    if a.sh.stopReq then .done .stop st1
    else if a.t ≥ cfg.endT then .done (if a.cut then .cutoff else .endReached) st1
    else
      let consec' := if a.t = st.evalTime + 1 then st.consec + 1 else 0
      let e := evalGraph cfg st.k a.t st.g a.sh
      .cont { k := st.k + 1, evalTime := a.t, consec := consec', g := e.g, evs := a.evs, sh := e.sh,
              log := a.log ++ [.cycle e.crec] }

structure RunRes where
  reason : Reason
  st : LoopSt

def runLoop (cfg : Cfg) : Nat → LoopSt → RunRes
  | 0, st => { reason := .fuel, st := st }
  | fuel + 1, st =>
    match iter cfg st with
    | .done r st' => { reason := r, st := st' }
    | .cont st' => runLoop cfg fuel st'

/-- the state `run_storage` enters its loop with -/
def initSt (cfg : Cfg) (evs : List WEv) : LoopSt :=
  let s : Sh := { wall := cfg.wall0 }
  let r := startGraph cfg s
  { evalTime := cfg.start, g := r.g, evs := evs, sh := r.sh, log := [.start cfg.wall0] ++ r.log }

/-- enough iterations for any run: evaluation times are strictly increasing below `endT` -/
def runFuel (cfg : Cfg) : Nat := cfg.endT - cfg.start + 2

/-- `GraphExecutorView::run()` in real-time mode -/
def run (cfg : Cfg) (evs : List WEv) : RunRes :=
  let r := runLoop cfg (runFuel cfg) (initSt cfg evs)
  { r with st := { r.st with log := r.st.log ++ [.fin r.reason r.st.sh.wall] } }

/-- the cycle records of a log, in order -/
def cycles : List Entry → List CycleRec
  | [] => []
  | .cycle c :: rest => c :: cycles rest
  | _ :: rest => cycles rest

end HgVerif.Realtime
