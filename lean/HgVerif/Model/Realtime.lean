import HgVerif.Model.NodeSched
/-!
Model of the real-time run loop of `src/hgraph/runtime/executor.cpp`
(`run_storage` instantiated with `advance_realtime`, `realtime_mark_push_update_pending_impl`,
`realtime_request_stop_impl`, `realtime_reset_push_update_pending_impl`), of the wall-clock
alarm admission rule of `include/hgraph/runtime/node_scheduler.h` (`schedule(..., on_wall_clock)`),
and of the small graph the correspondence harness (`harness/drv_realtime.cpp`) runs:
one unbounded queue push source (+ sink) and `n` scripted scheduler nodes.

The environment is explicit and arbitrary:
* the wall clock is a field of the shared state that only environment events move (monotone);
* environment events (`adv`ance the clock, `push` a value through the sender, request `stop`)
  arrive at every point where the single evaluation thread is not inside a mutex-protected
  section: while the loop waits (`WEv`, together with time-outs and spurious wake-ups), just
  before a cycle evaluates (after the loop's stop check, before the flag reset), inside node
  evaluation, and after the cycle;
* the wait is the predicate wait of `advance_realtime`, in slices of `max_wait_slice`.

Times are microsecond counts.  `none : Option Nat` stands for `MAX_DT`.
The node scheduler is the C18 model (`HgVerif.NodeSched`); a wall-clock alarm is the same
`schedule` call after the admission rewrite `wallTime`.
Core Lean only.
-/
namespace HgVerif.Realtime
open HgVerif.NodeSched (NodeSt)

/-- `max_immediate_drain_cycles` -/
def drainLimit : Nat := 1024

/-! ### environment events and the shared (cross-thread) state -/

inductive EnvEv where
  | adv (d : Nat)      -- the wall clock moves forward by `d`
  | push (v : Nat)     -- `sender.try_send(v)` from some thread
  | stop               -- `request_stop()` from some thread
deriving Repr, DecidableEq

/-- what can happen while the loop is blocked in the wait -/
inductive WEv where
  | env (e : EnvEv)
  | tmo                -- the wait times out (the clock moves to the deadline)
  | spur               -- spurious wake-up
deriving Repr, DecidableEq

/-- operations of a scripted node -/
inductive ROp where
  | rel (d : Nat)       -- `sched.schedule(TimeDelta{d})`
  | abs (t : Nat)       -- `sched.schedule(DateTime{t})`
  | wallRel (d : Nat)   -- `sched.schedule(TimeDelta{d}, nullopt, on_wall_clock = true)`
  | wallAbs (t : Nat)   -- `sched.schedule(DateTime{t}, nullopt, on_wall_clock = true)`
  | env (e : EnvEv)     -- an environment event landing while this node evaluates
  | loop                -- marker: this script entry repeats for every later evaluation
deriving Repr, DecidableEq

/-- `RealTimeExecutorStorage` flags + the push queue + the wall clock -/
structure Sh where
  wall : Nat
  flag : Bool := false         -- `push_update_pending` (under the executor mutex)
  stopReq : Bool := false      -- `stop_requested`
  queue : List Nat := []       -- `QueuePolicyStorage::values` (unbounded: `max_pending = 0`)
  accepting : Bool := false    -- `QueuePolicyStorage::accepting`
deriving Repr, DecidableEq

/-- log token of one event / operation -/
inductive Tok where
  | adv (d : Nat)
  | pushed (v : Nat) (accepted : Bool) (wall : Nat)
  | stopped (wall : Nat)
  | tmo
  | spur
  | rel (d : Nat)
  | abs (t : Nat)
  | wallRel (d : Nat) (wall : Nat)
  | wallAbs (t : Nat) (wall : Nat)
deriving Repr, DecidableEq

/-- `realtime_mark_push_update_pending_impl`: under the mutex, ignored once stop is requested -/
def mark (s : Sh) : Sh := if s.stopReq then s else { s with flag := true }

/-- `realtime_request_stop_impl` -/
def reqStop (s : Sh) : Sh := { s with stopReq := true }

/-- `realtime_reset_push_update_pending_impl` -/
def resetFlag (s : Sh) : Bool × Sh := (s.flag, { s with flag := false })

/-- `PushSourceSenderControl::try_send` on an unbounded queue policy:
    refused when the executor has a stop request or the queue is not accepting;
    the executor is marked only when the queue was empty (`wake_required = was_empty`). -/
def trySend (v : Nat) (s : Sh) : Sh × Bool :=
  if s.stopReq then (s, false)
  else if !s.accepting then (s, false)
  else
    let s1 := { s with queue := s.queue ++ [v] }
    (if s.queue.isEmpty then mark s1 else s1, true)

def playEnv (e : EnvEv) (s : Sh) : Sh × Tok :=
  match e with
  | .adv d => ({ s with wall := s.wall + d }, .adv d)
  | .push v => let r := trySend v s; (r.1, .pushed v r.2 s.wall)
  | .stop => (reqStop s, .stopped s.wall)

def playEnvs : List EnvEv → Sh → List Tok → Sh × List Tok
  | [], s, toks => (s, toks)
  | e :: rest, s, toks => let r := playEnv e s; playEnvs rest r.1 (toks ++ [r.2])

/-! ### the wait -/

/-- the predicate of the wait: `push_update_pending || stop_requested` -/
def wakeRequested (s : Sh) : Bool := s.flag || s.stopReq

structure WaitRes where
  woken : Bool          -- `wait_for` returned `true` (predicate satisfied before the time-out)
  evs : List WEv
  sh : Sh
  toks : List Tok

structure WStep where
  sh : Sh
  tok : Tok
  timedOut : Bool
  remaining : Nat

/-- one event while the loop is blocked with `remaining` microseconds to its deadline -/
def wevStep (remaining : Nat) (e : WEv) (s : Sh) : WStep :=
  match e with
  | .env (.adv d) =>
    { sh := { s with wall := s.wall + d }, tok := .adv d, timedOut := decide (d ≥ remaining), remaining := remaining - d }
  | .tmo => { sh := { s with wall := s.wall + remaining }, tok := .tmo, timedOut := true, remaining := 0 }
  | .spur => { sh := s, tok := .spur, timedOut := false, remaining := remaining }
  | .env ev => let p := playEnv ev s; { sh := p.1, tok := p.2, timedOut := false, remaining := remaining }

/-- one `condition.wait_for(lock, remaining, wake_requested)`: the mutex is released, events
    happen one at a time, and after each of them (notification, spurious wake-up or time-out)
    the predicate is evaluated under the mutex.  An exhausted script lets the wait time out. -/
def waitOnce : Nat → List WEv → Sh → List Tok → WaitRes
  | remaining, [], s, toks =>
    let s' := { s with wall := s.wall + remaining }
    { woken := wakeRequested s', evs := [], sh := s', toks := toks }
  | remaining, e :: rest, s, toks =>
    let r := wevStep remaining e s
    if wakeRequested r.sh then { woken := true, evs := rest, sh := r.sh, toks := toks ++ [r.tok] }
    else if r.timedOut then { woken := false, evs := rest, sh := r.sh, toks := toks ++ [r.tok] }
    else waitOnce r.remaining rest r.sh (toks ++ [r.tok])

/-- trace entries -/
inductive Reason where
  | stop | endReached | cutoff | fuel
deriving Repr, DecidableEq

structure CycleRec where
  t : Nat                                   -- evaluation time
  wall : Nat                                -- the wall clock when the cycle begins (= the loop's last read)
  before : Option (List Tok) := none
  nodes : List (Nat × Nat × List Tok) := [] -- (node id, evaluation count, ops) in evaluation order
  delivered : Option Nat := none            -- value the sink received
  next : Option Nat := none                 -- `next_scheduled_time` after the cycle
  after : Option (List Tok) := none
deriving Repr, DecidableEq

inductive Entry where
  | start (wall : Nat)
  | startNode (id : Nat) (toks : List Tok)
  | waited (toks : List Tok)
  | cycle (c : CycleRec)
  | fin (r : Reason) (wall : Nat)
deriving Repr, DecidableEq

structure LoopRes where
  wallNow : Nat
  evs : List WEv
  sh : Sh
  log : List Entry

/-- the `while (wall_now < target && !wake_requested())` loop of `advance_realtime`.
    `fuel` bounds the iterations; `target - wall_now` always suffices (each time-out moves the
    clock by at least one microsecond). -/
def waitLoop (target slice : Nat) : Nat → Nat → List WEv → Sh → List Entry → LoopRes
  | 0, wn, evs, s, log => { wallNow := wn, evs := evs, sh := s, log := log }
  | fuel + 1, wn, evs, s, log =>
    if wn < target && !wakeRequested s then
      let r := waitOnce (min (target - wn) slice) evs s []
      let log' := if r.toks.isEmpty then log else log ++ [.waited r.toks]
      if r.woken then { wallNow := r.sh.wall, evs := r.evs, sh := r.sh, log := log' }
      else waitLoop target slice fuel r.sh.wall r.evs r.sh log'
    else { wallNow := wn, evs := evs, sh := s, log := log }

structure AdvRes where
  t : Nat               -- the new `evaluation_time`
  cut : Bool            -- the drain cut-off fired and changed the result
  wallNow : Nat         -- the loop's last clock read
  evs : List WEv
  sh : Sh
  log : List Entry

/-- `GraphExecutorBuilder::max_wait_slice`: non-positive values select the default -/
def effSlice (slice : Nat) : Nat := if slice > 0 then slice else 10000000

/-- `advance_realtime(state, next_scheduled_time)` -/
def advance (endT slice nextSched prevT consec : Nat) (evs : List WEv) (s : Sh) (log : List Entry) : AdvRes :=
  let target := min nextSched endT
  let nextCycle := prevT + 1
  let r := waitLoop target (effSlice slice) (target - s.wall) s.wall evs s log
  let wallOrNextCycle := max r.wallNow nextCycle
  let next := min target wallOrNextCycle
  if r.wallNow ≥ endT && next ≤ nextCycle && consec ≥ drainLimit then
    { t := endT, cut := decide (next < endT), wallNow := r.wallNow, evs := r.evs, sh := r.sh, log := r.log }
  else
    { t := next, cut := false, wallNow := r.wallNow, evs := r.evs, sh := r.sh, log := r.log }

/-! ### wall-clock alarms -/

/-- the rewrite `NodeScheduler::schedule` applies to an `on_wall_clock` request before inserting
    it (`ref = max(now_, wall_clock_.now())`): an alarm that is already due is moved to the next
    evaluatable time instead of being dropped. -/
def wallTime (now ref : Nat) (started : Bool) (w : Nat) : Nat :=
  if started then (if w ≤ ref then max (now + 1) ref else w)
  else (if w < ref then ref else w)

/-! ### the scripted graph -/

structure RNode where
  st : NodeSt := {}
  k : Nat := 0               -- evaluations so far (the start hook is evaluation 0)
deriving Repr, DecidableEq

structure Gr where
  nodes : List RNode
  next : Option Nat := none  -- `next_scheduled_time`
deriving Repr, DecidableEq

structure Cfg where
  start : Nat
  endT : Nat
  slice : Nat
  wall0 : Nat
  cost : Nat                              -- wall-clock cost of one evaluation cycle
  scripts : List (List (List ROp))        -- node `i` (id `i+1`): its per-evaluation op lists
  before : List (Nat × List EnvEv) := []  -- cycle ordinal ↦ events just before it evaluates
  after : List (Nat × List EnvEv) := []
deriving Repr

def lookupEvs : List (Nat × List EnvEv) → Nat → Option (List EnvEv)
  | [], _ => none
  | (k, l) :: rest, n => if k = n then some l else lookupEvs rest n

def hasLoop (l : List ROp) : Bool := l.any (fun o => o == .loop)

/-- the op list of evaluation `k` of a script -/
def scriptEntry (sc : List (List ROp)) (k : Nat) : List ROp :=
  match sc[k]? with
  | some l => l
  | none => match sc.getLast? with
    | some l => if hasLoop l then l else []
    | none => []

structure OpsRes where
  ops : List NodeSched.Op
  sh : Sh
  toks : List Tok

/-- execute one script entry at evaluation time `now`: scheduler requests are resolved against
    the clock into node-scheduler operations, environment events act on the shared state. -/
def runOps (now : Nat) (started : Bool) : List ROp → Sh → OpsRes
  | [], s => { ops := [], sh := s, toks := [] }
  | .rel d :: r, s =>
    let x := runOps now started r s
    { x with ops := .schedDelta d 0 :: x.ops, toks := .rel d :: x.toks }
  | .abs t :: r, s =>
    let x := runOps now started r s
    { x with ops := .sched t 0 :: x.ops, toks := .abs t :: x.toks }
  | .wallRel d :: r, s =>
    let ref := max now s.wall
    let x := runOps now started r s
    { x with ops := .sched (wallTime now ref started (ref + d)) 0 :: x.ops, toks := .wallRel d s.wall :: x.toks }
  | .wallAbs t :: r, s =>
    let ref := max now s.wall
    let x := runOps now started r s
    { x with ops := .sched (wallTime now ref started t) 0 :: x.ops, toks := .wallAbs t s.wall :: x.toks }
  | .env e :: r, s =>
    let p := playEnv e s
    let x := runOps now started r p.1
    { x with toks := p.2 :: x.toks }
  | .loop :: r, s => runOps now started r s

structure NodesRes where
  nodes : List RNode
  sh : Sh
  recs : List (Nat × Nat × List Tok)

/-- `graph.start`: the start hooks of the script nodes in order (`started = false`) -/
def startNodes (start : Nat) : List (List (List ROp)) → Nat → Sh → NodesRes
  | [], _, s => { nodes := [], sh := s, recs := [] }
  | sc :: rest, id, s =>
    let r := runOps start false (scriptEntry sc 0) s
    let st := NodeSched.startNode start r.ops {}
    let x := startNodes start rest (id + 1) r.sh
    { nodes := { st := st, k := 1 } :: x.nodes, sh := x.sh, recs := (id, 0, r.toks) :: x.recs }

/-- the scan of `evaluate_impl` over the script nodes: a node runs iff its slot equals the cycle time -/
def evalNodes (t : Nat) : List (List (List ROp)) → List RNode → Nat → Sh → NodesRes
  | sc :: scs, n :: ns, id, s =>
    if n.st.slot = t then
      let r := runOps t true (scriptEntry sc n.k) s
      let st := NodeSched.evalNode t r.ops n.st
      let x := evalNodes t scs ns (id + 1) r.sh
      { nodes := { st := st, k := n.k + 1 } :: x.nodes, sh := x.sh, recs := (id, n.k, r.toks) :: x.recs }
    else
      let x := evalNodes t scs ns (id + 1) s
      { x with nodes := n :: x.nodes }
  | _, ns, _, s => { nodes := ns, sh := s, recs := [] }

/-- fold step of `minSlot` -/
def minStep (p : Nat → Bool) (acc : Option Nat) (n : RNode) : Option Nat :=
  if p n.st.slot then
    (match acc with | none => some n.st.slot | some m => if n.st.slot < m then some n.st.slot else acc)
  else acc

/-- `min` of the armed slots satisfying `p` -/
def minSlot (p : Nat → Bool) (nodes : List RNode) : Option Nat := nodes.foldl (minStep p) none

structure StartRes where
  g : Gr
  sh : Sh
  log : List Entry

/-- `graph.start(start_time)`: the push source starts accepting, the script nodes run their
    start hooks, `next_scheduled_time` is seeded with `scheduled >= evaluation_time`. -/
def startGraph (cfg : Cfg) (s : Sh) : StartRes :=
  let s0 := { s with accepting := true }
  let r := startNodes cfg.start cfg.scripts 1 s0
  { g := { nodes := r.nodes, next := minSlot (fun x => decide (x ≥ cfg.start)) r.nodes },
    sh := r.sh,
    log := r.recs.map (fun x => .startNode x.1 x.2.2) }

structure EvalRes where
  g : Gr
  sh : Sh
  crec : CycleRec

/-- events played at an observation point of cycle `k`, if the script has any -/
def obsPhase (evs : List (Nat × List EnvEv)) (k : Nat) (s : Sh) : Sh × Option (List Tok) :=
  match lookupEvs evs k with
  | some l => let r := playEnvs l s []; (r.1, some r.2)
  | none => (s, none)

/-- the push phase of `evaluate_impl`: `reset_push_update_pending`, then `push_source_eval`
    when the flag was set: pop one value, re-arm the executor when more is pending -/
def pushPhase (s : Sh) : Sh × Option Nat :=
  let rf := resetFlag s
  if rf.1 then
    match rf.2.queue with
    | [] => (rf.2, none)
    | v :: rest =>
      let s1 := { rf.2 with queue := rest }
      (if rest.isEmpty then s1 else mark s1, some v)
  else (rf.2, none)

/-- one `graph.evaluate(t)` of cycle number `k`, with the harness's observation points around it:
    events after the loop's stop check and before the flag reset (`on_before_graph_evaluation`),
    the push phase, the scan, the cost of the cycle, events before the loop looks at the stop
    flag again (`on_after_graph_evaluation`). -/
def evalGraph (cfg : Cfg) (k t : Nat) (g : Gr) (s : Sh) : EvalRes :=
  let b := obsPhase cfg.before k s
  let p := pushPhase b.1
  let nr := evalNodes t cfg.scripts g.nodes 1 p.1
  let nxt := minSlot (fun x => decide (x > t)) nr.nodes
  let a := obsPhase cfg.after k { nr.sh with wall := nr.sh.wall + cfg.cost }
  { g := { nodes := nr.nodes, next := nxt }, sh := a.1,
    crec := { t := t, wall := s.wall, before := b.2, nodes := nr.recs, delivered := p.2, next := nxt, after := a.2 } }

/-! ### the run loop -/

structure LoopSt where
  k : Nat := 0            -- cycles evaluated so far
  evalTime : Nat          -- `state.evaluation_time`
  consec : Nat := 0       -- `consecutive_immediate_cycles`
  g : Gr
  evs : List WEv
  sh : Sh

/-- result of one loop iteration, with the trace entries it produced -/
inductive Iter where
  | cont (st : LoopSt) (ents : List Entry)
  | done (r : Reason) (st : LoopSt) (ents : List Entry)

/-- `next` as `run_storage` passes it to `advance`: `idle_run_continues` is `true` in real
    time, so an idle graph (or one with nothing before `end_time`) waits for `end_time` -/
def loopNext (endT : Nat) : Option Nat → Nat
  | none => endT
  | some n => if n ≥ endT then endT else n

/-- one iteration of the `while (!stop_requested)` loop of `run_storage` -/
def iter (cfg : Cfg) (st : LoopSt) : Iter :=
  if st.sh.stopReq then .done .stop st []
  else
    let a := advance cfg.endT cfg.slice (loopNext cfg.endT st.g.next) st.evalTime st.consec st.evs st.sh []
    let st1 : LoopSt := { st with evalTime := a.t, evs := a.evs, sh := a.sh }
    if a.sh.stopReq then .done .stop st1 a.log
    else if a.t ≥ cfg.endT then .done (if a.cut then .cutoff else .endReached) st1 a.log
    else
      let consec' := if a.t = st.evalTime + 1 then st.consec + 1 else 0
      let e := evalGraph cfg st.k a.t st.g a.sh
      .cont { k := st.k + 1, evalTime := a.t, consec := consec', g := e.g, evs := a.evs, sh := e.sh }
            (a.log ++ [.cycle e.crec])

structure RunRes where
  reason : Reason
  st : LoopSt
  log : List Entry        -- the entries produced from the given state on

def runLoop (cfg : Cfg) : Nat → LoopSt → RunRes
  | 0, st => { reason := .fuel, st := st, log := [] }
  | fuel + 1, st =>
    match iter cfg st with
    | .done r st' ents => { reason := r, st := st', log := ents }
    | .cont st' ents =>
      let r := runLoop cfg fuel st'
      { r with log := ents ++ r.log }

/-- the state `run_storage` enters its loop with (after `graph.start`), and the start entries -/
def initSt (cfg : Cfg) (evs : List WEv) : LoopSt × List Entry :=
  let s : Sh := { wall := cfg.wall0 }
  let r := startGraph cfg s
  ({ evalTime := cfg.start, g := r.g, evs := evs, sh := r.sh }, [.start cfg.wall0] ++ r.log)

/-- enough iterations for any run: evaluation times are strictly increasing below `endT` -/
def runFuel (cfg : Cfg) : Nat := cfg.endT - cfg.start + 2

/-- `GraphExecutorView::run()` in real-time mode -/
def run (cfg : Cfg) (evs : List WEv) : RunRes :=
  let i := initSt cfg evs
  let r := runLoop cfg (runFuel cfg) i.1
  { r with log := i.2 ++ r.log ++ [.fin r.reason r.st.sh.wall] }

/-- the cycle records of a log, in order -/
def cycles : List Entry → List CycleRec
  | [] => []
  | .cycle c :: rest => c :: cycles rest
  | _ :: rest => cycles rest

/-- which slot values count as armed in a loop state: `scheduled >= start_time` right after
    `graph.start`, `scheduled > evaluation_time` after a cycle -/
def armedP (cfg : Cfg) (st : LoopSt) (x : Nat) : Bool :=
  if st.k = 0 then decide (x ≥ cfg.start) else decide (x > st.evalTime)

/-- node `j` (id `j+1`) has a wake-up armed for time `T` -/
def Armed (cfg : Cfg) (st : LoopSt) (j T : Nat) : Prop :=
  ∃ n, st.g.nodes[j]? = some n ∧ n.st.slot = T ∧ armedP cfg st T = true

/-- a token recording a stop request -/
def hasStopTok (l : List Tok) : Bool := l.any (fun t => match t with | .stopped _ => true | _ => false)

/-- the entry records a stop request -/
def entryHasStop : Entry → Bool
  | .waited toks => hasStopTok toks
  | .startNode _ toks => hasStopTok toks
  | .cycle c =>
    (match c.before with | some l => hasStopTok l | none => false)
    || c.nodes.any (fun n => hasStopTok n.2.2)
    || (match c.after with | some l => hasStopTok l | none => false)
  | _ => false

/-! ### the signal protocol at lock level

The run-loop model above treats every mutex-protected section as one atomic step.  This small
transition system justifies that for the wake-up protocol: the loop thread (`lock; while
(!pred) cv.wait(lock)`, later `reset` under the mutex) against any number of signalling threads
(`{ lock; flag = true; } notify_all()` — `realtime_mark_push_update_pending_impl` and
`realtime_request_stop_impl`), interleaved arbitrarily.  `flag` stands for the wait predicate
`push_update_pending || stop_requested`. -/
namespace Sig

inductive LPc where
  | outside                -- evaluating / at the loop head, mutex not held
  | locked                 -- holds the mutex, about to read the predicate
  | read (seen : Bool)     -- has read the predicate, still holds the mutex
  | waiting                -- blocked in `cv.wait` (mutex released atomically with blocking)
  | woken                  -- unblocked, must re-acquire the mutex
  | running                -- left the wait loop (mutex released)
deriving Repr, DecidableEq

inductive SPc where
  | idle | locked | set | unlocked
deriving Repr, DecidableEq

inductive Owner where
  | loop | sig (i : Nat)
deriving Repr, DecidableEq

structure P where
  mutex : Option Owner := none
  flag : Bool := false
  lpc : LPc := .outside
  spc : Nat → SPc := fun _ => .idle
  notified : Bool := false      -- a notification has reached the blocked loop thread

def upd (f : Nat → SPc) (i : Nat) (v : SPc) : Nat → SPc := fun j => if j = i then v else f j

/-- atomic steps of the threads; `nolock` additionally allows the broken variant in which a
    signaller sets the flag without holding the mutex -/
inductive Step (nolock : Bool) : P → P → Prop where
  | l_lock (s : P) : s.lpc = .outside → s.mutex = none → Step nolock s { s with mutex := some .loop, lpc := .locked }
  | l_read (s : P) : s.lpc = .locked → Step nolock s { s with lpc := .read s.flag }
  | l_skip (s : P) : s.lpc = .read true → Step nolock s { s with lpc := .running, mutex := none }
  | l_block (s : P) : s.lpc = .read false →
      Step nolock s { s with lpc := .waiting, mutex := none, notified := false }
  | l_notified (s : P) : s.lpc = .waiting → s.notified = true → Step nolock s { s with lpc := .woken, notified := false }
  | l_timeout (s : P) : s.lpc = .waiting → Step nolock s { s with lpc := .woken }     -- time-out or spurious wake-up
  | l_relock (s : P) : s.lpc = .woken → s.mutex = none → Step nolock s { s with mutex := some .loop, lpc := .locked }
  | l_reset (s : P) : s.lpc = .running → s.mutex = none → Step nolock s { s with flag := false, lpc := .outside }
  | s_lock (s : P) (i : Nat) : s.spc i = .idle → s.mutex = none →
      Step nolock s { s with mutex := some (.sig i), spc := upd s.spc i .locked }
  | s_set (s : P) (i : Nat) : s.spc i = .locked → Step nolock s { s with flag := true, spc := upd s.spc i .set }
  | s_unlock (s : P) (i : Nat) : s.spc i = .set → Step nolock s { s with mutex := none, spc := upd s.spc i .unlocked }
  | s_notify (s : P) (i : Nat) : s.spc i = .unlocked →
      Step nolock s { s with notified := (if s.lpc = .waiting then true else s.notified), spc := upd s.spc i .idle }
  | s_set_nolock (s : P) (i : Nat) : nolock = true → s.spc i = .idle →
      Step nolock s { s with flag := true, spc := upd s.spc i .unlocked }

inductive Reach (nolock : Bool) : P → Prop where
  | init : Reach nolock {}
  | step {s s' : P} : Reach nolock s → Step nolock s s' → Reach nolock s'

/-- a missed signal: the predicate is true, the loop is blocked, and nothing will wake it
    before the slice times out -/
def Missed (s : P) : Prop :=
  s.lpc = .waiting ∧ s.flag = true ∧ s.notified = false ∧ ∀ i, s.spc i ≠ .set ∧ s.spc i ≠ .unlocked

end Sig

end HgVerif.Realtime
