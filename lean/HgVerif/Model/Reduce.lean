/-
Model of the associative `reduce` runtime node, `src/hgraph/runtime/reduce_node.cpp`
(+ `include/hgraph/runtime/reduce_node.h`, docs `nested_graphs.rst` "Associative reduce runtime"),
and of the fixed-`TSL` lifted fast path in `lib/std/operators/impl/higher_order_impl.h`
(`wire_lifted_reduce_tsl`).

What is modelled, as the code has it:

* `ReduceNodeStorage`: `dense_to_key` (`keys`; `key_to_leaf` is its inverse, `leafOf`),
  `leaf_capacity` (`cap`, a power of two, monotonic, `0` until the first key),
  `combiners` (`combiners[p] != nullptr` as a `Bool` per heap position, size `cap - 1`),
  `current_bank`, `previous_generation` (+ its time), `structural_leaves`, `primed`, `published`.
* `remove_leaf_at` (move the LAST leaf into the hole, pop), `record_removed_leaf_paths`,
  the sparse/full `reconcile_leaf_state`, `append_structural_leaf_path`, `rebuild_structure`
  (capacity rule with `bit_ceil`, bank swap, structural positions, phase-1 create/retire, phase-3
  previous generation), `reduce_reconcile`, `destroy_previous_generation_before`.
* `resolve_aggregate` in the code's closed form (`bit_floor` / `bit_width` / shift / the
  `while (live_in_subtree <= span / 2)` descent) = `resolveClosed`, and the recursive definition of
  the developer guide ("empty leaf -> Empty; live leaf -> Leaf; internal: both children empty ->
  Empty, exactly one non-empty -> alias that child's aggregate, both -> Node") = `resolveRec`.
* `root_aggregate` (singleton-with-zero rule) and the value a combiner publishes: what
  `evaluate_lifted_combiner` / a bound combiner child graph computes from `aggregate_output` of its two
  child aggregates (`Leaf` -> that source element, `Node` -> that combiner's output, `Empty` -> the
  zero input).

What is NOT modelled (see Props/C11.lean "partial"): which cached combiner outputs are refreshed on a
value tick (`prepare_reduce_evaluation_positions`), the input link re-binding of generic combiners and
the keyed publication snapshot.  `nodeOut` is the value the tree holds once every live combiner on a
changed path has been evaluated deepest-first, which is what one engine cycle does.

The order in which one cycle's removed / added keys are visited is the slot order of the `TSD`
delta chains, which is internal to the slot store; the model visits them in the order given.  The
theorems hold for every order (`reduce_history_free`).

Core Lean only (no Mathlib): the driver runs these definitions.
-/
set_option linter.unusedVariables false

namespace HgVerif.Reduce

/-! ## aggregate resolution -/

/-- `struct Aggregate { Kind kind; size_t index; }` -/
inductive Agg where
  | empty : Agg
  | leaf (i : Nat) : Agg
  | node (p : Nat) : Agg
deriving DecidableEq, Repr, Inhabited

def Agg.isEmpty : Agg → Bool
  | .empty => true
  | _ => false

/-- `internal_count`: heap positions `0 .. cap-2` are internal, leaves are `internal_count + dense_leaf` -/
def internalCount (cap : Nat) : Nat := if cap > 1 then cap - 1 else 0

/-- `std::bit_floor` -/
def bitFloor (x : Nat) : Nat := if x = 0 then 0 else 2 ^ x.log2
/-- `std::bit_width` -/
def bitWidth (x : Nat) : Nat := if x = 0 then 0 else x.log2 + 1
/-- `std::bit_ceil` -/
def bitCeil (x : Nat) : Nat := if x ≤ 1 then 1 else 2 ^ ((x - 1).log2 + 1)

/-- the loop `while (live_in_subtree <= span / 2) { aggregate_position = 2*aggregate_position+1; span /= 2; }`.
    (The C++ loop would not terminate for `live_in_subtree = 0`; the guard `0 < span` makes the
    model total.  The loop is only entered with `live_in_subtree ≥ 2`.) -/
def descend (lis pos span : Nat) : Nat :=
  if lis ≤ span / 2 ∧ 0 < span then descend lis (2 * pos + 1) (span / 2) else pos
termination_by span
decreasing_by omega

/-- `resolve_aggregate(storage, position)`: the closed form of the code.
    `cap = leaf_capacity`, `live = dense_to_key.size()`. -/
def resolveClosed (cap live position : Nat) : Agg :=
  let internals := internalCount cap
  if position ≥ internals then
    let leaf := position - internals
    if leaf < live then .leaf leaf else .empty
  else
    let levelStart := bitFloor (position + 1)
    let depth := bitWidth levelStart - 1
    let span := cap >>> depth
    let firstLeaf := (position + 1 - levelStart) * span
    if firstLeaf ≥ live then .empty
    else
      let lis := min span (live - firstLeaf)
      if lis = 1 then .leaf firstLeaf
      else .node (descend lis position span)

/-- The recursive definition (developer guide, "Aggregate resolution (per position)"). -/
def resolveRec (cap live position : Nat) : Agg :=
  if h : position < internalCount cap then
    match resolveRec cap live (2 * position + 1), resolveRec cap live (2 * position + 2) with
    | .empty, r => r
    | l, .empty => l
    | _, _ => .node position
  else
    let leaf := position - internalCount cap
    if leaf < live then .leaf leaf else .empty
termination_by 2 * cap - position
decreasing_by
  all_goals (simp only [internalCount] at h; split at h <;> omega)

/-- phase 1 of `rebuild_structure`: is a combiner needed at `position`? -/
def neededAt (hasZero : Bool) (cap live position : Nat) : Bool :=
  (position == 0 && hasZero && live == 1) ||
  (!(resolveClosed cap live (2 * position + 1)).isEmpty && !(resolveClosed cap live (2 * position + 2)).isEmpty)

/-- `root_aggregate` (`combSize = combiners.size()`) -/
def rootAgg (hasZero : Bool) (cap live combSize : Nat) : Agg :=
  if live = 0 then .empty
  else if hasZero && live == 1 && combSize != 0 then .node 0
  else resolveClosed cap live 0

/-! ## values

`lv i` is the current value of the source element aliased by dense leaf `i` (`none`: unbound or not
valid), `zero` the current value of the zero input (`none`: no zero supplied, or not valid yet),
`live p` says whether a combiner exists at heap position `p`. -/

section Values
variable {α : Type}

/-- The output of the combiner at heap position `p`: `f (aggregate_output left) (aggregate_output right)`,
    published only when both sides are valid.  The children are resolved with the code's closed form;
    a `Node` child aggregate always lies deeper in the heap (larger index) than its consumer, which is
    what lets the code evaluate "deepest-first" in one pass. -/
def nodeOut (f : α → α → α) (zero : Option α) (cap n : Nat) (live : Nat → Bool) (lv : Nat → Option α)
    (p : Nat) : Option α :=
  if h : p < internalCount cap ∧ live p = true then
    let l := match resolveClosed cap n (2 * p + 1) with
      | .empty => zero
      | .leaf i => lv i
      | .node q => if hq : p < q then nodeOut f zero cap n live lv q else none
    let r := match resolveClosed cap n (2 * p + 2) with
      | .empty => zero
      | .leaf i => lv i
      | .node q => if hq : p < q then nodeOut f zero cap n live lv q else none
    match l, r with
    | some a, some b => some (f a b)
    | _, _ => none
  else none
termination_by internalCount cap - p
decreasing_by all_goals omega

/-- `aggregate_output` of an aggregate, seen from the node's own output (root publication) -/
def aggOut (f : α → α → α) (zero : Option α) (cap n : Nat) (live : Nat → Bool) (lv : Nat → Option α) :
    Agg → Option α
  | .empty => zero
  | .leaf i => lv i
  | .node q => nodeOut f zero cap n live lv q

/-- the `std::optional<Value> accumulator` step of the lifted fixed-TSL node, and the *specification*
    fold used by the theorems: `none` = nothing folded yet -/
def foldStep (f : α → α → α) (acc : Option α) (x : α) : Option α :=
  match acc with
  | none => some x
  | some a => some (f a x)

/-- SPEC: left fold of the combiner over a list of values; `none` for the empty list -/
def foldOpt (f : α → α → α) (vs : List α) : Option α := vs.foldl (foldStep f) none

/-- `wire_lifted_reduce_tsl`'s evaluate callback: fold the valid items left to right -/
def liftedTslEval (f : α → α → α) (items : List (Option α)) : Option α :=
  items.foldl (fun acc it => match it with
    | none => acc
    | some v => foldStep f acc v) none

end Values

/-! ## the storage and its maintenance -/

structure Tree (κ : Type) where
  /-- `dense_to_key` -/
  keys : List κ := []
  /-- `leaf_capacity` -/
  cap : Nat := 0
  /-- `combiners[p] != nullptr` -/
  combiners : List Bool := []
  /-- `current_bank` -/
  bank : Nat := 0
  /-- `previous_generation` as `(bank, position)` -/
  prev : List (Nat × Nat) := []
  /-- `previous_generation_time` -/
  prevTime : Nat := 0
  /-- `structural_leaves` -/
  structLeaves : List Nat := []
  primed : Bool := false
  published : Bool := false
deriving Repr

section Maint
variable {κ : Type} [DecidableEq κ]

/-- `key_to_leaf.find(key)` -/
def leafOf (keys : List κ) (k : κ) : Option Nat :=
  let i := keys.idxOf k
  if i < keys.length then some i else none

/-- `remove_leaf_at`: move the last leaf into the hole, then pop -/
def removeLeafAt (keys : List κ) (leaf : Nat) : List κ :=
  let last := keys.length - 1
  match keys[last]? with
  | none => keys
  | some lastKey => (if leaf ≠ last then keys.set leaf lastKey else keys).dropLast

/-- `record_removed_leaf_paths` -/
def recordRemoved (keys : List κ) (sl : List Nat) (leaf : Nat) : List Nat :=
  let last := keys.length - 1
  if leaf ≠ last then sl ++ [leaf, last] else sl ++ [leaf]

/-- a removed key of the delta (`found == end` -> `continue`) -/
def removeKey (t : Tree κ) (k : κ) : Tree κ :=
  match leafOf t.keys k with
  | none => t
  | some leaf =>
    { t with structLeaves := recordRemoved t.keys t.structLeaves leaf, keys := removeLeafAt t.keys leaf }

/-- an added / newly valid key of the delta (already present -> `continue`) -/
def addKey (t : Tree κ) (k : κ) : Tree κ :=
  match leafOf t.keys k with
  | some _ => t
  | none => { t with structLeaves := t.structLeaves ++ [t.keys.length], keys := t.keys ++ [k] }

/-- `clear_leaf_state` -/
def clearLeaves (t : Tree κ) : Tree κ := { t with keys := [] }

/-- `reconcile_leaf_state`: `full` clears and re-adds every currently valid element (`present`);
    otherwise removed keys first, then added / newly valid ones. Returns `(tree, structural)`.
    (`present` is "all valid elements" on a full reconcile and "modified valid elements" otherwise.) -/
def reconcileLeaves (t : Tree κ) (full : Bool) (removed present : List κ) : Tree κ × Bool :=
  if full then
    ((present.foldl addKey (clearLeaves t)), true)
  else
    let t1 := removed.foldl removeKey t
    let t2 := present.foldl addKey t1
    (t2, !t2.structLeaves.isEmpty)

/-- `append_structural_leaf_path`: the ancestors of a heap position that index into `combiners` -/
def pathFrom (size position : Nat) : List Nat :=
  if h : position = 0 then []
  else
    let p := (position - 1) / 2
    (if p < size then [p] else []) ++ pathFrom size p
termination_by position
decreasing_by omega

/-- `std::ranges::sort(greater) + unique`, one element at a time -/
def insertDesc (x : Nat) : List Nat → List Nat
  | [] => [x]
  | y :: ys => if y < x then x :: y :: ys else if y = x then y :: ys else y :: insertDesc x ys

/-- `structural_positions` of a non-full rebuild -/
def structuralPositions (cap size : Nat) (leaves : List Nat) : List Nat :=
  (leaves.foldl (fun acc leaf => acc ++ pathFrom size (internalCount cap + leaf)) []).foldl
    (fun acc p => insertDesc p acc) []

/-- `for (position = combiners.size(); position-- > 0;)` -/
def allPositionsDesc (size : Nat) : List Nat := (List.range size).reverse

structure Phase1 where
  comb : List Bool
  created : List Nat := []
  retired : List Nat := []

/-- one iteration of phase 1 (create the needed combiner / set the displaced one aside) -/
def phase1Step (hasZero : Bool) (cap live : Nat) (s : Phase1) (p : Nat) : Phase1 :=
  let needed := neededAt hasZero cap live p
  match s.comb[p]? with
  | some false => if needed then { s with comb := s.comb.set p true, created := s.created ++ [p] } else s
  | some true => if !needed then { s with comb := s.comb.set p false, retired := s.retired ++ [p] } else s
  | none => s

/-- positions of a shape that hold a combiner, ascending (`retired_shape` walk of phase 3) -/
def livePositions (comb : List Bool) : List Nat :=
  (List.range comb.length).filter (fun p => comb[p]? == some true)

/-- `rebuild_structure(view, context, storage, evaluation_time, full_structure)` -/
def rebuild (hasZero : Bool) (now : Nat) (t : Tree κ) (fullStructure : Bool) : Tree κ :=
  let live := t.keys.length
  let minimumCapacity := if hasZero then 2 else 0
  let capacity := max (max t.cap minimumCapacity) (if live > 0 then bitCeil live else 0)
  let bankChanged := capacity != t.cap
  let oldBank := t.bank
  let retiredShape := if bankChanged then t.combiners else []
  let comb0 := if bankChanged then List.replicate (if capacity > 1 then capacity - 1 else 0) false else t.combiners
  let bank := if bankChanged then 1 - t.bank else t.bank
  let full := fullStructure || bankChanged
  let positions := if full then allPositionsDesc comb0.length
                   else structuralPositions capacity comb0.length t.structLeaves
  let ph := positions.foldl (phase1Step hasZero capacity live) { comb := comb0 }
  let prev := t.prev ++ ph.retired.reverse.map (fun p => (bank, p)) ++ (livePositions retiredShape).map (fun p => (oldBank, p))
  { t with cap := capacity, combiners := ph.comb, bank := bank, prev := prev,
           prevTime := if prev.isEmpty then t.prevTime else now, published := true }

/-- `destroy_previous_generation_before(evaluation_time)` -/
def destroyPrevBefore (now : Nat) (t : Tree κ) : Tree κ :=
  if !t.prev.isEmpty && t.prevTime < now then { t with prev := [], prevTime := 0 } else t

/-- `reduce_reconcile` after the source-handle bookkeeping and `structural_leaves.clear()`
    (`collection_repointed = zero_repointed = false`: the sources of this graph never re-point).
    `available`: `collection_ops->available` (TSD: the input is valid; TSL: always);
    `modified`: the collection input ticked this cycle. -/
def evalReconcile (hasZero : Bool) (now : Nat) (t : Tree κ) (available modified : Bool)
    (removed present : List κ) : Tree κ :=
  let fullStructure := !t.published
  if available then
    if !t.primed || modified then
      let r := reconcileLeaves t (!t.primed) removed present
      let fullStructure := fullStructure || !t.primed
      let t1 := { r.1 with primed := true }
      if r.2 || !t1.published then rebuild hasZero now t1 fullStructure else t1
    else if !t.published then rebuild hasZero now t fullStructure else t
  else if t.primed || !t.keys.isEmpty then
    rebuild hasZero now { clearLeaves t with primed := false } true
  else if !t.published then rebuild hasZero now t fullStructure else t

/-- One evaluation of the reduce node up to and including `reduce_reconcile`:
    `destroy_previous_generation_before`, `structural_leaves.clear()`, reconcile, rebuild. -/
def evalStructure (hasZero : Bool) (now : Nat) (t0 : Tree κ) (available modified : Bool)
    (removed present : List κ) : Tree κ :=
  evalReconcile hasZero now { destroyPrevBefore now t0 with structLeaves := [] } available modified removed present

/-- `ReduceNodeView::combiner_count` -/
def combinerCount (t : Tree κ) : Nat := t.combiners.count true

/-- `reduce_storage_metrics().nested_graph_count`: entries of both banks -/
def nestedGraphCount (t : Tree κ) : Nat := combinerCount t + t.prev.length

/-- the value of the source element aliased by dense leaf `i` (`dict_leaf_output` / `list_leaf_output`) -/
def leafVal {α : Type} (src : κ → Option α) (keys : List κ) (i : Nat) : Option α :=
  match keys[i]? with
  | some k => src k
  | none => none

/-- `combiners[p] != nullptr` -/
def combLive (combiners : List Bool) (p : Nat) : Bool := combiners[p]? == some true

/-- the published root value: `aggregate_output(root_aggregate(...))` with the leaves aliasing the
    source elements `src key`; the zero input exists only when `hasZero` -/
def rootOut {α : Type} (f : α → α → α) (hasZero : Bool) (zero : Option α) (src : κ → Option α) (t : Tree κ) :
    Option α :=
  aggOut f (if hasZero then zero else none) t.cap t.keys.length (combLive t.combiners) (leafVal src t.keys)
    (rootAgg hasZero t.cap t.keys.length t.combiners.length)

end Maint

end HgVerif.Reduce
