import HgVerif.Model.Tracking
/-!
The WHOLE-VALUE write of a fixed-shape container (TSB, fixed-size TSL), as coded:

* `TSDataMutationView::copy_value_from / move_value_from` (`ts_data/base_view.cpp` l.448-489):
  `newly_modified = ops.copy_value_from_impl(...)`, and `mark_modified()` (= `record_modified` at the position and
  `parent.notify_child_modified` upwards while it returns true) **iff** `newly_modified`.
* `fixed_copy_value_from / fixed_move_value_from` (`metadata/ts_data_fixed_structured_ops.cpp` l.1461-1579): the
  children in index order; an UNSET child of the source value is skipped; a present child is written through ITS
  `copy_value_from_impl` (recursively); when that answers `true` the child's tracking record is stamped with
  `record_modified(t)` directly (observers of the child notified; the child's parent link is NOT used) — and when
  that `record_modified` answers `false` (`t ≤ lmt child`) the loop throws
  `std::logic_error("fixed TSData child reported a duplicate modification")`, leaving everything written so far in
  place; the answer of the loop is "some child was newly modified".
* `atomic_copy_value_from` (`metadata/ts_data_atomic_ops.cpp` l.211-260): the leaf stores the value and answers
  `first_for_time = (lmt != t)`; it does not stamp anything itself.

A (possibly sparse) source value is given relative to the tree of positions: `pres c` = "child `c` carries a value in
the value of its parent" (`source_values.at(index).has_value()`), meaningful for the positions all of whose
ancestors up to the written position are present too.  A present container all of whose children are unset is
expressible (`pres c = true`, `pres` false on its children), and so is the all-unset value (`pres` false on the
children of the written position).  A position without children is a leaf (every TSB / TSL of the schemas has at
least one child).  Core Lean only.
-/
namespace HgVerif.Tracking

/-- outcome of one `copy_value_from_impl` call: state, observers notified (call order), leaves whose value was
    stored (call order), and the answer — `none` = the duplicate-modification `std::logic_error` is propagating -/
structure WOut where
  L : Lmt
  N : List Nat
  V : List Nat
  r : Option Bool

/-- the body of the `for index` loop of `fixed_copy_value_from` for child `c`; `acc.r = some nm` carries
    `newly_modified`; `rec c L` is `child_ops(c).copy_value_from_impl` -/
def childStep (t : Nat) (pres : Nat → Bool) (rec : Nat → Lmt → WOut) (acc : WOut) (c : Nat) : WOut :=
  match acc.r with
  | none => acc                                   -- the exception left the loop: no further child is visited
  | some nm =>
    if pres c = false then acc                    -- `if (!source_value.has_value()) continue;`
    else
      let o := rec c acc.L
      match o.r with
      | none => ⟨o.L, acc.N ++ o.N, acc.V ++ o.V, none⟩
      | some false => ⟨o.L, acc.N ++ o.N, acc.V ++ o.V, some nm⟩
      | some true =>
        if t ≤ o.L c then ⟨o.L, acc.N ++ o.N, acc.V ++ o.V, none⟩          -- `!tracking->record_modified(t)` → throw
        else ⟨upd o.L c t, acc.N ++ o.N ++ [c], acc.V ++ o.V, some true⟩   -- stamped, observers of `c` notified

/-- `copy_value_from_impl` of position `p` (fuel = recursion measure, above the height of `p`) -/
def copyF (K : KTree) (t : Nat) (pres : Nat → Bool) : Nat → Nat → Lmt → WOut
  | 0, _, L => ⟨L, [], [], some false⟩
  | fuel + 1, p, L =>
    if K.kids p = [] then ⟨L, [], [p], some (L p != t)⟩       -- atomic: store, answer first-for-time
    else (K.kids p).foldl (childStep t pres (fun c M => copyF K t pres fuel c M)) ⟨L, [], [], some false⟩

/-- `position.begin_mutation(t).copy_value_from(value)`: `mark_modified()` iff the answer is `true` -/
def wholeOut (K : KTree) (p t : Nat) (pres : Nat → Bool) (L : Lmt) : WOut :=
  let o := copyF K t pres (K.height p + 1) p L
  match o.r with
  | some true => ⟨markUp K.toTree (p + 1) p t o.L, o.N ++ markUpN K.toTree (p + 1) p t o.L, o.V, some true⟩
  | _ => o

def whole (K : KTree) (p t : Nat) (pres : Nat → Bool) (L : Lmt) : Lmt := (wholeOut K p t pres L).L
def wholeN (K : KTree) (p t : Nat) (pres : Nat → Bool) (L : Lmt) : List Nat := (wholeOut K p t pres L).N

/-! ## the seeded wrong answer (s127), kept as a counter-model only

`fixed_copy_value_from` answering `first_for_parent = (lmt p != t)`, computed before the loop, instead of "some child
was newly modified". -/
def copyFP (K : KTree) (t : Nat) (pres : Nat → Bool) : Nat → Nat → Lmt → WOut
  | 0, _, L => ⟨L, [], [], some false⟩
  | fuel + 1, p, L =>
    if K.kids p = [] then ⟨L, [], [p], some (L p != t)⟩
    else
      let o := (K.kids p).foldl (childStep t pres (fun c M => copyFP K t pres fuel c M)) ⟨L, [], [], some false⟩
      match o.r with
      | none => o
      | some _ => { o with r := some (L p != t) }

def wholeFP (K : KTree) (p t : Nat) (pres : Nat → Bool) (L : Lmt) : Lmt :=
  let o := copyFP K t pres (K.height p + 1) p L
  match o.r with
  | some true => markUp K.toTree (p + 1) p t o.L
  | _ => o.L

/-! ## histories mixing leaf writes, invalidations and whole-value writes -/

inductive WOp where
  | w (p t : Nat)
  | inv (p t : Nat)
  | ws (p t : Nat) (pres : Nat → Bool)     -- whole-value write (copy or move: same tracking code)

def WOp.time : WOp → Nat
  | .w _ t => t
  | .inv _ t => t
  | .ws _ t _ => t

def applyW (K : KTree) : WOp → Lmt → Lmt
  | .w p t, L => write K.toTree p t L
  | .inv p t, L => invalidate K p t L
  | .ws p t pres, L => whole K p t pres L

def runW (K : KTree) (ops : List WOp) (L : Lmt) : Lmt := ops.foldl (fun L o => applyW K o L) L

def applyWN (K : KTree) : WOp → Lmt → List Nat
  | .w p t, L => writeN K.toTree p t L
  | .inv p t, L => invalidateN K p t L
  | .ws p t pres, L => wholeN K p t pres L

/-- the link record of a bound input after `applyW K o` took `L` to `L'`: the link is subscribed to the target root,
    whose observers a (whole-value or leaf) write notifies exactly when the root's record is stamped -/
def linkStepW (r : Nat) (o : WOp) (L L' : Lmt) (k : Nat) : Nat :=
  match o with
  | .w p t => linkStep r (.w p t) L L' k
  | .inv p t => linkStep r (.inv p t) L L' k
  | .ws _ t _ => if L' r = L r then k else linkRecord k t

end HgVerif.Tracking
