import HgVerif.Model.Sched
import HgVerif.Model.NodeSched
import HgVerif.Model.Lifecycle
import HgVerif.Model.Feedback
/-
Executable model of the engine over the harness vocabulary of `harness/drv_engine.cpp`
(all ports `TS[int]`): node start/evaluate/stop (`node.cpp`), output write → notification →
`schedule_node` (incl. the nested push path of `nested_schedule_node_impl`), graph
start/stop with rollback and first-exception recording, the nested / try_except node, feedback,
error capture, and the simulation run loop.  The per-cycle scan is `Sched.cycle`, so every theorem
about `Sched` for arbitrary behaviours applies to this instance.
Core Lean only.
-/
namespace HgVerif.Engine
open HgVerif.Sched
open HgVerif.NodeSched (NS Tag nextScheduledTime isScheduled isScheduledNow schedule unscheduleTag unscheduleFirst popTag reset advance)

inductive Port where | main | err | bundle
deriving Repr, DecidableEq

/-- a resolved input binding: the producing node (absolute) and how it is consumed -/
structure InRef where
  inst : Nat
  idx : Nat
  port : Port := .main
  passive : Bool := false
  unchecked : Bool := false
  boundary : Bool := false      -- bound directly to a parameter of the enclosing nested graph
  rankIdx : Option Nat := none  -- the node of the consumer's own graph this input ranks after (wiring only)
deriving Repr

inductive SOp where
  | sd (d : Nat) (tag : Tag) | sa (t : Time) (tag : Tag) | ut (tag : Tag) | u1 | pt (tag : Tag) | rs | emit (v : Int)
  | throw
  /-- `graph.schedule_node(<node with this label in the same graph>, now)` from inside an evaluation -/
  | kick (lbl : String)
deriving Repr

inductive Kind where
  | const (v : Int) | src (id : Nat) | add | acc | pass | gate | script (id : Nat) | sink
  | thrower (id : Nat) | probe | nested (child : Nat) (tr : Bool) (outRef : Option InRef) | tryout | tryerr | errmsg | errmsgv (v : Bool)
  | fbsrc (init : Option Int) | fbsink (srcIdx : Nat)
deriving Repr

structure CNode where
  lbl : String
  kind : Kind
  ins : List InRef := []
  captures : Bool := false      -- error capture activated (`exception_time_series`)
  sos : Bool := false           -- the node type declares `schedule_on_start`
deriving Repr

structure CInst where
  nodes : List CNode
  parent : Option (Nat × Nat) := none     -- (parent instance, index of the nested node in it)
  path : String := ""
deriving Repr

/-- an active subscription: when `(inst, idx, port)` is written, `(sinst, sidx)` is notified -/
structure Sub where
  inst : Nat
  idx : Nat
  port : Port
  sinst : Nat
  sidx : Nat
deriving Repr

structure CProg where
  insts : List CInst
  subs : List Sub
  startT : Time := 1
  endT : Time := 100
  cleanup : Bool := true
  ticks : List (Nat × List (Time × Int)) := []
  scripts : List (Nat × List (List SOp)) := []
  faults : List (Nat × List (Char × Nat)) := []
  fixedResume : Bool := true
deriving Repr

structure NodeRt where
  out : Option Int := none
  lmt : Time := 0
  err : Option String := none
  errLmt : Time := 0
  st : Int := 0
  k : Nat := 0
  ns : NS := {}
  started : Bool := false
  cs : Nat := 0
  ce : Nat := 0
  cx : Nat := 0
  fb : HgVerif.Feedback.FB := {}     -- feedback source: captured delta waiting for delivery (Model/Feedback.lean)
deriving Repr

structure InstRt where
  g : G := { slots := [] }
  nodes : List NodeRt := []
  started : Bool := false
  evaluating : Bool := false
deriving Repr

structure St where
  insts : List InstRt
  log : List String := []
  outbox : List (Nat × Req) := []     -- schedule calls on instances whose scan is running
deriving Repr

/-! ### small accessors -/
def lookup {α : Type} (l : List (Nat × α)) (k : Nat) : Option α := (l.find? (·.1 == k)).map (·.2)

def CProg.inst (p : CProg) (i : Nat) : CInst := p.insts.getD i { nodes := [] }
def CProg.node (p : CProg) (i j : Nat) : CNode := (p.inst i).nodes.getD j { lbl := "?", kind := .sink }
def CProg.label (p : CProg) (i j : Nat) : String := (p.inst i).path ++ (p.node i j).lbl

def St.inst (s : St) (i : Nat) : InstRt := s.insts.getD i {}
def St.node (s : St) (i j : Nat) : NodeRt := (s.inst i).nodes.getD j {}
def St.setInst (s : St) (i : Nat) (r : InstRt) : St := { s with insts := s.insts.set i r }
def St.setNode (s : St) (i j : Nat) (r : NodeRt) : St :=
  let I := s.inst i
  s.setInst i { I with nodes := I.nodes.set j r }
def St.logf (s : St) (m : String) : St := { s with log := s.log ++ [m] }

def tsStr : Option Time → String
  | none => "max"
  | some t => toString t

/-! ### scheduling across instances -/

/-- `graph.schedule_node(idx, when)` on instance `inst`.  While that instance's scan is running
    the call is queued (and applied, in order, when the evaluating node returns — nothing reads
    the slots in between); otherwise it is `schedule_node_impl` resp.
    `nested_schedule_node_impl` (clamp to the parent's time, cache fix-up, push to the parent).
    `fuel` bounds the nesting depth. -/
def schedAbs (p : CProg) : Nat → St → Nat → Nat → Time → St
  | 0, s, _, _, _ => s
  | fuel + 1, s, inst, idx, w =>
    let I := s.inst inst
    if I.evaluating then { s with outbox := s.outbox ++ [(inst, ⟨idx, w⟩)] }
    else
      match (p.inst inst).parent with
      | none => s.setInst inst { I with g := scheduleNode I.g ⟨idx, w⟩ }
      | some (pi, pj) =>
        let w' := max w (s.inst pi).g.now
        let g1 := scheduleNode I.g ⟨idx, w'⟩
        let g2 := if I.started && olt w' g1.next then { g1 with next := some w' } else g1
        let s1 := s.setInst inst { I with g := g2 }
        if !I.started then s1 else schedAbs p fuel s1 pi pj w'

def depthFuel (p : CProg) : Nat := p.insts.length + 1

/-- `schedule_node_from_storage`: notify one subscriber of a write at `t` -/
def notifyOne (p : CProg) (s : St) (sub : Sub) (t : Time) : St :=
  if (s.node sub.sinst sub.sidx).started then
    schedAbs p (depthFuel p) s sub.sinst sub.sidx (max t (s.inst sub.sinst).g.now)
  else s

def portMatches (written subscribed : Port) : Bool :=
  written == subscribed || subscribed == .bundle

/-- an output write at `t`: record value and time, notify the active subscribers -/
def writeOut (p : CProg) (s : St) (inst idx : Nat) (port : Port) (v : Int) (msg : String) (t : Time) : St :=
  let n := s.node inst idx
  let n' := match port with
    | .err => { n with err := some msg, errLmt := t }
    | _ => { n with out := some v, lmt := t }
  let s1 := s.setNode inst idx n'
  (p.subs.filter (fun sb => sb.inst == inst && sb.idx == idx && portMatches port sb.port)).foldl
    (fun acc sb => notifyOne p acc sb t) s1

/-! ### reading inputs -/
def inValid (s : St) (r : InRef) : Bool :=
  let n := s.node r.inst r.idx
  match r.port with
  | .main => n.out.isSome
  | .err => n.err.isSome
  | .bundle => n.out.isSome || n.err.isSome

def inLmt (s : St) (r : InRef) : Time :=
  let n := s.node r.inst r.idx
  match r.port with
  | .main => n.lmt
  | .err => n.errLmt
  | .bundle => max n.lmt n.errLmt

def inModified (s : St) (r : InRef) (t : Time) : Bool := inValid s r && inLmt s r == t
def inValue (s : St) (r : InRef) : Int := (s.node r.inst r.idx).out.getD 0

def b01 (b : Bool) : String := if b then "1" else "0"

def inDesc (s : St) (r : InRef) (t : Time) : String :=
  b01 (inValid s r) ++ b01 (inModified s r t) ++ "," ++ (if inValid s r then toString (inValue s r) else "-")

/-- `ready_to_evaluate`: every input not marked Unchecked must be valid -/
def ready (s : St) (n : CNode) : Bool := n.ins.all (fun r => r.unchecked || inValid s r)

/-! ### node scheduler plumbing (the model of C18 is reused as is) -/
def applySched (p : CProg) (s : St) (inst idx : Nat) (r : NS × Option Time) : St :=
  let s1 := s.setNode inst idx { s.node inst idx with ns := r.1 }
  match r.2 with
  | some w => schedAbs p (depthFuel p) s1 inst idx w
  | none => s1

def qStr (ns : NS) (now : Time) : String :=
  s!"q={nextScheduledTime ns},{b01 (isScheduled ns)},{b01 (isScheduledNow ns now)}"

/-- run the scheduler operations of one script step; the `Bool` says whether a `throw` op was reached
    (the operations before it have taken effect, the ones after it are not executed) -/
def runSOps (p : CProg) (inst idx : Nat) (now : Time) (started : Bool) :
    List SOp → St → Option Int → St × Option Int × Bool
  | [], s, e => (s, e, false)
  | op :: rest, s, e =>
    let ns := (s.node inst idx).ns
    match op with
    | .sd d tag => runSOps p inst idx now started rest (applySched p s inst idx (schedule ns now started (now + d) tag)) e
    | .sa t tag => runSOps p inst idx now started rest (applySched p s inst idx (schedule ns now started t tag)) e
    | .ut tag => runSOps p inst idx now started rest (s.setNode inst idx { s.node inst idx with ns := unscheduleTag ns tag }) e
    | .u1 => runSOps p inst idx now started rest (s.setNode inst idx { s.node inst idx with ns := unscheduleFirst ns }) e
    | .pt tag => runSOps p inst idx now started rest (s.setNode inst idx { s.node inst idx with ns := (popTag ns tag 0).1 }) e
    | .rs => runSOps p inst idx now started rest (s.setNode inst idx { s.node inst idx with ns := reset ns }) e
    | .emit v => runSOps p inst idx now started rest s (some v)
    | .throw => (s, e, true)
    | .kick l =>
      let n := (p.inst inst).nodes.length
      let s' := match (List.range n).find? (fun j => (p.node inst j).lbl == l) with
        | some j => schedAbs p (depthFuel p) s inst j now
        | none => s
      runSOps p inst idx now started rest s' e

def hasScheduler : Kind → Bool
  | .src _ | .script _ | .probe => true
  | _ => false

def isNestedKind : Kind → Bool
  | .nested _ _ _ => true
  | _ => false

/-- the readiness gate of `node.cpp evaluate_impl`: nested nodes validate inside the child, a node
    without inputs always runs, otherwise `ready_to_evaluate` -/
def runsUserCode (s : St) (cn : CNode) : Bool := isNestedKind cn.kind || cn.ins.isEmpty || ready s cn

def faultDue (p : CProg) (id : Nat) (phase : Char) (count : Nat) : Bool :=
  ((lookup p.faults id).getD []).any (fun f => f.1 == phase && f.2 == count)

/-- drain the queued schedule calls addressed to `inst` -/
def takeOutbox (s : St) (inst : Nat) : St × List Req :=
  ({ s with outbox := s.outbox.filter (·.1 != inst) }, (s.outbox.filter (·.1 == inst)).map (·.2))

structure UserRes where
  st : St
  ok : Bool := true
  msg : String := ""

/-- skip the ticks that are already due; emit the one for exactly `now` -/
def srcAdvance (ticks : List (Time × Int)) (now : Time) : Nat → Nat → Option Int → Nat × Option Int
  | 0, k, e => (k, e)
  | fuel + 1, k, e =>
    match ticks[k]? with
    | some (tt, v) => if tt ≤ now then srcAdvance ticks now fuel (k + 1) (if tt == now then some v else e) else (k, e)
    | none => (k, e)

mutual

/-- the user code of one node (the `callbacks.evaluate` call), by kind -/
def userEval (p : CProg) : Nat → Nat → Nat → Time → St → UserRes
  | 0, _, _, _, s => { st := s }
  | fuel + 1, inst, idx, t, s =>
    let cn := p.node inst idx
    let lbl := p.label inst idx
    let a := cn.ins.getD 0 { inst := 0, idx := 0 }
    let b := cn.ins.getD 1 { inst := 0, idx := 0 }
    match cn.kind with
    | .const v => { st := writeOut p s inst idx .main v "" t }
    | .src id =>
      let ticks := (lookup p.ticks id).getD []
      let n := s.node inst idx
      let (k', e) := srcAdvance ticks t (ticks.length + 1) n.k none
      let s1 := match e with
        | some v => writeOut p s inst idx .main v "" t
        | none => s
      let s2 := s1.setNode inst idx { s1.node inst idx with k := k' }
      match ticks[k']? with
      | some (tt, _) => { st := applySched p s2 inst idx (schedule (s2.node inst idx).ns t true tt 0) }
      | none => { st := s2 }
    | .add =>
      let s1 := s.logf s!"E {lbl} {t} a={inDesc s a t} b={inDesc s b t}"
      { st := writeOut p s1 inst idx .main (inValue s a + inValue s b) "" t }
    | .acc =>
      let s1 := s.logf s!"E {lbl} {t} a={inDesc s a t}"
      let tot := (s.node inst idx).st + inValue s a
      let s2 := s1.setNode inst idx { s1.node inst idx with st := tot }
      { st := writeOut p s2 inst idx .main tot "" t }
    | .pass =>
      let s1 := s.logf s!"E {lbl} {t} a={inDesc s a t}"
      { st := writeOut p s1 inst idx .main (inValue s a) "" t }
    | .gate =>
      -- any number of inputs (2 for gate / ngate, 3 for gate3), logged as a= b= c=
      let descs := (cn.ins.zip ["a", "b", "c", "d"]).map fun (r, nm) => s!" {nm}={inDesc s r t}"
      let s1 := s.logf (s!"E {lbl} {t}" ++ String.join descs)
      let v := cn.ins.foldl (fun acc r => acc + (if inValid s r then inValue s r else 0)) 0
      { st := writeOut p s1 inst idx .main v "" t }
    | .script id =>
      let sc := (lookup p.scripts id).getD []
      let n := s.node inst idx
      let before := qStr n.ns t
      let (s1, e, thrown) := runSOps p inst idx t true (sc.getD n.k []) s none
      let s2 := s1.setNode inst idx { s1.node inst idx with k := n.k + 1 }
      if thrown then
        { st := s2.logf s!"E {lbl} {t} k={n.k} {before} THROW", ok := false, msg := "boom-eval-script" }
      else
      let s3 := match e with
        | some v => writeOut p s2 inst idx .main v "" t
        | none => s2
      let tail := if cn.ins.isEmpty then "" else if cn.ins.length ≥ 2 then s!" a={inDesc s a t} b={inDesc s b t}"
                  else s!" a={inDesc s a t}"
      { st := s3.logf s!"E {lbl} {t} k={n.k} {before} {qStr (s3.node inst idx).ns t}{tail}" }
    | .sink => { st := s.logf s!"T {lbl} {t} {inValue s a}" }
    | .thrower id =>
      let s1 := s.logf s!"E {lbl} {t} a={inDesc s a t}"
      let n := s1.node inst idx
      let s2 := s1.setNode inst idx { n with ce := n.ce + 1 }
      if faultDue p id 'e' (n.ce + 1) then { st := s2, ok := false, msg := s!"boom-eval-{cn.lbl}" }
      else { st := writeOut p s2 inst idx .main (inValue s a + 1000) "" t }
    | .probe =>
      let s1 := s.logf s!"P {lbl} {t} a={inDesc s a t} lmt={inLmt s a}"
      if t + 1 < p.endT then
        { st := applySched p s1 inst idx (schedule (s1.node inst idx).ns t true (t + 1) 0) }
      else { st := s1 }
    | .nested child tr outRef =>
      -- single_nested_graph_evaluate / try_except_evaluate_impl: run the child's cycle
      let r := graphEvaluate p fuel child t s
      -- try_except: the `out` field of the result bundle forwards the child's output
      let fwd (s' : St) : St := match outRef with
        | some o => if tr && inModified s' o t then writeOut p s' inst idx .main (inValue s' o) "" t else s'
        | none => s'
      if r.ok then
        if tr then { st := propagateChild p (fwd r.st) inst idx child } else { st := r.st }
      else if tr then
        let s1 := writeOut p (fwd r.st) inst idx .err 0 r.msg t
        { st := propagateChild p s1 inst idx child }
      else { st := r.st, ok := false, msg := r.msg }
    | .tryout =>
      let src : InRef := { a with port := .main }
      if inValid s src && inModified s src t then { st := writeOut p s inst idx .main (inValue s src) "" t }
      else { st := s }
    | .tryerr =>
      let src : InRef := { a with port := .err }
      if inValid s src && inModified s src t then
        let s1 := s.logf s!"X {lbl} {t} {((s.node a.inst a.idx).err).getD ""}"
        { st := writeOut p s1 inst idx .main 1 "" t }
      else { st := s }
    | .errmsg =>
      let s1 := s.logf s!"X {lbl} {t} {((s.node a.inst a.idx).err).getD ""}"
      { st := writeOut p s1 inst idx .main 1 "" t }
    | .errmsgv v =>   -- explicit ErrorCaptureOptions: `v` = the back trace carries captured input values
      let s1 := s.logf s!"X {lbl} {t} {((s.node a.inst a.idx).err).getD ""} v={if v then 1 else 0}"
      { st := writeOut p s1 inst idx .main 1 "" t }
    | .fbsrc _ =>
      let n := s.node inst idx
      let r := HgVerif.Feedback.sourceStep t n.fb
      match r.2 with
      | some v => { st := writeOut p (s.setNode inst idx { n with fb := r.1 }) inst idx .main v "" t }
      | none => { st := s }
    | .fbsink srcIdx =>
      -- evaluate_feedback_sink: capture the producer's delta, schedule the source at t + MIN_TD
      if inModified s a t then
        let sn := s.node inst srcIdx
        let s1 := s.setNode inst srcIdx { sn with fb := HgVerif.Feedback.sinkStep t (some (inValue s a)) sn.fb }
        { st := schedAbs p (depthFuel p) s1 inst srcIdx (t + 1) }
      else { st := s }

/-- `single_nested_graph_propagate_schedule`: pull the child's cached next time up -/
def propagateChild (p : CProg) (s : St) (inst idx child : Nat) : St :=
  match (s.inst child).g.next with
  | some n => schedAbs p (depthFuel p) s inst idx n
  | none => s

/-- `node.cpp evaluate_impl` -/
def nodeEvaluate (p : CProg) : Nat → Nat → Nat → Time → St → EvalRes St
  | 0, _, _, _, s => { st := s }
  | fuel + 1, inst, idx, t, s =>
    let cn := p.node inst idx
    let n := s.node inst idx
    let s0 := s.logf s!"ne+ {p.label inst idx}"
    let fin (s' : St) (ok : Bool) : EvalRes St :=
      let s'' := s'.logf s!"ne= {p.label inst idx}"
      let (s3, reqs) := takeOutbox s'' inst
      { st := s3, reqs := reqs, ok := ok }
    if !n.started then fin s0 true else
    let schedNow := hasScheduler cn.kind && isScheduledNow n.ns t
    let doEval := runsUserCode s0 cn
    let u : UserRes := if doEval then userEval p fuel inst idx t s0 else { st := s0 }
    -- error capture (`captures_errors`): the error ticks, the failure is absorbed
    let u : UserRes :=
      if !u.ok && cn.captures then { st := writeOut p u.st inst idx .err 0 u.msg t } else u
    if !u.ok then
      let s1 := { u.st with log := u.st.log ++ [s!"!{u.msg}"] }
      fin s1 false
    else
    -- scheduler tail
    let s1 := u.st
    let s2 :=
      if hasScheduler cn.kind then
        let ns := (s1.node inst idx).ns
        if schedNow then applySched p s1 inst idx (advance ns t)
        else if isScheduled ns then schedAbs p (depthFuel p) s1 inst idx (nextScheduledTime ns)
        else s1
      else s1
    fin s2 true

/-- `evaluate_impl` of instance `inst` at `t`: lifecycle notifications around `Sched.cycle` -/
def graphEvaluate (p : CProg) : Nat → Nat → Time → St → UserRes
  | 0, _, _, s => { st := s }
  | fuel + 1, inst, t, s =>
    let I := s.inst inst
    let path := (p.inst inst).path
    let res := resuming p.fixedResume I.g
    let s0 := if res then s else s.logf s!"ge+ {path}@{t}"
    let s1 := s0.setInst inst { I with evaluating := true, g := { I.g with now := t } }
    let n := (p.inst inst).nodes.length
    let r := cycle p.fixedResume ⟨fun i tt u => nodeEvaluate p fuel inst i tt u⟩ n t I.g s1
    let I2 := r.st.inst inst
    let s2 := r.st.setInst inst { I2 with evaluating := false, g := r.g }
    let s3 := s2.logf s!"ge= {path}@{t} next={tsStr r.g.next}"
    if r.ok then
      -- completed: a nested graph pulls its next time up to the parent node
      match (p.inst inst).parent with
      | some (pi, pj) =>
        (match r.g.next with
         | some nx => { st := schedAbs p (depthFuel p) s3 pi pj nx }
         | none => { st := s3 })
      | none => { st := s3 }
    else
      let msg := match s3.log.reverse.find? (fun l => l.startsWith "!") with
        | some l => (l.drop 1).toString
        | none => "?"
      { st := s3, ok := false, msg := msg }

end

/-! ### start / stop -/

def subscribe (_p : CProg) (s : St) (_inst _idx : Nat) : St := s   -- subscriptions are static; `started` gates them

mutual

/-- node `start_impl`: activate inputs, user start hook, `started = true`, `schedule_on_start` -/
def nodeStart (p : CProg) : Nat → Nat → Nat → Time → St → UserRes
  | 0, _, _, _, s => { st := s }
  | fuel + 1, inst, idx, t, s =>
    let cn := p.node inst idx
    let lbl := p.label inst idx
    let n := s.node inst idx
    let markStarted (s' : St) : St := s'.setNode inst idx { s'.node inst idx with started := true }
    match cn.kind with
    | .const _ =>
      { st := schedAbs p (depthFuel p) (markStarted s) inst idx t }
    | .src id =>
      let ticks := (lookup p.ticks id).getD []
      let s1 := s.setNode inst idx { n with k := 0 }
      let s2 := match ticks[0]? with
        | some (tt, _) => applySched p s1 inst idx (schedule (s1.node inst idx).ns t false tt 0)
        | none => s1
      { st := markStarted s2 }
    | .script id =>
      let sc := (lookup p.scripts id).getD []
      let (s1, _, _) := runSOps p inst idx t false (sc.getD 0 []) s none
      let s2 := s1.setNode inst idx { s1.node inst idx with k := 1 }
      let s3 := markStarted (s2.logf s!"B {lbl} {t} {qStr (s2.node inst idx).ns t}")
      -- `schedule_on_start`: booked AFTER the user start hook (node.cpp start_impl), so it replaces a later time
      -- the hook booked; the node's own scheduler re-arms that one after the start-cycle evaluation
      { st := if cn.sos then schedAbs p (depthFuel p) s3 inst idx t else s3 }
    | .thrower id =>
      let s1 := s.logf s!"s {lbl} {t}"
      let s2 := s1.setNode inst idx { n with cs := n.cs + 1 }
      if faultDue p id 's' (n.cs + 1) then { st := s2, ok := false, msg := s!"boom-start-{cn.lbl}" }
      else { st := markStarted s2 }
    | .probe =>
      { st := markStarted (applySched p s inst idx (schedule n.ns t false t 0)) }
    | .nested child _ _ =>
      let r := graphStart p fuel child t s
      if r.ok then
        -- schedule_sampled_input_consumers: active consumers of boundary inputs whose source is
        -- valid, or whose validity gate is explicitly empty, are scheduled for the start cycle
        let cnodes := (p.inst child).nodes
        let s1 := (List.range cnodes.length).foldl (fun acc j =>
          let cn' := cnodes.getD j { lbl := "?", kind := .sink }
          let acceptsInvalid := !cn'.ins.isEmpty && cn'.ins.all (·.unchecked)
          if cn'.ins.any (fun r' => r'.boundary && !r'.passive && (inValid acc r' || acceptsInvalid)) then
            schedAbs p (depthFuel p) acc child j t
          else acc) r.st
        { st := markStarted (propagateChild p s1 inst idx child) }
      else { st := r.st, ok := false, msg := r.msg }
    | .fbsrc init =>
      match init with
      | some v =>
        let s1 := s.setNode inst idx { n with fb := { pend := some (t, v) } }
        { st := schedAbs p (depthFuel p) (markStarted s1) inst idx t }
      | none => { st := markStarted s }
    | _ => { st := markStarted s }

/-- node `stop_impl`: user stop hook, deactivate inputs, `started = false` -/
def nodeStop (p : CProg) : Nat → Nat → Nat → Time → St → UserRes
  | 0, _, _, _, s => { st := s }
  | fuel + 1, inst, idx, t, s =>
    let cn := p.node inst idx
    let lbl := p.label inst idx
    let n := s.node inst idx
    if !n.started then { st := s } else
    let markStopped (s' : St) : St := s'.setNode inst idx { s'.node inst idx with started := false }
    match cn.kind with
    | .thrower id =>
      let s1 := s.logf s!"x {lbl} {t}"
      let s2 := s1.setNode inst idx { n with cx := n.cx + 1 }
      if faultDue p id 'x' (n.cx + 1) then { st := markStopped s2, ok := false, msg := s!"boom-stop-{cn.lbl}" }
      else { st := markStopped s2 }
    | .nested child _ _ =>
      let r := graphStop p fuel child t s
      { st := markStopped r.st, ok := r.ok, msg := r.msg }
    | _ => { st := markStopped s }

/-- graph `start_impl`: `Lifecycle.graphStart` over this graph's nodes (start loop, rollback) -/
def graphStart (p : CProg) : Nat → Nat → Time → St → UserRes
  | 0, _, _, s => { st := s }
  | fuel + 1, inst, t, s =>
    let I := s.inst inst
    if I.started then { st := s } else
    let path := (p.inst inst).path
    let s0 := s.logf s!"gs+ {path}@{I.g.now}"
    let s1 := s0.setInst inst { I with g := { I.g with now := t } }
    let n := (p.inst inst).nodes.length
    let startStep (i : Nat) (st : St) : Lifecycle.StepRes St :=
      let lbl := p.label inst i
      let r := nodeStart p fuel inst i t (st.logf s!"ns+ {lbl}")
      if r.ok then { st := r.st.logf s!"ns= {lbl}" } else { st := r.st.logf s!"ns! {lbl}", err := some r.msg }
    let stopStep (k : Nat) (st : St) : Lifecycle.StepRes St :=
      let lbl := p.label inst k
      let r := nodeStop p fuel inst k t (st.logf s!"nx+ {lbl}")
      if r.ok then { st := r.st.logf s!"nx= {lbl}" }
      else { st := (r.st.logf s!"nx! {lbl}").logf s!"nx= {lbl}", err := some r.msg }
    let r := Lifecycle.graphStart startStep stopStep n s1
    match r.err with
    | some m =>
      let I3 := r.st.inst inst
      let s4 := r.st.setInst inst { I3 with g := { I3.g with next := none }, started := false }
      { st := s4.logf s!"gs! {path}@{t}", ok := false, msg := m }
    | none =>
      let I3 := r.st.inst inst
      let s4 := r.st.setInst inst { I3 with g := startFold I3.g, started := true }
      { st := s4.logf s!"gs= {path}@{t}" }

/-- graph `stop_impl` (stop time = the graph's evaluation time): `Lifecycle.stopLoop` over all nodes -/
def graphStop (p : CProg) : Nat → Nat → Time → St → UserRes
  | 0, _, _, s => { st := s }
  | fuel + 1, inst, _t, s =>
    let I := s.inst inst
    if !I.started then { st := s } else
    let path := (p.inst inst).path
    let t := I.g.now
    let s0 := s.logf s!"gx+ {path}@{t}"
    let n := (p.inst inst).nodes.length
    let stopStep (k : Nat) (st : St) : Lifecycle.StepRes St :=
      let lbl := p.label inst k
      let r := nodeStop p fuel inst k t (st.logf s!"nx+ {lbl}")
      if r.ok then { st := r.st.logf s!"nx= {lbl}" }
      else { st := (r.st.logf s!"nx! {lbl}").logf s!"nx= {lbl}", err := some r.msg }
    let x := Lifecycle.stopLoop stopStep n s0 [] none
    let I1 := x.st.inst inst
    let s2 := x.st.setInst inst { I1 with started := false }
    match x.err with
    | some m => { st := (s2.logf s!"gx! {path}@{t}").logf s!"gx= {path}@{t}", ok := false, msg := m }
    | none => { st := s2.logf s!"gx= {path}@{t}" }

end

/-! ### the executor -/

def initSt (p : CProg) : St :=
  { insts := p.insts.map fun ci =>
      { g := { slots := ci.nodes.map (fun _ => 0) }, nodes := ci.nodes.map (fun _ => {}) } }

def nodeCount (p : CProg) : Nat := (p.inst 0).nodes.length

/-- the run loop of `run_storage` for the root graph -/
def runLoop (p : CProg) : Nat → St → UserRes
  | 0, s => { st := s }
  | fuel + 1, s =>
    match nextCycle (s.inst 0).g p.endT with
    | none => { st := s }
    | some t =>
      let r := graphEvaluate p (4 * depthFuel p) 0 t s
      if r.ok then runLoop p fuel r.st else r

/-- the whole `run_case` of the driver: build, run, release -/
def runProg (p : CProg) (maxCycles : Nat) : List String :=
  let s0 := (initSt p).logf s!"built nodes={nodeCount p}"
  let d := 4 * depthFuel p
  let r := graphStart p d 0 p.startT s0
  let s1 :=
    if !r.ok then r.st.logf s!"run-err node-failed({r.msg})"
    else
      let l := runLoop p maxCycles r.st
      if l.ok then
        let st := graphStop p d 0 0 l.st
        if st.ok then st.st.logf "run-ok" else st.st.logf s!"run-err node-failed({st.msg})"
      else
        -- unwind: the guard stops the graph when cleanup_on_error; the original error wins
        let st := if p.cleanup then (graphStop p d 0 0 l.st).st else l.st
        st.logf s!"run-err node-failed({l.msg})"
  let s2 := s1.logf "release"
  -- the executor's destructor stops a graph that is still started
  let s3 := (graphStop p d 0 0 s2).st
  (s3.logf "released").log.filter (fun l => !l.startsWith "!")

end HgVerif.Engine
