/-
The boundary shape of a STRUCTURAL outer argument of `nested_<G>` / `try_except_<G>` and the binding paths derived from
it (C09, "boundary inputs are bindings"; structured arguments assembled to any depth).

What is modelled (read from the code, not a tidy spec):

* `include/hgraph/types/graph_wiring.h` `WiringPortRef`: a wiring source is Null, Peered (producing node + output path),
  Structural (a fixed TSL / TSB assembled from child sources: `stdlib::to_tsl / to_tsb`, `{..}` initialisers, all of
  them `WiringPortRef::structural_source(schema, children)`) or Boundary (argument ordinal + projection path; only
  inside a compiled child wiring).
* `include/hgraph/types/subgraph_wiring.h` `subgraph_wiring_detail::boundary_shape(source, arg_index, path)`: a
  structural source keeps its shape, child `index` is mirrored with the path `path ++ [index]` (the loop copies the
  prefix for every child: `child_path = path; child_path.push_back(index)`); a null source stays null; everything else
  (a peered source, at depth >= 2 a boundary source of the enclosing child wiring) becomes
  `boundary_source(arg_index, path)`.  `build_subgraph_call` calls it with the empty path per argument.
* `tsl_element_ref` / `tsb_field_ref` (same file): projecting child `index` out of a source: Structural -> that child,
  Peered -> the output path extended by `index`, Boundary -> the boundary path extended by `index`, Null -> Null.
* `src/hgraph/types/graph_wiring.cpp` `emit_edges`: a boundary-sourced input edge of a child node becomes
  `NestedGraphInputBinding{ source_path = arg :: path, target }` (a structural input recurses into its children).
* `src/hgraph/runtime/nested_graph_node.cpp` `single_nested_graph_bind_inputs`: every binding binds the child endpoint
  to `walk_source_to_output(root_input, source_path)` = `walk_ts_path(root, path).bound_output()`.  The root input is
  the TSB over the outer arguments; the endpoint of an argument mirrors its source (`input_endpoint_for_sources`): a
  structural source is a NON-PEERED position with one child slot per child (no bound output of its own), a peered
  source is a link to that output (walking further into it addresses the output's children).  An unresolved walk
  leaves the child endpoint unbound.

A source is `Src`; the children of a structural source are a `Forest` (mutual: core Lean only, no nested `List`).
-/
namespace HgVerif.BoundaryPath

mutual
  /-- a wiring source (`WiringPortRef`) -/
  inductive Src where
    | null
    | peered (node : Nat) (path : List Nat)
    | boundary (arg : Nat) (path : List Nat)
    | struct (kids : Forest)
  /-- the children of a structural source, in order -/
  inductive Forest where
    | nil
    | cons (head : Src) (tail : Forest)
end

deriving instance DecidableEq for Src
deriving instance DecidableEq for Forest
deriving instance Repr for Src
deriving instance Repr for Forest

def Forest.get? : Forest → Nat → Option Src
  | .nil, _ => none
  | .cons h _, 0 => some h
  | .cons _ t, i + 1 => t.get? i

def Forest.length : Forest → Nat
  | .nil => 0
  | .cons _ t => t.length + 1

def Forest.ofList : List Src → Forest
  | [] => .nil
  | h :: t => .cons h (Forest.ofList t)

/-! ### `boundary_shape` as coded -/

mutual
  /-- `boundary_shape(source, arg_index, path)` -/
  def boundaryShape : Src → Nat → List Nat → Src
    | .struct ks, a, pre => .struct (shapeKids ks a pre 0)
    | .null, _, _ => .null
    | .peered _ _, a, pre => .boundary a pre
    | .boundary _ _, a, pre => .boundary a pre
  /-- the loop over the children: child `index` gets `path ++ [index]` (the prefix is COPIED per child) -/
  def shapeKids : Forest → Nat → List Nat → Nat → Forest
    | .nil, _, _, _ => .nil
    | .cons k ks, a, pre, i => .cons (boundaryShape k a (pre ++ [i])) (shapeKids ks a pre (i + 1))
end

/- the leaves of the mirrored shape, depth-first: (the outer source of the leaf, its recorded path); null leaves
   record nothing (`the child slot simply never binds`) -/
mutual
  def shapeLeaves : Src → List Nat → List (Src × List Nat)
    | .struct ks, pre => kidsLeaves ks pre 0
    | .null, _ => []
    | .peered n p, pre => [(.peered n p, pre)]
    | .boundary a p, pre => [(.boundary a p, pre)]
  def kidsLeaves : Forest → List Nat → Nat → List (Src × List Nat)
    | .nil, _, _ => []
    | .cons k ks, pre, i => shapeLeaves k (pre ++ [i]) ++ kidsLeaves ks pre (i + 1)
end

/-! ### the seeded variant (s105): the prefix is MOVED into the first child's path -/

mutual
  def boundaryShapeMoved : Src → Nat → List Nat → Src
    | .struct ks, a, pre => .struct (shapeKidsMoved ks a pre 0)
    | .null, _, _ => .null
    | .peered _ _, a, pre => .boundary a pre
    | .boundary _ _, a, pre => .boundary a pre
  /-- `child_path = std::move(path)`: after the first iteration the prefix is empty -/
  def shapeKidsMoved : Forest → Nat → List Nat → Nat → Forest
    | .nil, _, _, _ => .nil
    | .cons k ks, a, pre, i => .cons (boundaryShapeMoved k a (pre ++ [i])) (shapeKidsMoved ks a [] (i + 1))
end

/-! ### projections (`tsl_element_ref` / `tsb_field_ref`) -/

/-- project child `i` out of a source -/
def project : Src → Nat → Src
  | .struct ks, i => (ks.get? i).getD .null       -- (an index outside the structure is rejected by the typed API)
  | .peered n p, i => .peered n (p ++ [i])
  | .boundary a p, i => .boundary a (p ++ [i])
  | .null, _ => .null

def projAll (s : Src) (q : List Nat) : Src := q.foldl project s

/-! ### the binding at nested start (`emit_edges` + `single_nested_graph_bind_inputs`) -/

/-- `walk_ts_path(endpoint of the source, path).bound_output()`: the output (as a source of the OUTER wiring) a path
    into the endpoint of an outer argument is bound to; a non-peered position or a null slot has none -/
def walk : Src → List Nat → Option Src
  | .peered n p, rest => some (.peered n (p ++ rest))
  | .boundary a p, rest => some (.boundary a (p ++ rest))      -- depth >= 2: the enclosing level's binding, symbolically
  | .null, _ => none
  | .struct _, [] => none
  | .struct ks, i :: rest =>
    match ks.get? i with
    | some k => walk k rest
    | none => none

/-- the source a child endpoint ends up bound to: `source_path = arg :: path` walked from the root input (the TSB over
    the outer arguments `args`); an unresolved walk leaves the endpoint unbound (`null`) -/
def bindLeaf (args : List Src) (a : Nat) (p : List Nat) : Src :=
  match args[a]? with
  | some o => (walk o p).getD .null
  | none => .null

mutual
  /-- every input edge of a child node: boundary leaves are replaced by what they are bound to (a structural input
      is bound child by child) -/
  def bindSrc (args : List Src) : Src → Src
    | .struct ks => .struct (bindKids args ks)
    | .boundary a p => bindLeaf args a p
    | .peered n p => .peered n p          -- a node of the child wiring itself
    | .null => .null
  def bindKids (args : List Src) : Forest → Forest
    | .nil => .nil
    | .cons k ks => .cons (bindSrc args k) (bindKids args ks)
end

/-! ### nesting depth: the parameter is handed on to the next nested_ call -/

/-- the source of the structured parameter as seen at nesting level `D` (level 0 = the outer wiring): every level
    mirrors what the level above hands it -/
def deepSrc (o : Src) (a : Nat) : Nat → Src
  | 0 => o
  | D + 1 => boundaryShape (deepSrc o a D) a []

/-- the arguments of the nested node of level `k + 1` (only position `a` matters) -/
def argsAt (o : Src) (a : Nat) (k : Nat) : List Src := List.replicate a .null ++ [deepSrc o a k]

/-- resolve a source of level `D` outwards, one binding per level -/
def unwind (o : Src) (a : Nat) : Nat → Src → Src
  | 0, r => r
  | D + 1, r => unwind o a D (bindSrc (argsAt o a D) r)

/-- the same with the seeded shape -/
def deepSrcMoved (o : Src) (a : Nat) : Nat → Src
  | 0 => o
  | D + 1 => boundaryShapeMoved (deepSrcMoved o a D) a []

def unwindMoved (o : Src) (a : Nat) : Nat → Src → Src
  | 0, r => r
  | D + 1, r => unwindMoved o a D (bindSrc (List.replicate a .null ++ [deepSrcMoved o a D]) r)

/-- what the body node's input `q` (a projection path into the parameter) reads at nesting depth `D`
    (`D = 0`: the inlined wiring, the outer source is passed through untouched) -/
def bodyInput (o : Src) (a : Nat) (D : Nat) (q : List Nat) : Src := unwind o a D (projAll (deepSrc o a D) q)

def bodyInputMoved (o : Src) (a : Nat) (D : Nat) (q : List Nat) : Src := unwindMoved o a D (projAll (deepSrcMoved o a D) q)

end HgVerif.BoundaryPath
