/-
Model of the structural interning of `Wiring::add_node` (`graph_wiring.cpp`, key hash/equality):
a value-producing node is identified by `(definition, resolved schema, input sources, scalars)`;
a second declaration with an equal key returns the first node; sinks bypass the table.
Keys are an arbitrary type with decidable equality (the code's key equality is modelled as `=`).
Core Lean only.
-/
namespace HgVerif.Intern

structure Decl (κ : Type) where
  key : κ            -- (def, schema, input source keys, scalars), inputs already resolved to node ids
  sink : Bool := false

structure St (κ : Type) where
  tbl : List (κ × Nat) := []
  next : Nat := 0           -- number of node instances created so far (= the next node id)

def lookup {κ : Type} [DecidableEq κ] : List (κ × Nat) → κ → Option Nat
  | [], _ => none
  | (k', v) :: rest, k => if k' = k then some v else lookup rest k

/-- `Wiring::add_node`: returns the new state and the node the declaration denotes -/
def addNode {κ : Type} [DecidableEq κ] (s : St κ) (d : Decl κ) : St κ × Nat :=
  if d.sink then ({ s with next := s.next + 1 }, s.next)
  else match lookup s.tbl d.key with
    | some id => (s, id)
    | none => ({ tbl := (d.key, s.next) :: s.tbl, next := s.next + 1 }, s.next)

/-- wire a list of declarations in order; returns the final state and the node of each declaration -/
def wireAll {κ : Type} [DecidableEq κ] : St κ → List (Decl κ) → St κ × List Nat
  | s, [] => (s, [])
  | s, d :: rest =>
    let r := addNode s d
    let r2 := wireAll r.1 rest
    (r2.1, r.2 :: r2.2)

end HgVerif.Intern
