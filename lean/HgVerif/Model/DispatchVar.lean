import HgVerif.Model.Dispatch
/-!
VARIADIC candidates of operator overload resolution (`impl.variadic`: the LAST entry of `impl.params` is the
tail pattern), as coded in /repo:

* `include/hgraph/types/operator_dispatch.h`  `operator_rank(params, skip_variadic_tail)` (l.1206): the base rank
  `impl.rank` of a variadic candidate is computed over `params` WITHOUT the last entry (`make_operator_graph_impl`,
  l.1623); `param_pattern_rank(param)` (l.1198): ONE pattern in a FRESH `RankAccumulator` (decay under structure and
  per-variable de-duplication inside that one pattern);
* `src/hgraph/types/operator_dispatch.cpp`  `normalize_call` (positional arguments: the first `fixed` fill the fixed
  parameters, the overflow is the tail; fewer than `fixed` = "missing required argument", rejected at the base rank)
  and `try_match` (l.338-357: `args.size() >= fixed_params`, `rank_adjustment += tail_rank * #tail + 1` BEFORE any
  argument is looked at; l.390-418: every tail argument is matched on its own in `ResolutionMap tail_scope = map`, a
  COPY of the bindings of the fixed part that is thrown away; a plain VALUE in the tail costs one more point
  (`++rank_adjustment`, counted before the test) and is tested with `scalar_value_matches_ts_pattern`; a time-series
  tail argument adds `input_adaptation_rank` after it matched);
* `src/hgraph/types/operator_dispatch.cpp`  `scalar_value_matches_ts_pattern` / `value_schema_matches_ts_pattern`
  (l.40-124) for values of the four ATOMIC scalar schemas, with `current_value_schema_compatible`
  (ts_delta.cpp l.220-237, l.1619: the atomic ops of `TS` / `SIGNAL` / `REF` / `TSW` compare `schema.value_schema`
  with the value's schema by identity; `TS[s]` has value schema `s`, `SIGNAL` has `bool`, a `REF` the synthetic
  reference atom, `TSW` / `TSS` / `TSD` / `TSL` / `TSB` a container schema that no atom equals).

This file WRAPS `Model/Dispatch.lean` (nothing there changes): a candidate is an `Overload` holding the FIXED
parameters plus the optional tail pattern.  Without a tail `tryMatchV` IS `tryMatch` (`tryMatchVG_fixed`), so the
non-variadic theorems of `Props/C19.lean` carry over verbatim (`resolveCallV_lift`).

The tail ranker is a parameter (`…G tr`): `tailRank` is the code; `Props/C19Var.lean` instantiates it with
`tsPatternRank` (the TypePattern-layer ranker that `try_match` uses for a `**kwargs` pack) to show what goes wrong
when one pattern is ranked on two scales.

Outside the model, as before: scalar -> const promotion into a FIXED time-series parameter (the drivers answer
`unsupported`), packed tails (`from_variadic_tail`, `variadic_pack_fixed_input_penalty`), keyword-only parameters
behind the tail, defaults, bundle inheritance (`input_adaptation_rank` is 0 on the modelled schemas:
`bundle_inheritance_distance` of two atomic value schemas is `nullopt`), a variadic candidate with NO parameter at
all (`impl.params.back()` on an empty vector is undefined behaviour; the drivers reject it) and a tail parameter of
kind `Scalar` (the code reads `param.ts` of it regardless; the drivers reject it).
-/
namespace HgVerif.Dispatch

/-- `current_value_schema_compatible(schema, value_schema)` for an ATOMIC `value_schema` `v` -/
def valueCompat : CT → Sc → Bool
  | .ts s, v => decide (s = v)
  | .signal, v => decide (v = 0)
  | _, _ => false

/-- `scalar_value_matches_ts_pattern(pattern, value, map)` for a plain value of the atomic schema `v`
    (operator_dispatch.cpp l.94-124 and the `value_schema_matches_ts_pattern` it falls into, l.40-92):
    `REF[p]` promotes into the target; a variable that is already bound asks `current_value_schema_compatible`
    of its binding, an unbound one binds `TS[v]` (the `Var` arm of `ts_pattern_match`); a concrete leaf asks
    `current_value_schema_compatible`; `TS[sp]` matches the scalar pattern; `SIGNAL` takes a `bool`; every
    collection pattern wants a container value schema (`Set` / `List` / `Map` / `Bundle`), which no atom is. -/
def scPromote : TP → Sc → RMap → Option RMap
  | .ref t, v, m => scPromote t v m
  | .var n cs, v, m =>
    match m.findTs n with
    | some b => if valueCompat b v then some m else none
    | none => varMatch n cs (.ts v) m
  | .conc pc, v, m => if valueCompat pc v then some m else none
  | .ts s, v, m => scalarMatch s v m
  | .signal, v, m => if v = 0 then some m else none
  | .tss _, _, _ => none
  | .tsl _ _, _, _ => none
  | .tsd _ _, _, _ => none
  | .tsw _ _, _, _ => none
  | .tsb _ _, _, _ => none
  | .tsbVar _, _, _ => none

/-- `input_adaptation_rank(pattern, concrete)` (operator_dispatch.cpp l.142-163): non-zero only for a `Concrete`
    `TS` leaf whose value schema is a proper bundle ANCESTOR of the argument's (`bundle_inheritance_distance`).
    The modelled scalars are atoms, for which the distance is `nullopt`: the adaptation rank is 0. -/
def inputAdaptationRank (_p : TP) (_c : CT) : Nat := 0

/-- `operator_dispatch_detail::param_pattern_rank(impl.params.back())` for the (time-series) tail parameter:
    `collect_ts_rank` at the default budget into a FRESH accumulator, `total()` -/
def tailRank (p : TP) : Nat := (collectT p {} LARGE_RANK).total

/-- an `OperatorImpl`: `ov` carries label, the FIXED parameters (`impl.params` without the tail), output and
    kwargs collector; `tail = some p`: `impl.variadic` with `impl.params.back().ts = p` -/
structure VOverload where
  ov : Overload
  tail : Option TP := none
deriving DecidableEq, Repr

/-- a fixed-arity candidate -/
def VOverload.fixed (o : Overload) : VOverload := { ov := o, tail := none }

/-- the tail arm of `try_match`'s argument loop (l.390-418).  The scope `m` every tail argument starts from is
    the map of the fixed part; what an argument binds on top of it is dropped (`tail_scope`).
    Result: did every tail argument match, and the `rank_adjustment` at the point of return. -/
def matchTail (p : TP) : List Arg → RMap → Nat → Bool × Nat
  | [], _, adj => (true, adj)
  | .ts c :: as, m, adj =>
    match inMatch p c m with
    | some _ => matchTail p as m (adj + inputAdaptationRank p c)
    | none => (false, adj)
  | .sc v :: as, m, adj =>
    match scPromote p v m with
    | some _ => matchTail p as m (adj + 1)
    | none => (false, adj + 1)

/-- `normalize_call` + `try_match` for one candidate; `tr` ranks the tail pattern (`tailRank` in the code) -/
def tryMatchVG (tr : TP → Nat) (vo : VOverload) (args : List Arg) : Option RMap × Nat :=
  match vo.tail with
  | none => tryMatch vo.ov args
  | some tp =>
    let fixed := vo.ov.params.length
    if args.length < fixed then (none, 0)       -- `normalize_call`: "missing required argument"
    else
      match matchArgs vo.ov.params (args.take fixed) RMap.empty
              (tr tp * (args.length - fixed) + 1 + kwAdjust vo.ov.kw) with
      | (some m, adj) =>
        match matchTail tp (args.drop fixed) m adj with
        | (true, adj') => if outResolvable vo.ov.out m then (some m, adj') else (none, adj')
        | (false, adj') => (none, adj')
      | (none, adj) => (none, adj)

/-- the base rank `impl.rank = operator_rank(impl.params, impl.variadic)`: the tail pattern is NOT part of it -/
def baseRank (vo : VOverload) : Nat := operatorRank vo.ov.params

/-- an entry of `resolve`'s `survivors` vector (`Survivor.ov` = the candidate without its tail pattern) -/
def survivorOfVG (tr : TP → Nat) (args : List Arg) (vo : VOverload) : Option Survivor :=
  match tryMatchVG tr vo args with
  | (some m, adj) => some ⟨vo.ov, m, baseRank vo + adj⟩
  | (none, _) => none

def survivorsVG (tr : TP → Nat) (vos : List VOverload) (args : List Arg) : List Survivor :=
  vos.filterMap (survivorOfVG tr args)

def rejectedOfVG (tr : TP → Nat) (args : List Arg) (vo : VOverload) : Option (Name × Nat) :=
  match tryMatchVG tr vo args with
  | (some _, _) => none
  | (none, adj) => some (vo.ov.label, baseRank vo + adj)

/-- `OperatorRegistry::resolve` over a family that may contain variadic candidates -/
def resolveCallVG (tr : TP → Nat) (vos : List VOverload) (args : List Arg) : Outcome :=
  decide_ (stableSort (survivorsVG tr vos args))

/-! the code: the tail is ranked with `param_pattern_rank` -/
abbrev tryMatchV := tryMatchVG tailRank
abbrev survivorOfV := survivorOfVG tailRank
abbrev survivorsV := survivorsVG tailRank
abbrev rejectedOfV := rejectedOfVG tailRank
abbrev resolveCallV := resolveCallVG tailRank

end HgVerif.Dispatch
