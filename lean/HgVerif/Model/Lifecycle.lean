/-
Generic model of the node start / stop loops of `graph.cpp start_impl` / `stop_impl`:
start in index order until the first failure, roll back the started prefix in reverse; stop every
node in reverse order, each getting its attempt, remembering the first error
(`FirstExceptionRecorder`).  Node behaviour is a parameter (any state type, any failures).
The executable engine model (`Model/Engine.lean`) runs its graphs through these loops.
Core Lean only.
-/
namespace HgVerif.Lifecycle

structure StepRes (σ : Type) where
  st : σ
  err : Option String := none

structure StartRes (σ : Type) where
  st : σ
  started : Nat                 -- number of nodes whose start completed
  visited : List Nat            -- indices whose start was attempted, in order
  err : Option String

/-- `for (index = 0; index < node_count; ++index) node.start()` from index `i`, `rem` nodes left -/
def startLoop {σ : Type} (start : Nat → σ → StepRes σ) : Nat → Nat → σ → List Nat → StartRes σ
  | 0, i, s, vis => { st := s, started := i, visited := vis, err := none }
  | rem + 1, i, s, vis =>
    let r := start i s
    match r.err with
    | none => startLoop start rem (i + 1) r.st (vis ++ [i])
    | some m => { st := r.st, started := i, visited := vis ++ [i], err := some m }

structure StopRes (σ : Type) where
  st : σ
  visited : List Nat            -- indices whose stop was attempted, in order
  err : Option String           -- the first error

/-- `for (index = k; index > 0; --index) exceptions.capture([&]{ node(index-1).stop(); })` -/
def stopLoop {σ : Type} (stop : Nat → σ → StepRes σ) : Nat → σ → List Nat → Option String → StopRes σ
  | 0, s, vis, e => { st := s, visited := vis, err := e }
  | k + 1, s, vis, e =>
    let r := stop k s
    stopLoop stop k r.st (vis ++ [k]) (match e with | some m => some m | none => r.err)

structure LifeRes (σ : Type) where
  st : σ
  startVisited : List Nat
  started : Nat
  rollbackVisited : List Nat
  err : Option String

/-- `start_impl`: start loop + rollback guard (errors thrown by the rollback stops are swallowed) -/
def graphStart {σ : Type} (start stop : Nat → σ → StepRes σ) (n : Nat) (s : σ) : LifeRes σ :=
  let r := startLoop start n 0 s []
  match r.err with
  | none => { st := r.st, startVisited := r.visited, started := r.started, rollbackVisited := [], err := none }
  | some m =>
    let x := stopLoop stop r.started r.st [] none
    { st := x.st, startVisited := r.visited, started := r.started, rollbackVisited := x.visited, err := some m }

end HgVerif.Lifecycle
