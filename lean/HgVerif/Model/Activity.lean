/-!
# Run-time input activity of structured node inputs (C03, streams `activity-*`)

Model of the code in
* `src/hgraph/types/time_series/ts_input.cpp`  `TSInput::make_active / make_passive / active` and the
  per-position activity trie `detail::TSInputActiveTarget` (non-peered composite positions),
* `src/hgraph/types/time_series/ts_input/target_link.cpp` `TSInputTargetLinkStorage::make_active /
  make_passive / active` (`TSInputTargetActiveNode::locally_active`: peered positions and leaves),
* `src/hgraph/types/time_series/ts_input/base_view.cpp` `InputDataCursor::make_active / make_passive /
  active` (the dispatch between the two), `TSInputView::valid / all_valid`,
* `src/hgraph/runtime/node.cpp` `activate_input_slots`, `ready_to_evaluate`, `start_impl`, `evaluate_impl`.

Core Lean only.  A position is a path into the node's input tree (`[slot, child, grandchild]`).

## The trie (`TSInputActiveTarget`)
A trie node has `parent`, `slot`, `active`, `children`.  Here the trie is the list of its nodes, each node
given by its path from the root and its `active` flag (a tree = a prefix-closed set of paths, `WF`).
* `make_active(path)`  : `ensure_child` for every step of the path (nodes are created with `active = false`),
  then `active = true` (+ subscribe).
* `make_passive(path)` : walk down with `child_at`; return if a node is missing or the node is not active;
  `active = false` (+ unsubscribe); then the PRUNE LOOP: while the current node has no active node in its
  subtree (`has_any_active`): at the root drop the whole trie, otherwise remember the node's OWN slot, move to
  the parent and erase that child entry (which destroys the whole - inactive - subtree).
* `active(path)`       : walk down; `node != nullptr && node->active`.
A node is subscribed to the data of its position exactly while its flag is set (subscribe / unsubscribe are
called next to every flag write, and the destructor of an erased node unsubscribes): the model identifies
"subscribed" with the flag (trusted; covered by the correspondence).

## Target links (`TSInputTargetActiveNode`)
One flag `locally_active` per position, nodes are created by navigation and never pruned.

## What `active()` reports
The flag of THAT position only: a parent whose children are active but which is not active itself reports
`false`; making a parent active or passive does not touch the flags of its children (and vice versa).
-/
namespace HgVerif.Activity

abbrev Path := List Nat

/-- the prefixes of a path, shortest first: the nodes a walk from the root passes through -/
def prefixes : Path → List Path
  | [] => [[]]
  | x :: xs => [] :: (prefixes xs).map (x :: ·)

/-- the nodes of an activity tree: path from the root and the `active` / `locally_active` flag -/
abbrev Trie := List (Path × Bool)

def hasNode (t : Trie) (p : Path) : Bool := t.any fun n => n.1 == p

/-- `TSInput::active(path)`: the node exists and its flag is set -/
def isActive (t : Trie) (p : Path) : Bool := t.any fun n => n.1 == p && n.2

/-- `ensure_child`: a missing node is created with `active = false` -/
def ensure (t : Trie) (p : Path) : Trie := if hasNode t p then t else (p, false) :: t

def ensurePath (t : Trie) (p : Path) : Trie := (prefixes p).foldl ensure t

def setFlag (t : Trie) (p : Path) (b : Bool) : Trie := (p, b) :: t.filter fun n => n.1 != p

/-- `TSInput::make_active(path, ..)` -/
def makeActive (t : Trie) (p : Path) : Trie := setFlag (ensurePath t p) p true

/-- the walk `active = active->child_at(slot)` finds a node at every step -/
def descend (t : Trie) (p : Path) : Bool := (prefixes p).all (hasNode t)

/-- `TSInputActiveTarget::has_any_active` of the node at `p` -/
def hasAnyActive (t : Trie) (p : Path) : Bool := t.any fun n => p.isPrefixOf n.1 && n.2

/-- `parent->children.erase(slot)` for the node at `p`: the node and everything below it go -/
def eraseSub (t : Trie) (p : Path) : Trie := t.filter fun n => !p.isPrefixOf n.1

/-- the prune loop of `make_passive`, started at the node whose REVERSED path is given -/
def prune (t : Trie) : List Nat → Trie
  | [] => if hasAnyActive t [] then t else []
  | s :: r => if hasAnyActive t (s :: r).reverse then t else prune (eraseSub t (s :: r).reverse) r

/-- `TSInput::make_passive(path)` -/
def makePassive (t : Trie) (p : Path) : Trie :=
  if descend t p && isActive t p then prune (setFlag t p false) p.reverse else t

/-- the tree invariant: every node's ancestors are nodes -/
def WF (t : Trie) : Prop := ∀ n ∈ t, ∀ q ∈ prefixes n.1, hasNode t q = true

/-! ### the seeded variant (for the non-vacuity examples only): the prune loop erases the entry keyed by the
PARENT's slot (`active = parent; active->children.erase(active->slot)`); the root's slot is 0 -/

def pruneBuggy (t : Trie) : List Nat → Trie
  | [] => if hasAnyActive t [] then t else []
  | s :: r =>
    if hasAnyActive t (s :: r).reverse then t
    else pruneBuggy (eraseSub t (r.reverse ++ [r.headD 0])) r

def makePassiveBuggy (t : Trie) (p : Path) : Trie :=
  if descend t p && isActive t p then pruneBuggy (setFlag t p false) p.reverse else t

/-! ### target links -/

/-- `TSInputTargetLinkStorage::make_active(node, ..)` (the node was created by the navigation) -/
def linkMakeActive (l : Trie) (p : Path) : Trie := setFlag (ensurePath l p) p true

/-- `TSInputTargetLinkStorage::make_passive(node)` -/
def linkMakePassive (l : Trie) (p : Path) : Trie := if isActive l p then setFlag l p false else l

/-! ## the probe node -/

inductive Gate where
  | valid | allValid | unchecked
  deriving DecidableEq, Repr

/-- a position of the input tree -/
structure Pos where
  path : Path
  /-- non-peered composite position: its activity lives in the `TSInput` trie (otherwise in a target link) -/
  inTrie : Bool
  /-- number of children; 0 = leaf (`TS<Int>`) -/
  arity : Nat
  deriving Repr

structure Cfg where
  /-- every position of the input tree, parents before children -/
  pos : List Pos
  /-- readiness selector of every slot (`valid_inputs` / `all_valid_inputs`) -/
  gates : List Gate
  /-- slots in `active_inputs` -/
  initActive : List Bool
  deriving Repr

structure Cmd where
  act : Bool
  path : Path
  deriving Repr

structure St where
  trie : Trie := []
  link : Trie := []
  /-- ticks seen so far, latest first -/
  vals : List (Path × Int) := []
  /-- commands waiting for the next run of the user code -/
  pending : List Cmd := []
  deriving Repr

def posInTrie (cfg : Cfg) (p : Path) : Bool := cfg.pos.any fun q => q.path == p && q.inTrie

/-- `InputDataCursor::make_active / make_passive`: target positions go to their link, the others to the trie -/
def applyCmd (cfg : Cfg) (st : St) (c : Cmd) : St :=
  if posInTrie cfg c.path then
    { st with trie := if c.act then makeActive st.trie c.path else makePassive st.trie c.path }
  else
    { st with link := if c.act then linkMakeActive st.link c.path else linkMakePassive st.link c.path }

/-- `TSInputView::active()` -/
def active (cfg : Cfg) (st : St) (p : Path) : Bool :=
  if posInTrie cfg p then isActive st.trie p else isActive st.link p

/-- `valid()` of the position: a leaf under it has ticked (`valid()` of a composite = some child valid) -/
def validAt (cfg : Cfg) (vals : List (Path × Int)) (p : Path) : Bool :=
  cfg.pos.any fun q => q.arity == 0 && p.isPrefixOf q.path && vals.any fun v => v.1 == q.path

/-- `all_valid()`: every DIRECT child is `valid()` (not recursive); on a leaf it is `valid()` -/
def allValidAt (cfg : Cfg) (vals : List (Path × Int)) (p : Path) (arity : Nat) : Bool :=
  if arity == 0 then validAt cfg vals p else (List.range arity).all fun i => validAt cfg vals (p ++ [i])

def arityOf (cfg : Cfg) (p : Path) : Nat := ((cfg.pos.find? fun q => q.path == p).map (·.arity)).getD 0

def gateSlot (cfg : Cfg) (vals : List (Path × Int)) (k : Nat) : Gate → Bool
  | .valid => validAt cfg vals [k]
  | .allValid => allValidAt cfg vals [k] (arityOf cfg [k])
  | .unchecked => true

/-- `ready_to_evaluate` -/
def gateOk (cfg : Cfg) (vals : List (Path × Int)) : Bool :=
  (List.zip (List.range cfg.gates.length) cfg.gates).all fun kg => gateSlot cfg vals kg.1 kg.2

/-- a source leaf under the position ticked in this cycle -/
def tickedUnder (ticks : List (Path × Int)) (p : Path) : Bool := ticks.any fun tk => p.isPrefixOf tk.1

/-- the node was notified: a leaf under a position whose flag is set ticked -/
def scheduled (cfg : Cfg) (st : St) (ticks : List (Path × Int)) : Bool :=
  cfg.pos.any fun q => active cfg st q.path && tickedUnder ticks q.path

/-- `start_impl`: `activate_input_slots` (make_active on every slot of `active_inputs`), then the start hook -/
def startCmds (cfg : Cfg) : List Cmd :=
  (List.zip (List.range cfg.initActive.length) cfg.initActive).filterMap fun kb =>
    if kb.2 then some ⟨true, [kb.1]⟩ else none

def start (cfg : Cfg) (init : List Cmd) : St := (startCmds cfg ++ init).foldl (applyCmd cfg) {}

structure Cycle where
  ticks : List (Path × Int)
  cmds : List Cmd
  deriving Repr

/-- one engine cycle; the flag says whether the user code ran.  The user code executes every pending command
(those of earlier cycles in which it did not run, then this cycle's) -/
def step (cfg : Cfg) (st : St) (c : Cycle) : St × Bool :=
  let vals := c.ticks ++ st.vals
  let pend := st.pending ++ c.cmds
  if scheduled cfg st c.ticks && gateOk cfg vals then
    (pend.foldl (applyCmd cfg) { st with vals := vals, pending := [] }, true)
  else
    ({ st with vals := vals, pending := pend }, false)

def run (cfg : Cfg) : St → List Cycle → St × List Bool
  | st, [] => (st, [])
  | st, c :: cs =>
    let r := step cfg st c
    let rest := run cfg r.1 cs
    (rest.1, r.2 :: rest.2)

/-! ## the specification: a set of active positions -/

structure Spec where
  /-- the active positions -/
  act : Path → Bool
  vals : List (Path × Int)
  pending : List Cmd

/-- `make_active p` adds `p`, `make_passive p` removes `p`; nothing else changes -/
def specCmd (a : Path → Bool) (c : Cmd) : Path → Bool :=
  fun q => if c.act then (q == c.path || a q) else (a q && q != c.path)

def specScheduled (cfg : Cfg) (a : Path → Bool) (ticks : List (Path × Int)) : Bool :=
  cfg.pos.any fun q => a q.path && tickedUnder ticks q.path

def specStep (cfg : Cfg) (s : Spec) (c : Cycle) : Spec × Bool :=
  let vals := c.ticks ++ s.vals
  let pend := s.pending ++ c.cmds
  if specScheduled cfg s.act c.ticks && gateOk cfg vals then
    ({ act := pend.foldl specCmd s.act, vals := vals, pending := [] }, true)
  else
    ({ s with vals := vals, pending := pend }, false)

def specRun (cfg : Cfg) : Spec → List Cycle → Spec × List Bool
  | s, [] => (s, [])
  | s, c :: cs =>
    let r := specStep cfg s c
    let rest := specRun cfg r.1 cs
    (rest.1, r.2 :: rest.2)

def specStart (cfg : Cfg) (init : List Cmd) : Spec :=
  { act := (startCmds cfg ++ init).foldl specCmd (fun _ => false), vals := [], pending := [] }

end HgVerif.Activity
