import HgVerif.Model.RefLinkStruct
/-
C13 — what a reference DESIGNATES: a node output plus a child path below it.

`TimeSeriesReference` (peered kind) holds a `TSOutputHandle`; two references are the same reference when the
handles are the same endpoint (`TSOutputHandle::same_as`: owning output, storage type, data pointer).  For the
compact scalar children of a fixed-shape output (the `TS` fields of one `TSB` output, the `TS` elements of one
fixed-size `TSL` output) the children share the parent's data pointer and are told apart by the per-child
storage type only - in model terms: by the PATH.  The selection operators de-duplicate with that equality
(`if (out.valid() && out.value() == reference) return;`), the from-REF dereference with `same_as` of the bound
output.

The targets of `Model/RefLink.lean` are numbered; a designation `(out, path)` is target number
`out * W + path` (`W` = number of addressable children per output, `path < W`), which is injective, so that
"same number" is "same output AND same path" and every theorem about numbered targets is a theorem about
designations (`Props/C13Sib.lean`).  `selectEq` is `select` with the reference equality made a parameter:
`sameDesig` (output and path - the code) gives back `select`; `sameOutputOnly` (the rule of seeded defect s87:
owning output and data pointer, the path ignored) makes a retarget between sibling children a no-op.
-/
namespace HgVerif.RefLink

/-- what a reference designates: a node output and the child path below it -/
structure Desig where
  out : Nat
  path : Nat
  deriving DecidableEq, Repr

/-- the target number of a designation (`W` children per output) -/
def Desig.code (W : Nat) (d : Desig) : Nat := d.out * W + d.path

def Desig.ofCode (W n : Nat) : Desig := { out := n / W, path := n % W }

/-- reference equality of the code: same output AND same path -/
def sameDesig (W : Nat) (a b : Nat) : Bool := decide (Desig.ofCode W a = Desig.ofCode W b)

/-- the equality of seeded defect s87: same owning output (and data pointer), the path is ignored -/
def sameOutputOnly (W : Nat) (a b : Nat) : Bool := a / W == b / W

/-- the selection operator with its same-reference test `same` as a parameter -/
def selectEq (same : Nat → Nat → Bool) (s : State) (sel : Option Nat) : State :=
  match sel with
  | none => s
  | some i =>
    if (match s.ref with
        | some r => same r i
        | none => false) then s    -- "same reference": no tick
    else
      (List.range s.nC).foldl (fun st c => retargetOne st c i)
        { s with ref := some i, refLmt := s.now, sched := s.sched ++ s.resample }

/-- one engine cycle with that selection operator (otherwise `cycle`) -/
def cycleEq (same : Nat → Nat → Bool) (s : State) (inp : CycleIn) : State × List (Nat × View) :=
  let m := selectEq same (tickAll { s with now := s.now + 1 } inp.ticks (List.range s.nT)) inp.sel
  ({ m with sched := [] }, (evaluated m).map (fun c => (c, view m c)))

/-- the leaves of a selection tree renamed (letters -> designation codes) -/
def Chain.mapLeaves (f : Nat → Nat) : Chain → Chain
  | .leaf t => .leaf (f t)
  | .ite id st l r => .ite id st (l.mapLeaves f) (r.mapLeaves f)
  | .cmp id st a b c => .cmp id st (a.mapLeaves f) (b.mapLeaves f) (c.mapLeaves f)
  | .pass k => .pass (k.mapLeaves f)

end HgVerif.RefLink
