/-!
Model of the queue push source of `src/hgraph/runtime/push_source_node.cpp`
(`QueuePolicyStorage::{start,stop,try_send,send_blocking,try_pop,take_all}`,
`PushSourceSenderControl::{enter,try_send,send_blocking,begin_close}`, `push_source_eval`,
`push_source_stop`) together with the executor's `push_update_pending` flag
(`executor.cpp realtime_mark_push_update_pending_impl`, `realtime_reset_push_update_pending_impl`,
`realtime_request_stop_impl`) and the push phase of `graph.cpp evaluate_impl`.

It is a labelled transition system.  Threads: any number of producers (indexed by `Nat`), the
evaluation thread, and whoever requests the executor stop.  The atomic steps are exactly the
mutex-protected sections (the sender control mutex, the policy mutex, the executor mutex) and the
atomic load of `stop_requested`; the gaps between them are where other threads interleave.
`step` is a partial deterministic function of the label, so the same definition drives the
correspondence driver (`Drivers/C16.lean`) and the theorems (`Props/C16.lean`), which quantify
over all label sequences = all interleavings.

Ghost fields (`accepted`, `delivered`, `results`) record history and influence nothing.
Core Lean only.
-/
namespace HgVerif.PushQueue

inductive Policy where
  | queue        -- one value per evaluation cycle, consumer re-arms when more is pending
  | burst        -- all pending values as one tuple per cycle
  | conflating   -- the merged latest state (for `TS<int>`: the last value), never refuses
deriving Repr, DecidableEq

structure Cfg where
  cap : Nat := 0                 -- `max_pending`, 0 = unbounded (ignored by `conflating`)
  policy : Policy := .queue
  /-- conflating only, used by the multi-source model `PushQueueN` (ignored here): the output is a
      COLLECTION (`TSD`), the payloads are collection deltas merged into an accumulator -/
  dict : Bool := false
deriving Repr, DecidableEq

inductive SendKind where
  | try_ | blocking
deriving Repr, DecidableEq

/-- why a send returned what it returned -/
inductive Outcome where
  | accepted
  | refusedClosed        -- `enter()`: the control block is closing / detached / never started
  | refusedStopReq       -- `push_engine_.stop_requested()`
  | refusedNotAccepting  -- the policy is not accepting (stopped)
  | refusedFull          -- bounded queue at capacity (`try_send` only)
deriving Repr, DecidableEq

/-- program counter of a producer thread inside one `try_send` / `send_blocking` call -/
inductive PPc where
  | idle
  | entered (k : SendKind) (v : Nat)     -- passed `enter()` (`active_calls` counted)
  | checked (k : SendKind) (v : Nat)     -- passed the executor stop check
  | blocked (v : Nat)                    -- in `capacity_available.wait` of `send_blocking`
  | admitted (k : SendKind) (v : Nat) (wake : Bool)   -- accepted by the policy; `mark_push_update_pending` is next when `wake`
deriving Repr, DecidableEq

/-- program counter of the evaluation thread inside the push phase of one cycle -/
inductive CPc where
  | idle                    -- not in a push phase (loop head, waiting, evaluating other nodes)
  | reset                   -- the flag was set and has been reset; `push_source_eval` is next
  | popped (more : Bool)    -- `emit_next` returned `more_pending`; the re-arm is next
deriving Repr, DecidableEq

inductive Label where
  | start                                         -- `graph.start`: the policy starts accepting
  | enter (i : Nat) (k : SendKind) (v : Nat)      -- producer `i` calls a send: `enter()`
  | check (i : Nat)                               -- `if (push_engine_.stop_requested()) return false`
  | admitQ (i : Nat)                               -- the policy's mutex section of the send
  | wake (i : Nat)                                -- a blocked sender re-evaluates its wait predicate
  | mark (i : Nat)                                -- `mark_push_update_pending()` when required; the send returns `true`
  | beginCycle (dt : Nat)                         -- a new evaluation cycle `dt+1` later: `reset_push_update_pending()`
  | pop                                           -- `emit_next`: `try_pop` / `take_all` / `take_accumulated`
  | rearm                                         -- `if (more_pending) mark_push_update_pending()`
  | reqStop                                       -- `request_stop()` from any thread
  | closeBegin                                    -- `push_source_stop`: `control->begin_close()`
  | queueStop                                     -- `policy.stop()`: stop accepting, drop pending, wake waiters
deriving Repr, DecidableEq

structure St where
  started : Bool := false
  accepting : Bool := false          -- `QueuePolicyStorage::accepting`
  closing : Bool := false            -- `PushSourceSenderControl::closing_`
  deque : List (Nat × Nat) := []     -- `values` as (producer, value); the producer tag is ghost (conflating: the accumulator, length ≤ 1)
  flag : Bool := false               -- executor `push_update_pending`
  stopReq : Bool := false            -- executor `stop_requested`
  pcs : Nat → PPc := fun _ => .idle
  cpc : CPc := .idle
  time : Nat := 0                    -- evaluation time of the current / last cycle
  accepted : List (Nat × Nat) := []                       -- ghost: accepted (producer, value) in admission order
  delivered : List (Nat × List (Nat × Nat)) := []         -- ghost: (cycle time, values handed to the graph)
  results : List (Nat × SendKind × Nat × Outcome) := []   -- ghost: returned sends (producer, kind, value, outcome)

def upd (f : Nat → PPc) (i : Nat) (v : PPc) : Nat → PPc := fun j => if j = i then v else f j

/-- `QueuePolicyStorage::full()` -/
def full (cfg : Cfg) (s : St) : Bool :=
  match cfg.policy with
  | .conflating => false
  | _ => cfg.cap != 0 && decide (s.deque.length ≥ cfg.cap)

/-- `realtime_mark_push_update_pending_impl` -/
def markFlag (s : St) : St := if s.stopReq then s else { s with flag := true }

/-- the policy accepts `v` for producer `i`: push (or merge) and compute `wake_required` -/
def accept (cfg : Cfg) (s : St) (i : Nat) (k : SendKind) (v : Nat) : St :=
  let wasEmpty := s.deque.isEmpty
  let dq := match cfg.policy with
    | .conflating => [(i, v)]            -- `apply_delta` on a scalar accumulator: the latest value
    | _ => s.deque ++ [(i, v)]
  { s with deque := dq, accepted := s.accepted ++ [(i, v)], pcs := upd s.pcs i (.admitted k v wasEmpty) }

def refuse (s : St) (i : Nat) (k : SendKind) (v : Nat) (o : Outcome) : St :=
  { s with pcs := upd s.pcs i .idle, results := s.results ++ [(i, k, v, o)] }

/-- one atomic step; `none` when the label is not enabled in `s` -/
def step (cfg : Cfg) (s : St) : Label → Option St
  | .start =>
    if s.started then none        -- restart is not supported by design
    else some { s with started := true, accepting := true, deque := [] }
  | .enter i k v =>
    match s.pcs i with
    | .idle =>
      if !s.started || s.closing then some (refuse s i k v .refusedClosed)
      else some { s with pcs := upd s.pcs i (.entered k v) }
    | _ => none
  | .check i =>
    match s.pcs i with
    | .entered k v =>
      if s.stopReq then some (refuse s i k v .refusedStopReq)
      else some { s with pcs := upd s.pcs i (.checked k v) }
    | _ => none
  | .admitQ i =>
    match s.pcs i with
    | .checked .try_ v =>
      if !s.accepting then some (refuse s i .try_ v .refusedNotAccepting)
      else if full cfg s then some (refuse s i .try_ v .refusedFull)
      else some (accept cfg s i .try_ v)
    | .checked .blocking v =>
      if !s.accepting then some (refuse s i .blocking v .refusedNotAccepting)
      else if full cfg s then some { s with pcs := upd s.pcs i (.blocked v) }
      else some (accept cfg s i .blocking v)
    | _ => none
  | .wake i =>
    match s.pcs i with
    | .blocked v =>
      -- the wait predicate `!accepting || !full()`; a spurious wake-up that finds it false is a no-op
      if !s.accepting then some (refuse s i .blocking v .refusedNotAccepting)
      else if full cfg s then some s
      else some (accept cfg s i .blocking v)
    | _ => none
  | .mark i =>
    match s.pcs i with
    | .admitted k v wake =>
      let s1 := if wake then markFlag s else s
      some { s1 with pcs := upd s1.pcs i .idle, results := s1.results ++ [(i, k, v, .accepted)] }
    | _ => none
  | .beginCycle dt =>
    match s.cpc with
    | .idle =>
      if !s.started || s.closing then none
      else some { s with time := s.time + dt + 1, flag := false, cpc := if s.flag then .reset else .idle }
    | _ => none
  | .pop =>
    match s.cpc with
    | .reset =>
      match cfg.policy, s.deque with
      | _, [] => some { s with cpc := .popped false }
      | .queue, v :: rest =>
        some { s with deque := rest, delivered := s.delivered ++ [(s.time, [v])], cpc := .popped (!rest.isEmpty) }
      | _, v :: rest =>      -- burst: the whole pending list; conflating: the accumulated state
        some { s with deque := [], delivered := s.delivered ++ [(s.time, v :: rest)], cpc := .popped false }
    | _ => none
  | .rearm =>
    match s.cpc with
    | .popped more => some { (if more then markFlag s else s) with cpc := .idle }
    | _ => none
  | .reqStop => some { s with stopReq := true }
  | .closeBegin =>
    match s.cpc with
    | .idle => if s.started && !s.closing then some { s with closing := true } else none
    | _ => none
  | .queueStop =>
    if s.closing && s.accepting then some { s with accepting := false, deque := [] } else none

/-- reachable states: all interleavings of the atomic steps -/
inductive Reach (cfg : Cfg) : St → Prop where
  | init : Reach cfg {}
  | step {s s' : St} (l : Label) : Reach cfg s → step cfg s l = some s' → Reach cfg s'

/-- run a label sequence; disabled labels are skipped (used by the driver) -/
def runLabels (cfg : Cfg) : St → List Label → St
  | s, [] => s
  | s, l :: ls => match step cfg s l with
    | some s' => runLabels cfg s' ls
    | none => runLabels cfg s ls

end HgVerif.PushQueue
