/-
Model of the static half of C01: the rank pass run by `Wiring::finish`
(`src/hgraph/types/graph_wiring.cpp`):

* `build_ranked_graph`            -> `kahnOn` / `kahn`, `emitEdges`
* `Wiring::add_rank_dependency`   -> `addDep`
* `Wiring::add_same_cycle_pair` / `validate_same_cycle_pairs` -> `addPair` / `validatePairs`
* `graph.cpp compute_push_source_nodes_end` -> `pushEnd`
* `finish_top_level` (the part that concerns order and edges) -> `finish`

A wiring is the `instances` deque in insertion (statement) order; a node is identified by its
position.  Per node: its `inputs` in slot order, each with the producing node and the
`WiringInputRef::rank_dependency` flag (`false` = rank-free: the sanctioned backward links of
shared-output relays / passive higher-order transports), its explicit `rank_dependencies`, and
whether its schema says `NodeKind::PushSource`.

The pass is modelled as the code runs it: indegree counted WITH multiplicity (one per producer
occurrence, inputs first, then explicit dependencies), `consumers[p]` in instance order with the same
multiplicity, two FIFO ready queues (push sources are served first), the ready scan in insertion
order, `--indegree == 0` on a signed counter (a `size_t` that wraps below zero never returns to zero
either), and `ranked.size() != all.size()` as the one and only cycle test.
Core Lean only (no Mathlib) so the driver can run it.
-/
namespace HgVerif.Rank

/-- the error classes of `finish` that matter here -/
inductive Err where
  | cycle     -- "Wiring::finish detected a cycle in the wiring graph"
  | pushDep   -- "Push source nodes cannot have rank dependencies"
  | other     -- unbound delayed binding, foreign port, same-cycle pair violation, prefix violation
deriving DecidableEq, Repr

structure Node where
  /-- `WiringInstance::inputs` in slot order: (producer, `rank_dependency`) -/
  inputs : List (Nat × Bool) := []
  /-- `WiringInstance::rank_dependencies` -/
  deps : List Nat := []
  /-- `schema->node_kind == NodeKind::PushSource` -/
  push : Bool := false
deriving Repr, DecidableEq

/-- `Wiring::Impl::instances`, insertion order -/
abbrev Wiring := List Node

/-- rank-carrying producers named by the inputs -/
def Node.rankInputs (nd : Node) : List Nat := (nd.inputs.filter (·.2)).map (·.1)
/-- rank-free producers named by the inputs -/
def Node.freeInputs (nd : Node) : List Nat := (nd.inputs.filter (fun i => !i.2)).map (·.1)

/-- The producers that count towards a node's indegree, in the order the code visits them:
    rank-carrying inputs (`collect_producers`, only `owned` nodes), then explicit rank dependencies
    (only `owned` nodes).  `n` is the number of owned nodes. -/
def producers (n : Nat) (nd : Node) : List Nat := (nd.rankInputs ++ nd.deps).filter (· < n)

def prods (g : Wiring) (i : Nat) : List Nat :=
  match g[i]? with
  | some nd => producers g.length nd
  | none => []

def isPush (g : Wiring) (i : Nat) : Bool :=
  match g[i]? with
  | some nd => nd.push
  | none => false

def inputsOf (g : Wiring) (i : Nat) : List (Nat × Bool) :=
  match g[i]? with
  | some nd => nd.inputs
  | none => []

/-! ### the Kahn pass over `n` nodes with producer lists `P` -/

/-- `consumers[p]`: filled instance by instance, one entry per producer occurrence -/
def consumersOf (n : Nat) (P : Nat → List Nat) (p : Nat) : List Nat :=
  (List.range n).flatMap fun i => List.replicate ((P i).count p) i

structure St where
  indeg : Nat → Int
  qp : List Nat          -- `ready_push_sources`
  q : List Nat           -- `ready`
  ranked : List Nat

/-- `if (--indegree[consumer] == 0) (is_push_source(consumer) ? ready_push_sources : ready).push_back(consumer)` -/
def relax (push : Nat → Bool) (s : St) (c : Nat) : St :=
  let d := s.indeg c - 1
  let s1 : St := { s with indeg := fun j => if j = c then d else s.indeg j }
  if d = 0 then
    if push c then { s1 with qp := s1.qp ++ [c] } else { s1 with q := s1.q ++ [c] }
  else s1

def relaxAll (push : Nat → Bool) (s : St) (cs : List Nat) : St := cs.foldl (relax push) s

/-- one iteration of `while (!ready_push_sources.empty() || !ready.empty())` -/
def step (n : Nat) (P : Nat → List Nat) (push : Nat → Bool) (s : St) : Option St :=
  match s.qp, s.q with
  | x :: qp', _ => some (relaxAll push { s with qp := qp', ranked := s.ranked ++ [x] } (consumersOf n P x))
  | [], x :: q' => some (relaxAll push { s with q := q', ranked := s.ranked ++ [x] } (consumersOf n P x))
  | [], [] => none

/-- the `while` loop; the fuel is never the reason it stops (`loop_queues_empty`, `loop_exhausts`) -/
def loop (n : Nat) (P : Nat → List Nat) (push : Nat → Bool) : Nat → St → St
  | 0, s => s
  | f + 1, s =>
    match step n P push s with
    | none => s
    | some s' => loop n P push f s'

/-- state after the indegree pass and the insertion-order ready scan -/
def initSt (n : Nat) (P : Nat → List Nat) (push : Nat → Bool) : St :=
  { indeg := fun i => ((P i).length : Int)
    qp := (List.range n).filter fun i => push i && (P i).length == 0
    q := (List.range n).filter fun i => !push i && (P i).length == 0
    ranked := [] }

def kahnOn (n : Nat) (P : Nat → List Nat) (push : Nat → Bool) : Except Err (List Nat) :=
  -- `if (is_push_source(instance) && indegree[instance] != 0) throw invalid_argument`
  if (List.range n).any (fun i => push i && (P i).length != 0) then .error .pushDep
  else
    let s := loop n P push n (initSt n P push)
    -- `if (ranked.size() != all.size()) throw runtime_error("... detected a cycle ...")`
    if s.ranked.length != n then .error .cycle else .ok s.ranked

/-- The rank pass of `build_ranked_graph`: the ranked order (node positions) or the error. -/
def kahn (g : Wiring) : Except Err (List Nat) := kahnOn g.length (prods g) (isPush g)

/-! ### edge emission -/

/-- a compiled `GraphEdge`: final source index, final target index, target path `{slot}` -/
structure Edge where
  src : Nat
  tgt : Nat
  slot : Nat
deriving DecidableEq, Repr

/-- `emit_edges` over every input of every ranked node (rank-free inputs included: they are real
    runtime edges).  A producer that is not in `index_of` is a port of a different wiring. -/
def emitEdges (g : Wiring) (ranked : List Nat) : Except Err (List Edge) :=
  if ranked.all (fun c => (inputsOf g c).all fun i => ranked.contains i.1) then
    .ok (ranked.zipIdx.flatMap fun ci =>
      (inputsOf g ci.1).zipIdx.map fun ps => { src := ranked.idxOf ps.1.1, tgt := ci.2, slot := ps.2 })
  else .error .other

/-! ### push-source prefix -/

/-- `compute_push_source_nodes_end`: length of the push-source prefix; a push source after a
    non-push node is an error. -/
def pushEndAux (push : Nat → Bool) : List Nat → Nat → Bool → Except Err Nat
  | [], k, _ => .ok k
  | x :: xs, k, seen =>
    if push x then (if seen then .error .other else pushEndAux push xs (k + 1) seen)
    else pushEndAux push xs k true

def pushEnd (g : Wiring) (ranked : List Nat) : Except Err Nat := pushEndAux (isPush g) ranked 0 false

/-! ### explicit rank dependencies and same-cycle pairs -/

/-- `Wiring::add_rank_dependency(node, depends_on)`; both nodes exist. -/
def addDep (g : Wiring) (node dependsOn : Nat) : Except Err Wiring :=
  if node = dependsOn then .error .other
  else .ok (g.modify node fun nd => if nd.deps.contains dependsOn then nd else { nd with deps := nd.deps ++ [dependsOn] })

structure Prog where
  g : Wiring := []
  /-- `same_cycle_pairs`: (capture, source) -/
  pairs : List (Nat × Nat) := []
deriving Repr

/-- `Wiring::add_same_cycle_pair(capture, source)` -/
def addPair (p : Prog) (capture source : Nat) : Except Err Prog := do
  let g ← addDep p.g source capture
  pure { g := g, pairs := p.pairs ++ [(capture, source)] }

/-- `validate_same_cycle_pairs(index_of)` -/
def validatePairs (ranked : List Nat) (pairs : List (Nat × Nat)) : Except Err Unit :=
  if pairs.all (fun cs => ranked.contains cs.1 && ranked.contains cs.2 && ranked.idxOf cs.1 < ranked.idxOf cs.2)
  then .ok () else .error .other

structure Built where
  order : List Nat
  edges : List Edge
  pushEnd : Nat
deriving Repr

/-- `Wiring::finish()` as far as order, edges and the push prefix go.  A rank-carrying input whose
    producer was never supplied (index `≥ length`: an unbound `delayed_binding`) makes
    `collect_producers` throw before anything is ranked; a rank-free one is only met by `emit_edges`. -/
def finish (p : Prog) : Except Err Built := do
  if p.g.any (fun nd => nd.rankInputs.any (fun i => decide (p.g.length ≤ i))) then throw .other
  let r ← kahn p.g
  let es ← emitEdges p.g r
  validatePairs r p.pairs
  let k ← pushEnd p.g r
  pure { order := r, edges := es, pushEnd := k }

end HgVerif.Rank
