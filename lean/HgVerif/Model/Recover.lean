import HgVerif.Model.Delta
/-!
Model of the RECOVER read of a sparse `:memory:` recording (C20, recover / as-of stream):

* `sparse_record_impl::eval` (`include/hgraph/lib/std/operators/impl/record_replay_memory_impl.h`):
  every cycle in which the input is modified appends `(evaluation_time, capture_delta(input))`; unlike the
  dense recorder there is NO `delta_is_observable` filter.
* `record_replay::recorded_seed_resolver` (`src/hgraph/types/record_replay.cpp`): a scratch `TSOutput`, the
  entries in buffer order, `if (when > start_time) break;`, `apply_delta(accumulated.view(when), delta)` - one
  output view per entry AT THE ENTRY'S OWN TIME - and the result `view.valid() ? value : nothing`.
* the sparse branch of `replay_impl::eval` (entries before `now` are skipped, the entry at `now` is applied,
  the node re-arms itself for the next entry's time).

Times are cycle offsets from `MIN_ST` in `MIN_TD` steps (`testing::cycle_offset`), as in `Model/Delta.lean`.

`apply` of `Model/Delta.lean` is "apply in a NEW engine cycle": it ignores the stale per-cycle marks of its
input.  That is what a view at the entry's own time gives when entry times strictly increase (which they do
in every recording the record node writes: `sparseEntries_increasing`).

The second half of the file models what happens when several deltas go through ONE output view, i.e. within
one mutation time (`apply1`): an erased dictionary slot is only *pending* (its child state is retained until
the next mutation time) and `mutation.at(key)` revives it with that old child state; a window accepts one
push per evaluation time.  The resolver does not do that; `Props/C20Recover.lean` shows by a concrete
witness that it must not.
-/
namespace HgVerif.Delta

/-- a sparse recording: `(cycle, delta)` entries in buffer (= evaluation) order -/
abbrev Recording (s : Shape) := List (Nat × Dl s)

/-- `sparse_record_impl::eval` at cycle offset `cycle` with its input in state `inp` -/
def sparseRecordEval {s : Shape} (rec : Recording s) (cycle : Nat) (inp : St s) : Recording s :=
  if modified s inp then rec ++ [(cycle, capture s inp)] else rec

/-- the resolver's loop: entries in buffer order, `break` at the first entry later than `c`, every entry
    applied through a view at its own time -/
def recoverFrom (s : Shape) (c : Nat) : St s → Recording s → St s
  | st, [] => st
  | st, e :: es => if c < e.1 then st else recoverFrom s c (apply s st e.2) es

/-- the scratch output of `recorded_seed_resolver(…, start_time = cycle c)` after the loop -/
def recover {s : Shape} (rec : Recording s) (c : Nat) : St s := recoverFrom s c (fresh s) rec

/-- what the resolver returns: `view.valid() ? Value{view.value()} : Value{}`.  A value is a state without
    its per-cycle marks (`clear`). -/
def resolve {s : Shape} (rec : Recording s) (c : Nat) : Option (St s) :=
  let st := recover rec c
  if valid s st then some (clear s st) else none

/-- The graph `replay(in) -> sparse record (+ value probe)` in simulation, as `runGraph` of `Model/Delta.lean`:
    the dense replay source re-arms itself per buffered cycle; the record node and the probe run in the cycles
    in which its output ticked.  The probe keeps `(cycle, value)` when the series is modified and valid. -/
def runSparse {s : Shape} (inp : Buffer s) :
    Nat → Nat → Nat → St s → Recording s → List (Nat × St s) → Recording s × List (Nat × St s)
  | 0, _, _, _, rec, live => (rec, live)
  | fuel + 1, cycle, index, out, rec, live =>
      let r := replayEval inp index out
      let rec' := sparseRecordEval rec cycle r.2.1
      let live' := if modified s r.2.1 && valid s r.2.1 then live ++ [(cycle, clear s r.2.1)] else live
      if r.2.2 then runSparse inp fuel (cycle + 1) r.1 r.2.1 rec' live' else (rec', live')

def recordSparse {s : Shape} (inp : Buffer s) : Recording s × List (Nat × St s) :=
  runSparse inp (inp.length + 1) 0 0 (fresh s) [] []

/-- the value a probe last saw at or before cycle `c` -/
def liveAt {σ : Type} (live : List (Nat × σ)) (c : Nat) : Option σ :=
  live.foldl (fun acc e => if e.1 ≤ c then some e.2 else acc) none

/-- The sparse branch of `replay_impl::eval` over a whole run: the node is evaluated on start and then at the
    times it scheduled itself for; `now` is the earliest time the next evaluation can have.  An entry earlier
    than `now` is skipped (`when < now`), any other entry is applied in an evaluation at its own time.
    Returns the output after each evaluation that applied an entry. -/
def sparseReplay (s : Shape) : Nat → St s → Recording s → List (Nat × St s)
  | _, _, [] => []
  | now, out, e :: es =>
      if e.1 < now then sparseReplay s now out es
      else (e.1, apply s out e.2) :: sparseReplay s (e.1 + 1) (apply s out e.2) es

/-- graph 2: sparse replay of a recording -> sparse record (+ probe) -/
def replaySparse {s : Shape} (rec : Recording s) : Recording s × List (Nat × St s) :=
  let evals := sparseReplay s 0 (fresh s) rec
  (evals.foldl (fun acc e => sparseRecordEval acc e.1 e.2) [],
   evals.filterMap fun e => if modified s e.2 && valid s e.2 then some (e.1, clear s e.2) else none)

/-! ## several deltas through ONE output view (one mutation time) -/

/-- a dictionary slot within one mutation time: an erased slot keeps its child until the next mutation time -/
inductive Slot (σ : Type) where
  | absent
  | live (c : σ)
  | pending (c : σ)
deriving Repr, DecidableEq

/-- value-level states (no delta marks) with in-cycle bookkeeping: pending dictionary slots and
    "this window was pushed in the current cycle" -/
def V1 : Shape → Type
  | .ts _ => Option Nat
  | .signal => Bool
  | .tsw _ _ => List Nat × Bool
  | .tss _ _ => Bool × List Bool
  | .tsd _ _ v => Bool × List (Slot (V1 v))
  | .tsl e _ => List (V1 e)
  | .tsld e => List (V1 e)
  | .tsb fs => V1 fs
  | .bnil => Unit
  | .bcons f r => V1 f × V1 r

def fresh1 : (s : Shape) → V1 s
  | .ts _ => (none : Option Nat)
  | .signal => false
  | .tsw _ _ => (([], false) : List Nat × Bool)
  | .tss _ u => ((false, falses u) : Bool × List Bool)
  | .tsd _ u v => ((false, List.replicate u Slot.absent) : Bool × List (Slot (V1 v)))
  | .tsl e n => List.replicate n (fresh1 e)
  | .tsld _ => []
  | .tsb fs => fresh1 fs
  | .bnil => ()
  | .bcons f r => (fresh1 f, fresh1 r)

/-- forget the marks of a state (dictionary children that exist are live) -/
def toV1 : (s : Shape) → St s → V1 s
  | .ts _, st => st.val
  | .signal, st => st.val
  | .tsw _ _, st => (st.val, false)
  | .tss _ _, st => (st.valid, st.elems)
  | .tsd _ _ v, st => (st.valid, st.slots.map fun o => match o with
      | some c => Slot.live (toV1 v c)
      | none => Slot.absent)
  | .tsl e _, st => st.map (toV1 e)
  | .tsld e, st => st.map (toV1 e)
  | .tsb fs, st => toV1 fs st
  | .bnil, _ => ()
  | .bcons f r, st => (toV1 f st.1, toV1 r st.2)

def valid1 : (s : Shape) → V1 s → Bool
  | .ts _, st => st.isSome
  | .signal, st => st
  | .tsw _ _, st => !st.1.isEmpty
  | .tss _ _, st => st.1
  | .tsd _ _ _, st => st.1
  | .tsl e _, st => st.any (valid1 e)
  | .tsld e, st => st.any (valid1 e)
  | .tsb fs, st => valid1 fs st
  | .bnil, _ => false
  | .bcons f r, st => valid1 f st.1 || valid1 r st.2

/-- `dict_out.contains(key)` for some key named in `removed` -/
def removesPresent1 {σ δ : Type} : List (Slot σ) → List (KeyOp δ) → Bool
  | .live _ :: ss, op :: ops => op.removed || removesPresent1 ss ops
  | _ :: ss, _ :: ops => removesPresent1 ss ops
  | _, _ => false

/-- `delta_has_effect_impl` on a value-level state -/
def hasEffect1 : (s : Shape) → V1 s → Dl s → Bool
  | .ts _, _, _ => true
  | .signal, _, _ => true
  | .tsw _ _, _, _ => true
  | .tss _ _, st, d => d.added.any id || d.removed.any id || !st.1
  | .tsd _ _ _, st, d =>
      if d.any (fun op => op.modified.isSome) then true
      else if d.any (fun op => op.removed) then removesPresent1 st.2 d
      else !st.1
  | .tsl _ _, _, d => d.any Option.isSome
  | .tsld _, _, d => d.any Option.isSome
  | .tsb fs, st, d => hasEffect1 fs st d
  | .bnil, _, _ => false
  | .bcons f r, st, d =>
      (match d.1 with
       | some df => hasEffect1 f st.1 df
       | none => false) || hasEffect1 r st.2 d.2

/-- `apply_delta_tsd` key by key within one mutation time: `erase` makes a live slot pending, `at(key)` takes
    the live child, revives a pending one with its old state, or creates a new one.  `none` = the child threw. -/
def dictApply1 {σ δ : Type} (freshC : σ) (app : σ → δ → Option σ) :
    List (Slot σ) → List (KeyOp δ) → Option (List (Slot σ))
  | [], _ => some []
  | old :: ss, [] => (dictApply1 freshC app ss []).map (old :: ·)
  | old :: ss, op :: ops =>
      let erased : Slot σ := if op.removed then (match old with
        | .live c => .pending c
        | o => o) else old
      let mine : Option (Slot σ) := match op.modified with
        | some dk =>
            let child := match erased with
              | .live c => c
              | .pending c => c
              | .absent => freshC
            (app child dk).map Slot.live
        | none => some erased
      match mine, dictApply1 freshC app ss ops with
      | some m, some rest => some (m :: rest)
      | _, _ => none

def listApply1 {σ δ : Type} (app : σ → δ → Option σ) : List σ → List (Option δ) → Option (List σ)
  | [], _ => some []
  | c :: cs, [] => (listApply1 app cs []).map (c :: ·)
  | c :: cs, od :: ods =>
      let mine := match od with
        | some dc => app c dc
        | none => some c
      match mine, listApply1 app cs ods with
      | some m, some rest => some (m :: rest)
      | _, _ => none

/-- children a dynamic list creates past its end (`growApply` of `Model/Delta.lean`, with a child that may throw) -/
def growApply1 {σ δ : Type} (freshC : σ) (app : σ → δ → Option σ) : List (Option δ) → Option (List σ)
  | [] => some []
  | od :: ods =>
      if (od :: ods).any Option.isSome then
        let mine := match od with
          | some dc => app freshC dc
          | none => some freshC
        match mine, growApply1 freshC app ods with
        | some m, some rest => some (m :: rest)
        | _, _ => none
      else some []

def dynApply1 {σ δ : Type} (freshC : σ) (app : σ → δ → Option σ) : List σ → List (Option δ) → Option (List σ)
  | [], ods => growApply1 freshC app ods
  | c :: cs, [] => (dynApply1 freshC app cs []).map (c :: ·)
  | c :: cs, od :: ods =>
      let mine := match od with
        | some dc => app c dc
        | none => some c
      match mine, dynApply1 freshC app cs ods with
      | some m, some rest => some (m :: rest)
      | _, _ => none

def setElems : List Bool → List Bool → List Bool → List Bool
  | [], _, _ => []
  | e :: es, as, rs => ((e && !rs.headD false) || as.headD false) :: setElems es as.tail rs.tail

/-- `apply_delta` through a view whose mutation time the output may already have been mutated at.
    `none` = it throws (`TSWDataMutationView::push allows only one window tick per evaluation time`). -/
def apply1 : (s : Shape) → V1 s → Dl s → Option (V1 s)
  | .ts _, _, d => some (some d)
  | .signal, _, _ => some true
  | .tsw _ p, st, d => if st.2 then none else some (pushWin p st.1 d, true)
  | .tss b u, st, d =>
      if hasEffect1 (.tss b u) st d then some (true, setElems st.2 d.added d.removed) else some st
  | .tsd b u v, st, d =>
      if hasEffect1 (.tsd b u v) st d then (dictApply1 (fresh1 v) (apply1 v) st.2 d).map fun sl => (true, sl)
      else some st
  | .tsl e _, st, d => listApply1 (apply1 e) st d
  | .tsld e, st, d => dynApply1 (fresh1 e) (apply1 e) st d
  | .tsb fs, st, d => apply1 fs st d
  | .bnil, _, _ => some ()
  | .bcons f r, st, d =>
      let a := match d.1 with
        | some df => apply1 f st.1 df
        | none => some st.1
      match a, apply1 r st.2 d.2 with
      | some x, some y => some (x, y)
      | _, _ => none

/-- every entry with time `≤ c` folded through ONE output view (`none` = an apply threw) -/
def foldOneView (s : Shape) (c : Nat) : Option (V1 s) → Recording s → Option (V1 s)
  | acc, [] => acc
  | acc, e :: es =>
      if c < e.1 then acc
      else foldOneView s c (match acc with
        | some st => apply1 s st e.2
        | none => none) es

def recoverOneView {s : Shape} (rec : Recording s) (c : Nat) : Option (V1 s) :=
  foldOneView s c (some (fresh1 s)) rec

end HgVerif.Delta
