import HgVerif.Model.DynLifecycle
import HgVerif.Model.Reduce
/-
Lifecycle of the combiner graphs of `reduce_` WITH the pointer table of the node modelled explicitly
(property C14, dynamic children; `src/hgraph/runtime/reduce_node.cpp` `rebuild_structure`, `reduce_evaluate`,
`reduce_node_stop`, `~ReduceNodeStorage`).  `Model/DynLifecycle.lean` (`redRebuild`) takes the created / retired
slots of a rebuild as an input and keeps a set-aside combiner in its slot; here the rebuild is modelled AS CODED:

* two stores that the code keeps apart:
  - the two combiner BANKS (`InPlaceGraphSlotStore<CombinerEntry>`): the constructed entries and their graphs.  Bank `b`,
    heap position `p` is slot `2 * p + b` of the `MapSt` below (`rzSlot`); `Entry.started` = the graph is started.
    `destroy_at` of a bank slot (`GraphValue::reset`) stops a graph that is still started, swallowing.
  - the POINTER TABLE `storage.combiners` (`comb p` = `combiners[p] != nullptr`, `size` = `combiners.size()`): it always
    points into the current bank.  `reduce_node_stop`, the evaluation loop and `destroy_combiners` see a combiner only
    through this table.
* `rebuild_structure`:
  - capacity = `max(leaf_capacity, has_zero ? 2 : 0, bit_ceil(live))`; a capacity change swaps the bank
    (`logic_error` when the inactive bank still has entries), the old table becomes `retired_shape`;
  - `structural_positions` (every position, descending, for a full rebuild; the ancestors of the structural leaves otherwise);
  - the `UnwindCleanupGuard` is armed;
  - phase 1 (`rzPhase1`), deepest first: `needed = (position == 0 && has_zero && live == 1) || (left != Empty && right != Empty)`
    (`Reduce.neededAt`, the closed form of `resolve_aggregate`); needed and null: `construct_at` (`require_available_slot`
    throws when the bank slot is still constructed), `created.push_back`; not needed and non-null: `retired.emplace_back(
    position, std::exchange(entry, nullptr))` — the combiner is SET ASIDE: out of the table, still started;
  - phase 2: input binding (may throw: `RzIn.bindThrows`), then `child.start` for `created` in reverse creation order
    (`rzStartList`; a combiner instance is named by the ordinal of its start attempt);
  - root publication (may throw: `RzIn.publishThrows`), `published = true`;
  - phase 3: `stop_combiner_noexcept` (swallowing) for `retired` in reverse order, then for `retired_shape` in ascending
    position; both go to `previous_generation` (the entries stay constructed until the next evaluation);
  - the guard (`rzGuard`) on unwind: capacity change -> `reset_combiner_noexcept` (stop, swallowing, + destroy) every created
    combiner, table / capacity / bank restored; same capacity -> reset every created combiner and null its pointer, then put
    every set-aside combiner BACK into the table (`if (combiners[p] == nullptr) combiners[p] = retired pointer`).
    `RzCfg.guardEarly` is NOT the code: it is the guard of seed s108 (`if (!created.empty()) return;` after the first
    loop), kept for the counter-lemma.
* `reduce_evaluate`: `destroy_previous_generation_before(now)` (every evaluation has a later time than the rebuild that
  filled the list), `reduce_reconcile` (`rebuild_structure` iff structural or not yet published),
  `prepare_reduce_evaluation_positions` without the full scan (the structural positions of a rebuild, the ancestors of the
  modified leaves, position 0 for a zero tick on a singleton — each only where the table is non-null — descending), the
  evaluation loop (a null pointer is skipped; a candidate is taken to be due, see TRUSTED of the plug-in).
* `reduce_node_stop` (`rzNodeStop`): every non-null pointer of the table gets its stop attempt, the first error is
  recorded and rethrown.
* `~ReduceNodeStorage` (`rzRelease`): `destroy_previous_generation`, `destroy_combiners` (through the table), then the
  destructors of the two banks (`destroy_all`: a combiner that is in no table and no list is stopped HERE, i.e. only when the
  executor is released).

WHICH leaves a cycle adds / removes / modifies is an input (`RzIn`: live count, structural leaves, modified leaves, full or
not, zero tick); the theorems quantify over all of them; the driver derives them from a key history with the C05 slot
store and the C11 leaf bookkeeping.  Not modelled: lifted combiners (no child graphs are started there), the full-scan
evaluation (`has_future_combiner_schedule`: the probe combiners never schedule themselves), source re-pointing.
Core Lean only.
-/
namespace HgVerif.DynLife
open HgVerif.Lifecycle HgVerif.Reduce

structure RzCfg where
  base : Cfg
  hasZero : Bool := true
  /-- NOT the code: the unwind guard returns after discarding the created combiners when there are any (seed s108) -/
  guardEarly : Bool := false

/-- bank `b`, heap position `p` -/
def rzSlot (b p : Nat) : Nat := 2 * p + b

def setComb (f : Nat → Bool) (p : Nat) (v : Bool) : Nat → Bool := fun q => if q = p then v else f q

/-- positions with a non-null pointer, ascending (`for (const auto *entry : storage.combiners)`) -/
def rzLive (size : Nat) (comb : Nat → Bool) : List Nat := (List.range size).filter comb

structure RzSt (υ : Type) where
  m : MapSt υ                          -- the two banks
  comb : Nat → Bool := fun _ => false  -- `storage.combiners[p] != nullptr`
  size : Nat := 0                      -- `storage.combiners.size()`
  cap : Nat := 0                       -- `leaf_capacity`
  bank : Nat := 0                      -- `current_bank`
  prev : List Nat := []                -- `previous_generation` (bank slots)
  spos : List Nat := []                -- `structural_positions`
  published : Bool := false
  next : Nat := 0                      -- combiner graphs whose start was attempted so far

/-- what one engine cycle looks like to the reduce node -/
structure RzIn where
  active : Bool := true           -- the node is evaluated in this cycle
  structural : Bool := false      -- the leaf reconciliation reported a structural change
  live : Nat := 0                 -- `dense_to_key.size()` after the reconciliation
  full : Bool := false            -- `full_structure`
  structLeaves : List Nat := []   -- `structural_leaves`
  modLeaves : List Nat := []      -- `modified_leaves` (dense leaves whose element ticked)
  zeroEvent : Bool := false       -- the zero input ticked
  bindThrows : Bool := false      -- `bind_combiner_inputs` throws in phase 2
  publishThrows : Bool := false   -- the root publication throws

/-- a constructed entry whose graph was never started (no instance name yet) -/
def rzBlank : Entry := ⟨0, 0, false⟩

/-- `new_bank.has_entries()` -/
def rzBankOccupied {υ : Type} (m : MapSt υ) (b : Nat) : Bool :=
  (List.range m.cap).any fun s => s % 2 == b && (m.ent s).isSome

structure RzP1 (υ : Type) where
  m : MapSt υ
  comb : Nat → Bool
  created : List Nat := []     -- creation order (deepest first)
  retired : List Nat := []     -- set aside, in the order of the scan

/-- phase 1 of `rebuild_structure` over `structural_positions` -/
def rzPhase1 {υ : Type} (hasZero : Bool) (bank cap live size : Nat) : List Nat → RzP1 υ → RzP1 υ × Option String
  | [], s => (s, none)
  | p :: rest, s =>
    if p < size then
      let needed := neededAt hasZero cap live p
      if needed && !s.comb p then
        -- `bank.construct_at(position)`: `require_available_slot`
        if (s.m.ent (rzSlot bank p)).isSome then (s, some "logic:slot-occupied")
        else
          rzPhase1 hasZero bank cap live size rest
            { s with m := { s.m with cap := max s.m.cap (rzSlot bank p + 1), ent := setEnt s.m.ent (rzSlot bank p) (some rzBlank) }
                     comb := setComb s.comb p true, created := s.created ++ [p] }
      else if !needed && s.comb p then
        rzPhase1 hasZero bank cap live size rest { s with comb := setComb s.comb p false, retired := s.retired ++ [p] }
      else rzPhase1 hasZero bank cap live size rest s
    else rzPhase1 hasZero bank cap live size rest s

/-- `child.start(evaluation_time)` of the combiner in bank slot `s` (`GraphView::start` returns at once on a started graph);
    the instance is named by the ordinal of the attempt.  State: the banks and the ordinal counter. -/
def rzStart {υ : Type} (cfg : Cfg) (h : Hooks υ) (s : Nat) (a : MapSt υ × Nat) : (MapSt υ × Nat) × Option String :=
  match a.1.ent s with
  | none => (a, none)                    -- (`created` only holds positions constructed in phase 1)
  | some e =>
    if e.started then (a, none) else
    let m := { a.1 with cap := max a.1.cap (s + 1) }
    let key := Int.ofNat (a.2 + 1)
    let g := m.gens key + 1
    let r := childStart h cfg.n ⟨key, g⟩ m.w
    match r.2 with
    | none => (({ m with ent := setEnt m.ent s (some ⟨key, g, true⟩), gens := setGen m.gens key g, w := r.1 }, a.2 + 1), none)
    | some x => (({ m with gens := setGen m.gens key g, w := r.1 }, a.2 + 1), some x)

/-- phase 2: the created combiners are started one after the other; the first throw ends it -/
def rzStartList {υ : Type} (cfg : Cfg) (h : Hooks υ) (bank : Nat) : List Nat → MapSt υ × Nat → (MapSt υ × Nat) × Option String
  | [], a => (a, none)
  | p :: rest, a =>
    let r := rzStart cfg h (rzSlot bank p) a
    match r.2 with
    | none => rzStartList cfg h bank rest r.1
    | some x => (r.1, some x)

/-- `stop_combiner_noexcept` for a list of bank slots -/
def rzStopFold {υ : Type} (cfg : Cfg) (h : Hooks υ) (l : List Nat) (m : MapSt υ) : MapSt υ :=
  l.foldl (fun m s => (removeEntry cfg h s m).1) m

/-- `reset_combiner_noexcept` for a list of bank slots -/
def rzResetFold {υ : Type} (cfg : Cfg) (h : Hooks υ) (l : List Nat) (m : MapSt υ) : MapSt υ :=
  l.foldl (destroySlot cfg h) m

/-- the pointer table after the unwind guard of a same-capacity rebuild -/
def rzGuardComb (guardEarly : Bool) (comb : Nat → Bool) (created retired : List Nat) : Nat → Bool :=
  let c1 := created.foldl (fun c p => setComb c p false) comb
  if guardEarly && !created.isEmpty then c1
  else retired.foldl (fun c p => if c p == false then setComb c p true else c) c1

/-- the `UnwindCleanupGuard` of `rebuild_structure`; `st` = the state the rebuild began with, `m` / `next` = the banks and the
    ordinal counter when the exception left, `nb` = the bank the rebuild works in -/
def rzGuard {υ : Type} (c : RzCfg) (h : Hooks υ) (st : RzSt υ) (bankChanged : Bool) (nb : Nat) (positions : List Nat)
    (p1 : RzP1 υ) (m : MapSt υ) (next : Nat) : RzSt υ :=
  let m1 := rzResetFold c.base h (p1.created.map (rzSlot nb)) m
  if bankChanged then { st with m := m1, next := next, spos := positions }
  else { st with m := m1, next := next, spos := positions, comb := rzGuardComb c.guardEarly p1.comb p1.created p1.retired }

/-- `rebuild_structure` once the capacity is decided: `bankChanged` (the tree is built in bank `nb`, in an empty table of
    `size1` pointers), or a same-capacity rebuild in the current table (`nb = st.bank`, `size1 = st.size`, `comb1 = st.comb`) -/
def rzRebuildIn {υ : Type} (c : RzCfg) (h : Hooks υ) (I : RzIn) (st : RzSt υ) (bankChanged : Bool) (nb capacity size1 : Nat)
    (comb1 : Nat → Bool) (positions : List Nat) : RzSt υ × Option String :=
  -- the guard is armed; phase 1
  let p1 := rzPhase1 c.hasZero nb capacity I.live size1 positions { m := st.m, comb := comb1 }
  match p1.2 with
  | some x => (rzGuard c h st bankChanged nb positions p1.1 p1.1.m st.next, some x)
  | none =>
    -- phase 2
    if I.bindThrows then (rzGuard c h st bankChanged nb positions p1.1 p1.1.m st.next, some "bind") else
    let s2 := rzStartList c.base h nb p1.1.created.reverse (p1.1.m, st.next)
    match s2.2 with
    | some x => (rzGuard c h st bankChanged nb positions p1.1 s2.1.1 s2.1.2, some x)
    | none =>
      if I.publishThrows then (rzGuard c h st bankChanged nb positions p1.1 s2.1.1 s2.1.2, some "publish") else
      -- phase 3
      let retiredSlots := p1.1.retired.reverse.map (rzSlot nb)
      let shapeSlots := if bankChanged then (rzLive st.size st.comb).map (rzSlot st.bank) else []
      let m3 := rzStopFold c.base h shapeSlots (rzStopFold c.base h retiredSlots s2.1.1)
      ({ m := m3, comb := p1.1.comb, size := size1, cap := capacity, bank := nb,
         prev := st.prev ++ retiredSlots ++ shapeSlots, spos := positions, published := true, next := s2.1.2 }, none)

/-- `leaf_capacity` after the rebuild -/
def rzCapacity (hasZero : Bool) (cap live : Nat) : Nat :=
  max (max cap (if hasZero then 2 else 0)) (if live > 0 then bitCeil live else 0)

/-- `rebuild_structure` -/
def rzRebuild {υ : Type} (c : RzCfg) (h : Hooks υ) (I : RzIn) (st : RzSt υ) : RzSt υ × Option String :=
  let capacity := rzCapacity c.hasZero st.cap I.live
  if capacity != st.cap then
    -- capacity growth: the replacement is built in the inactive bank
    if rzBankOccupied st.m (1 - st.bank) then (st, some "logic:bank-occupied") else
    let size1 := if capacity > 1 then capacity - 1 else 0
    rzRebuildIn c h I st true (1 - st.bank) capacity size1 (fun _ => false) (allPositionsDesc size1)
  else
    rzRebuildIn c h I st false st.bank capacity st.size st.comb
      (if I.full then allPositionsDesc st.size else structuralPositions capacity st.size I.structLeaves)

/-- `prepare_reduce_evaluation_positions` (no full scan) -/
def rzCandidates {υ : Type} (st : RzSt υ) (rebuilt : Bool) (I : RzIn) : List Nat :=
  let a := if rebuilt then st.spos.filter (fun p => decide (p < st.size) && st.comb p) else []
  let b := I.modLeaves.foldl (fun acc leaf => acc ++ (pathFrom st.size (internalCount st.cap + leaf)).filter st.comb) []
  let z := if I.zeroEvent && I.live == 1 && st.size != 0 && st.comb 0 then [0] else []
  (a ++ b ++ z).foldl (fun acc p => insertDesc p acc) []

/-- `reduce_evaluate` -/
def rzCycle {υ : Type} (c : RzCfg) (h : Hooks υ) (I : RzIn) (st : RzSt υ) : RzSt υ × Option String :=
  if !I.active then (st, none) else
  -- `destroy_previous_generation_before(evaluation_time)`
  let st0 := { st with m := rzResetFold c.base h st.prev st.m, prev := [] }
  let rebuilt := I.structural || !st0.published
  let r := if rebuilt then rzRebuild c h I st0 else (st0, none)
  match r.2 with
  | some x => (r.1, some x)
  | none =>
    let q := evalSlots c.base h ((rzCandidates r.1 rebuilt I).map (rzSlot r.1.bank)) r.1.m
    ({ r.1 with m := q.1 }, q.2)

/-- `reduce_node_stop`: every non-null pointer of the table, first error recorded -/
def rzStopFrom {υ : Type} (cfg : Cfg) (h : Hooks υ) : List Nat → MapSt υ → Option String → MapSt υ × Option String
  | [], m, e => (m, e)
  | s :: rest, m, e =>
    let r := removeEntry cfg h s m
    rzStopFrom cfg h rest r.1 (match e with | some y => some y | none => r.2)

def rzNodeStop {υ : Type} (c : RzCfg) (h : Hooks υ) (st : RzSt υ) : RzSt υ × Option String :=
  let r := rzStopFrom c.base h ((rzLive st.size st.comb).map (rzSlot st.bank)) st.m none
  ({ st with m := r.1 }, r.2)

def rzRunCycles {υ : Type} (c : RzCfg) (h : Hooks υ) : List RzIn → Nat → RzSt υ → RzSt υ × Option String
  | [], _, st => (st, none)
  | I :: rest, k, st =>
    let r := rzCycle c h I { st with m := { st.m with w := emit (.cyc k) st.m.w } }
    match r.2 with
    | none => rzRunCycles c h rest (k + 1) r.1
    | some x => (r.1, some x)

/-- the executor is released: a root graph that is still started is stopped (swallowing); `~ReduceNodeStorage` -/
def rzRelease {υ : Type} (c : RzCfg) (h : Hooks υ) (rootStopped : Bool) (st : RzSt υ) : MapSt υ :=
  let st1 := if rootStopped then st else (rzNodeStop c h st).1
  let m1 := rzResetFold c.base h st1.prev st1.m                                              -- `destroy_previous_generation`
  let m2 := rzResetFold c.base h ((rzLive st1.size st1.comb).map (rzSlot st1.bank)) m1      -- `destroy_combiners`
  destroyAll c.base h m2                                                                     -- `~InPlaceGraphSlotStore` x 2

structure RzRunRes (υ : Type) where
  ret : RzSt υ                -- when `run()` returns to the caller
  fin : MapSt υ               -- after the executor was released
  err : Option String

/-- the run of a graph whose dynamic parent is this reduce node (`run_storage` + release, as `DynLife.run`) -/
def rzRun {υ : Type} (c : RzCfg) (h : Hooks υ) (cycles : List RzIn) (u0 : υ) : RzRunRes υ :=
  let r := rzRunCycles c h cycles 0 { m := { w := { u := u0 } } }
  let mark := fun (st : RzSt υ) (e : Ev) => { st with m := { st.m with w := emit e st.m.w } }
  match r.2 with
  | none =>
    let s := rzNodeStop c h (mark r.1 .stopping)
    let ret := mark s.1 .returned
    { ret := ret, fin := rzRelease c h true ret, err := s.2 }
  | some x =>
    if c.base.cleanup then
      let s := rzNodeStop c h (mark r.1 .stopping)
      let ret := mark s.1 .returned
      { ret := ret, fin := rzRelease c h true ret, err := some x }
    else
      let ret := mark r.1 .returned
      { ret := ret, fin := rzRelease c h false ret, err := some x }

end HgVerif.DynLife
