/-
Model of the keyed map node, `src/hgraph/runtime/map_node.cpp` (+ the push half of
`graph.cpp nested_schedule_node_impl` and `schedule_node_impl` restricted to the map node's own slot
in its parent graph).  Read from /repo; same cases, same comparison operators, same order of side
effects.

What is modelled

* `MapNodeStorage::entries` — slot-indexed `MapKeyEntry`s mirroring the slot ids of the `__keys__`
  set: `on_erase(slot)` destroys (`upstream`), `remove_entry_at_slot` stops the child, resets
  `pulled_when` and erases the owned output / error element but LEAVES the entry constructed,
  `create_entry_at_slot` constructs (or re-uses a constructed, stopped entry: `existing != nullptr`),
  binds, starts, installs the schedule observer and schedules the sampled input consumers.
* the child graph of an entry is an ARBITRARY behaviour `Beh`: a state, one evaluation
  `step : key → now → input → state → (state, output tick?, next_scheduled_time, exception?)`.
  `Entry.next` is the child graph's cached `next_scheduled_time()`; the model (as the code: the scan
  of `evaluate_impl` folds `scheduled > evaluation_time` only, `start_impl` folds `>=`) clamps what
  the behaviour reports to `MAX_DT` when it is not in the future.
* `child_schedule_queue` — the lazy min-heap of `MapChildSchedule{when, slot, pulled}` ordered by
  `operator>` (when, slot, pulled).  A sorted list with the same strict order stands for the binary
  heap: `front()` is the head, `pop_heap` the tail (elements that compare equal are identical
  records, so the pop sequence of the two containers is the same).
  `push_observed_child_schedule` (never coalesced), `push_pulled_child_schedule` (coalesced through
  `pulled_when`), the two drain loops with their different treatment of stale entries.
* `map_reconcile_keys` for a key-set source that does not re-point: not valid → remove all, unprime;
  not primed → rebuild (remove all, create for every live slot); modified → removed chain then added
  chain.  Source re-pointing (`update_source_handles`, the two entry banks, `reconcile_compatible…`)
  is NOT modelled (assumption of the property check: no REF / switch_ upstream of the map).
* `prepare_map_evaluation_slots`: added slots, modified source slots and membership-changed keys
  (`modSlots`), due heap entries, conservative full scan (`refresh`, not primed, a broadcast
  argument ticked, no outer input event); candidates are materialised in slot order.
* the evaluation loop: skips missing / stopped entries, evaluates a child iff
  `child.next_scheduled_time() <= evaluation_time`, per-child error capture (`captures`), pull of
  the child's future deadline, invalidation of `pulled_when` otherwise; the child's own
  `propagate_nested_parent_schedule` after a completed evaluation.
* the end of `map_evaluate_impl`: second drain, re-arm of the map node from the heap minimum through
  the parent graph's `schedule_node` (`scheduled <= current || when < scheduled`).
* out-of-band notifications (`nested_schedule_node_impl` on an idle, started child: cache update,
  observer → heap, parent `schedule_node`): before the node runs (`CycleIn.notified`, the ticks of
  the bound elements / broadcast arguments) and inside the loop (`CycleIn.late`, the re-binding of a
  membership-changed key that samples a valid source).
  Pause / resume (`resume_position_plus_one`, mesh children) is not modelled: children complete.

Times are microsecond counts, `MIN_DT = 0`; `MAX_DT` is an opaque large constant (the theorems
assume evaluation times below it).  Entries are a function `slot → Option Entry` plus the
capacity.  Core Lean only (no Mathlib) so the driver can run it.
-/
namespace HgVerif.MapNode

/-- times are microsecond counts; a notation (not a definition) so that `omega` sees `Nat` -/
local notation "Time" => Nat

def MAX_DT : Nat := 9223372036854775807

/-! ## the child-schedule heap -/

/-- `MapChildSchedule` -/
structure HE where
  when : Time
  slot : Nat
  pulled : Bool
deriving DecidableEq, Repr

/-- `MapChildSchedule::operator>` -/
def HE.gt (a b : HE) : Bool :=
  if a.when != b.when then decide (a.when > b.when)
  else if a.slot != b.slot then decide (a.slot > b.slot)
  else (a.pulled && !b.pulled)

/-- `push_child_schedule` (`push_back` + `push_heap(greater)`): sorted insertion -/
def heapPush : List HE → HE → List HE
  | [], e => [e]
  | x :: xs, e => if x.gt e then e :: x :: xs else x :: heapPush xs e

/-! ## behaviours, entries, state -/

/-- result of one child-graph evaluation -/
structure StepRes (σ ο ε : Type) where
  st : σ
  out : Option ο := none      -- the terminal wrote this value into the owned output element
  next : Time := MAX_DT       -- `child.next_scheduled_time()` as the evaluation left it
  err : Option ε := none      -- an exception escaped `child.evaluate`

/-- The mapped function, per key: an arbitrary Mealy machine with its own next-wake time. -/
structure Beh (κ σ ι ο ε : Type) where
  /-- `make_nested_graph` + bind + `start` at the given time, reading the key's current inputs -/
  init : κ → Time → ι → σ
  /-- `next_scheduled_time()` after start and `schedule_sampled_input_consumers` -/
  startNext : κ → Time → ι → Time
  /-- `start` of an entry whose stopped graph was never destroyed (no `on_erase` in between) -/
  restart : κ → Time → ι → σ → σ
  /-- one `child.evaluate(now)` -/
  step : κ → Time → ι → σ → StepRes σ ο ε

/-- `MapKeyEntry` (+ the owned output / error elements of its key) -/
structure Entry (κ σ ο ε : Type) where
  key : κ
  started : Bool
  st : σ
  next : Time                  -- child graph `next_scheduled_time()`
  pulledWhen : Time := MAX_DT  -- `schedule_context.pulled_when`
  outv : Option ο := none      -- owned TSD element (`none`: not valid)
  errv : Option ε := none      -- element of the error TSD

structure M (κ σ ο ε : Type) where
  ent : Nat → Option (Entry κ σ ο ε) := fun _ => none   -- `entries.entry_at(slot)`
  cap : Nat := 0                                        -- `entries.slot_capacity()`
  heap : List HE := []                                  -- `child_schedule_queue`
  primed : Bool := false
  ps : Time := 0                                        -- the map node's slot in the parent schedule

def setEnt {α : Type} (f : Nat → Option α) (s : Nat) (v : Option α) : Nat → Option α :=
  fun i => if i = s then v else f i

/-- parent graph `schedule_node_impl` for the map node's slot (`cur` = the parent's evaluation time) -/
def schedNode (ps cur w : Time) : Time := if ps ≤ cur ∨ w < ps then w else ps

/-- `scheduled > evaluation_time` fold of the child's `evaluate_impl` -/
def clampFuture (now n : Time) : Time := if now < n then n else MAX_DT
/-- `scheduled >= evaluation_time` fold of the child's `start_impl` -/
def clampStart (now n : Time) : Time := if now ≤ n then n else MAX_DT

/-! ## one engine cycle: inputs -/

structure CycleIn (κ ι : Type) where
  now : Time
  /-- `on_erase` callbacks of the key-set source since the previous cycle -/
  erased : List Nat := []
  /-- `on_capacity` / `slot_capacity()` of the key set -/
  cap : Nat := 0
  keysValid : Bool := true
  keysModified : Bool := false
  /-- live slots of the key set (only the rebuild path reads them) -/
  live : List (Nat × κ) := []
  removed : List Nat := []
  added : List (Nat × κ) := []
  /-- an `OuterInput` (broadcast) argument ticked -/
  bcastModified : Bool := false
  /-- a multiplexed dictionary ticked -/
  muxModified : Bool := false
  /-- key-set slots of the modified source elements and of the membership-changed keys -/
  modSlots : List Nat := []
  /-- children scheduled at `now` by an input notification before the map node runs -/
  notified : List Nat := []
  /-- children scheduled at `now` by the re-binding inside the evaluation loop -/
  late : List Nat := []
  /-- `refresh_all_bindings` (kept for the shape of `full_scan`; always false without re-pointing) -/
  refresh : Bool := false
  input : κ → ι

structure CycleOut (κ ο ε : Type) where
  evaluated : Bool := false
  stopped : List κ := []
  startedK : List κ := []
  runs : List κ := []
  removedOut : List κ := []        -- erased output elements that were valid
  modified : List (κ × ο) := []
  removedErr : List κ := []
  errs : List (κ × ε) := []
  touched : Bool := false          -- the output TSD was modified (possibly with an empty delta)
  ok : Bool := true                -- false: an exception escaped the map node

variable {κ σ ι ο ε : Type}

/-! ## out-of-band notification (push half) -/

/-- the cache update of `nested_schedule_node_impl`: `if (when < next) next = when` -/
def notifyE (now : Time) (e : Entry κ σ ο ε) : Entry κ σ ο ε :=
  { e with next := if now < e.next then now else e.next }

/-- `nested_schedule_node_impl` on the child of slot `s`, `when = now` (the parent's evaluation
    time): ignored unless the child is started (it is idle: the map node is not driving it);
    cache update; observer → heap; parent `schedule_node`. -/
def notify (now : Time) (m : M κ σ ο ε) (s : Nat) : M κ σ ο ε :=
  match m.ent s with
  | none => m
  | some e =>
    if !e.started then m else
    { m with ent := setEnt m.ent s (some (notifyE now e))
             heap := heapPush m.heap ⟨now, s, false⟩
             ps := schedNode m.ps now now }

/-- what happens before the map node's own evaluation in a cycle: the key-set source erases its
    pending slots (`on_erase` → `entries.destroy_at`), grows (`on_capacity`), the ticking inputs
    notify the bound children and the map node itself. -/
def upstream (m : M κ σ ο ε) (I : CycleIn κ ι) : M κ σ ο ε :=
  let m1 : M κ σ ο ε := { m with ent := I.erased.foldl (fun f s => setEnt f s none) m.ent
                                 cap := max m.cap I.cap }
  let m2 := I.notified.foldl (notify I.now) m1
  if I.keysModified || I.bcastModified || I.muxModified then { m2 with ps := schedNode m2.ps I.now I.now } else m2

/-! ## reconcile -/

structure Rec (κ σ ο ε : Type) where
  m : M κ σ ο ε
  out : CycleOut κ ο ε

/-- `remove_entry_at_slot`, the entry part: stop, `pulled_when = MAX_DT`, erase the owned elements -/
def stopE (e : Entry κ σ ο ε) : Entry κ σ ο ε :=
  { e with started := false, pulledWhen := MAX_DT, outv := none, errv := none }

/-- `remove_entry_at_slot` -/
def removeEntry (r : Rec κ σ ο ε) (s : Nat) : Rec κ σ ο ε :=
  match r.m.ent s with
  | none => r
  | some e =>
    { m := { r.m with ent := setEnt r.m.ent s (some (stopE e)) }
      out := { r.out with stopped := if e.started then r.out.stopped ++ [e.key] else r.out.stopped
                          removedOut := if e.outv.isSome then r.out.removedOut ++ [e.key] else r.out.removedOut
                          removedErr := if e.errv.isSome then r.out.removedErr ++ [e.key] else r.out.removedErr
                          touched := true } }

/-- `remove_all_entries` -/
def removeAll (r : Rec κ σ ο ε) : Rec κ σ ο ε := (List.range r.m.cap).foldl removeEntry r

/-- a freshly started entry (`schedule_context = {storage, slot}`: `pulled_when = MAX_DT`) -/
def freshE (B : Beh κ σ ι ο ε) (I : CycleIn κ ι) (key : κ) (st : σ) : Entry κ σ ο ε :=
  { key := key, started := true, st := st, next := clampStart I.now (B.startNext key I.now (I.input key)) }

/-- the entry `create_entry_at_slot` leaves in slot `s`, given what is there -/
def createE (B : Beh κ σ ι ο ε) (I : CycleIn κ ι) (k : κ) : Option (Entry κ σ ο ε) → Entry κ σ ο ε
  | some e => if e.started then e else freshE B I e.key (B.restart e.key I.now (I.input e.key) e.st)
  | none => freshE B I k (B.init k I.now (I.input k))

/-- `create_entry_at_slot` -/
def createEntry (B : Beh κ σ ι ο ε) (I : CycleIn κ ι) (r : Rec κ σ ο ε) (sk : Nat × κ) : Rec κ σ ο ε :=
  let s := sk.1
  let m0 : M κ σ ο ε := { r.m with cap := max r.m.cap (s + 1) }
  let started := match r.m.ent s with | some e => e.started | none => false
  if started then { r with m := m0 } else
  let e := createE B I sk.2 (r.m.ent s)
  let m1 : M κ σ ο ε := { m0 with ent := setEnt m0.ent s (some e) }
  -- a consumer scheduled for the current time on the idle, started child: push half
  let m2 := if e.next = I.now then
      { m1 with heap := heapPush m1.heap ⟨I.now, s, false⟩, ps := schedNode m1.ps I.now I.now } else m1
  { m := m2, out := { r.out with startedK := r.out.startedK ++ [e.key], touched := true } }

/-- `map_reconcile_keys` (no source re-point) -/
def reconcile (B : Beh κ σ ι ο ε) (I : CycleIn κ ι) (r : Rec κ σ ο ε) : Rec κ σ ο ε :=
  if !I.keysValid then
    let r1 := removeAll r
    { r1 with m := { r1.m with primed := false } }
  else
    let r0 : Rec κ σ ο ε := { r with m := { r.m with cap := max r.m.cap I.cap } }
    if !r0.m.primed then
      let r1 := removeAll r0
      let r2 := I.live.foldl (createEntry B I) r1
      -- `publish_initial_empty`: an empty key set still publishes the (empty) dictionary
      { m := { r2.m with primed := true }, out := { r2.out with touched := r2.out.touched || I.live.isEmpty } }
    else if I.keysModified then
      let r1 := I.removed.foldl removeEntry r0
      I.added.foldl (createEntry B I) r1
    else r0

/-! ## candidates -/

/-- `add_map_evaluation_slot` -/
def addCand (ent : Nat → Option (Entry κ σ ο ε)) (cand : List Nat) (s : Nat) : List Nat :=
  if (ent s).isSome then s :: cand else cand

structure Drain (κ σ ο ε : Type) where
  heap : List HE
  ent : Nat → Option (Entry κ σ ο ε)
  cand : List Nat

/-- the first drain loop (`prepare_map_evaluation_slots`): pops while `front().when <= now` -/
def drainDue (now : Time) : List HE → (Nat → Option (Entry κ σ ο ε)) → List Nat → Drain κ σ ο ε
  | [], ent, cand => ⟨[], ent, cand⟩
  | x :: xs, ent, cand =>
    if x.when ≤ now then
      match ent x.slot with
      | none => drainDue now xs ent cand
      | some e =>
        if x.pulled then
          if e.pulledWhen ≠ x.when then drainDue now xs ent cand
          else drainDue now xs (setEnt ent x.slot (some { e with pulledWhen := MAX_DT })) (x.slot :: cand)
        else drainDue now xs ent (x.slot :: cand)
    else ⟨x :: xs, ent, cand⟩

/-- candidates named by the outer inputs: added key-set slots, then the key-set slots of the modified
    source elements and of the membership-changed keys (only when the key set is valid) -/
def preCands (m : M κ σ ο ε) (I : CycleIn κ ι) : List Nat :=
  let c1 := if I.keysValid && I.keysModified then (I.added.map (·.1)).foldl (addCand m.ent) [] else []
  if I.keysValid then I.modSlots.foldl (addCand m.ent) c1 else c1

/-- `full_scan`: refresh, not primed before this evaluation, a broadcast argument ticked, or no outer
    input event at all (`input_event` = keys modified, broadcast modified, or a multiplexed dictionary modified) -/
def fullScan (I : CycleIn κ ι) (wasPrimed : Bool) : Bool :=
  (I.refresh || !wasPrimed || I.bcastModified) ||
    !((I.keysModified || I.bcastModified) || (I.keysValid && I.muxModified))

/-- `prepare_map_evaluation_slots`; result: state after the drain and the materialised slot list -/
def prepare (m : M κ σ ο ε) (I : CycleIn κ ι) (wasPrimed : Bool) : M κ σ ο ε × List Nat :=
  let d := drainDue I.now m.heap m.ent (preCands m I)
  let c3 := if fullScan I wasPrimed then (List.range m.cap).foldl (addCand d.ent) d.cand else d.cand
  ({ m with heap := d.heap, ent := d.ent }, (List.range m.cap).filter (fun s => c3.contains s))

/-! ## the evaluation loop -/

/-- `push_pulled_child_schedule` -/
def pushPulled (heap : List HE) (e : Entry κ σ ο ε) (s : Nat) (w : Time) : Entry κ σ ο ε × List HE :=
  if e.pulledWhen = w then (e, heap) else ({ e with pulledWhen := w }, heapPush heap ⟨w, s, true⟩)

/-- the PULL half at the end of an iteration: a future deadline of the child lands in the queue,
    otherwise the lazy entry is invalidated -/
def pull (now : Time) (heap : List HE) (e : Entry κ σ ο ε) (s : Nat) : Entry κ σ ο ε × List HE :=
  if e.next ≠ MAX_DT ∧ e.next > now then pushPulled heap e s e.next
  else ({ e with pulledWhen := MAX_DT }, heap)

/-- what `child.evaluate` (under `fallback_on_exception` when errors are captured) does to one entry -/
structure ChildRes (κ σ ο ε : Type) where
  e : Entry κ σ ο ε
  ran : Bool := false
  out : Option ο := none
  err : Option ε := none
  completed : Bool := false     -- the child evaluation returned (no exception): it propagated its schedule
  ok : Bool := true             -- false: the exception escapes the map node

def childEval (B : Beh κ σ ι ο ε) (captures : Bool) (I : CycleIn κ ι) (e : Entry κ σ ο ε) : ChildRes κ σ ο ε :=
  if e.next ≤ I.now then
    let sr := B.step e.key I.now (I.input e.key) e.st
    match sr.err with
    | some x =>
      if !captures then { e := { e with st := sr.st }, ran := true, ok := false }
      else
        -- `fallback_on_exception`: the error is written under the child's own key; the child's cached
        -- `next_scheduled_time` is whatever the aborted scan left
        { e := { e with st := sr.st, next := clampFuture I.now sr.next, errv := some x,
                        outv := match sr.out with | some v => some v | none => e.outv }
          ran := true, out := sr.out, err := some x }
    | none =>
      { e := { e with st := sr.st, next := clampFuture I.now sr.next,
                      outv := match sr.out with | some v => some v | none => e.outv }
        ran := true, out := sr.out, completed := true }
  else { e := e }

/-- the body of one iteration for a started child `e0` in slot `s` -/
def evalStarted (B : Beh κ σ ι ο ε) (captures : Bool) (I : CycleIn κ ι) (r : Rec κ σ ο ε) (s : Nat)
    (e0 : Entry κ σ ο ε) : Rec κ σ ο ε :=
  -- re-binding of a membership-changed key can schedule the (idle) child for the current time
  let m0 := if I.late.contains s then notify I.now r.m s else r.m
  let e := if I.late.contains s then notifyE I.now e0 else e0
  let c := childEval B captures I e
  let out1 : CycleOut κ ο ε :=
    { r.out with runs := if c.ran then r.out.runs ++ [e.key] else r.out.runs
                 errs := match c.err with | some x => r.out.errs ++ [(e.key, x)] | none => r.out.errs
                 modified := match c.out with | some v => r.out.modified ++ [(e.key, v)] | none => r.out.modified
                 touched := r.out.touched || c.out.isSome
                 ok := c.ok }
  if !c.ok then { m := { m0 with ent := setEnt m0.ent s (some c.e) }, out := out1 } else
  -- `propagate_nested_parent_schedule` at the end of the child's completed evaluation
  let ps1 := if c.completed && decide (c.e.next < MAX_DT) then schedNode m0.ps I.now c.e.next else m0.ps
  let pe := pull I.now m0.heap c.e s
  { m := { m0 with ent := setEnt m0.ent s (some pe.1), heap := pe.2, ps := ps1 }, out := out1 }

/-- one iteration of the `for (position …)` loop -/
def evalSlot (B : Beh κ σ ι ο ε) (captures : Bool) (I : CycleIn κ ι) (r : Rec κ σ ο ε) (s : Nat) : Rec κ σ ο ε :=
  if !r.out.ok then r else
  match r.m.ent s with
  | none => r
  | some e0 => if !e0.started then r else evalStarted B captures I r s e0

/-- the second drain loop (end of `map_evaluate_impl`) -/
def drainFinal (now : Time) : List HE → (Nat → Option (Entry κ σ ο ε)) → List HE × (Nat → Option (Entry κ σ ο ε))
  | [], ent => ([], ent)
  | x :: xs, ent =>
    if x.when ≤ now then
      if x.pulled then
        match ent x.slot with
        | some e =>
          if e.pulledWhen = x.when then drainFinal now xs (setEnt ent x.slot (some { e with pulledWhen := MAX_DT }))
          else drainFinal now xs ent
        | none => drainFinal now xs ent
      else drainFinal now xs ent
    else (x :: xs, ent)

/-- re-arm of the map node from the heap minimum -/
def rearm (now : Time) (m : M κ σ ο ε) : M κ σ ο ε :=
  match m.heap with
  | [] => m
  | x :: _ => { m with ps := schedNode m.ps now x.when }

/-- `map_evaluate_impl` (not resuming) -/
def evaluate (B : Beh κ σ ι ο ε) (captures : Bool) (m : M κ σ ο ε) (I : CycleIn κ ι) : Rec κ σ ο ε :=
  let wasPrimed := m.primed
  let r1 := reconcile B I { m := m, out := { evaluated := true } }
  let p := prepare r1.m I wasPrimed
  let r2 := p.2.foldl (evalSlot B captures I) { r1 with m := p.1 }
  if !r2.out.ok then r2 else
  let d := drainFinal I.now r2.m.heap r2.m.ent
  { r2 with m := rearm I.now { r2.m with heap := d.1, ent := d.2 } }

/-- one engine cycle at `I.now`: upstream effects, then the map node runs iff its slot says so -/
def cycle (B : Beh κ σ ι ο ε) (captures : Bool) (m : M κ σ ο ε) (I : CycleIn κ ι) : Rec κ σ ο ε :=
  let m1 := upstream m I
  if m1.ps = I.now then evaluate B captures m1 I else { m := m1, out := {} }

/-- a whole history -/
def run (B : Beh κ σ ι ο ε) (captures : Bool) (m : M κ σ ο ε) : List (CycleIn κ ι) → M κ σ ο ε
  | [] => m
  | I :: rest => run B captures (cycle B captures m I).m rest

/-! ## observables -/

/-- the output dictionary: elements of started entries that are valid, in slot order -/
def outDict (m : M κ σ ο ε) : List (κ × ο) :=
  (List.range m.cap).filterMap fun s =>
    match m.ent s with
    | some e => if e.started then e.outv.map (fun v => (e.key, v)) else none
    | none => none

def errDict (m : M κ σ ο ε) : List (κ × ε) :=
  (List.range m.cap).filterMap fun s =>
    match m.ent s with
    | some e => if e.started then e.errv.map (fun v => (e.key, v)) else none
    | none => none

/-- `MapNodeView::active_count` -/
def activeCount (m : M κ σ ο ε) : Nat :=
  ((List.range m.cap).filter fun s => match m.ent s with | some e => e.started | none => false).length

/-- `MapNodeView::child_graph_count` -/
def childGraphCount (m : M κ σ ο ε) : Nat :=
  ((List.range m.cap).filter fun s => (m.ent s).isSome).length

end HgVerif.MapNode
