/-
Model of `TSDataTracking` (`ts_data/types.cpp record_modified`, `notify_child_modified`) and of
`TSDataMutationView::invalidate` (`ts_data/base_view.cpp`) over a tree of time-series positions
(bundle / list / dict children point to their parent).  Positions are naturals, the parent of a
position has a smaller number.  `lmt p = 0` is `MIN_DT`: never written / invalidated.
`modified p t := lmt p = t`, `valid p := lmt p ≠ 0` (`base_view.cpp`).  Core Lean only.
-/
namespace HgVerif.Tracking

structure Tree where
  parent : Nat → Option Nat
  wf : ∀ p q, parent p = some q → q < p

abbrev Lmt := Nat → Nat

def upd (L : Lmt) (p t : Nat) : Lmt := fun x => if x = p then t else L x

/-- `record_modified(t)` at `p`, and `parent.notify_child_modified(t)` upwards while it returns true -/
def markUp (T : Tree) : Nat → Nat → Nat → Lmt → Lmt
  | 0, _, _, L => L
  | fuel + 1, p, t, L =>
    if t ≤ L p then L          -- coalesced (same cycle) or stale: nothing recorded, nobody notified
    else
      match T.parent p with
      | none => upd L p t
      | some q => markUp T fuel q t (upd L p t)

/-- a write to position `p` in the cycle at `t` -/
def write (T : Tree) (p t : Nat) (L : Lmt) : Lmt := markUp T (p + 1) p t L

/-- `invalidate()` of a leaf position: observers and the parent are told, then the time is reset -/
def invalidateLeaf (T : Tree) (p t : Nat) (L : Lmt) : Lmt :=
  if L p = 0 then L
  else
    let L1 := match T.parent p with
      | none => L
      | some q => markUp T (q + 1) q t L
    upd L1 p 0

def modified (L : Lmt) (p t : Nat) : Prop := L p = t
def valid (L : Lmt) (p : Nat) : Prop := L p ≠ 0

/-- `x` is `p` or an ancestor of `p` -/
inductive Anc (T : Tree) : Nat → Nat → Prop where
  | refl (p : Nat) : Anc T p p
  | step {x p q : Nat} : T.parent p = some q → Anc T x q → Anc T x p

end HgVerif.Tracking
