/-
Model of `TSDataTracking` (`ts_data/types.cpp record_modified`, `notify_child_modified`) and of
`TSDataMutationView::invalidate` (`ts_data/base_view.cpp`) over a tree of time-series positions
(bundle / list / dict children point to their parent).  Positions are naturals, the parent of a
position has a smaller number.  `lmt p = 0` is `MIN_DT`: never written / invalidated.
`modified p t := lmt p = t`, `valid p := lmt p ≠ 0` (`base_view.cpp`; for TS, TSB and fixed TSL
`has_current_value` is `last_modified_time != MIN_DT`: `ts_data_atomic_ops.cpp`,
`ts_data_fixed_structured_ops.cpp`).  Core Lean only.

Also the consumer side (`ts_input/base_view.cpp InputDataCursor::last_modified_time / modified`,
`ts_input/target_link.cpp`): a bound `TSInput` reads the producer's tracking records through its
target link, EXCEPT at the link root, where the link's own tracking record is blended in.
-/
namespace HgVerif.Tracking

structure Tree where
  parent : Nat → Option Nat
  wf : ∀ p q, parent p = some q → q < p

abbrev Lmt := Nat → Nat

def upd (L : Lmt) (p t : Nat) : Lmt := fun x => if x = p then t else L x

/-- `record_modified(t)` at `p`, and `parent.notify_child_modified(t)` upwards while it returns true -/
def markUp (T : Tree) : Nat → Nat → Nat → Lmt → Lmt
  | 0, _, _, L => L
  | fuel + 1, p, t, L =>
    if t ≤ L p then L          -- coalesced (same cycle) or stale: nothing recorded, nobody notified
    else
      match T.parent p with
      | none => upd L p t
      | some q => markUp T fuel q t (upd L p t)

/-- a write to position `p` in the cycle at `t` -/
def write (T : Tree) (p t : Nat) (L : Lmt) : Lmt := markUp T (p + 1) p t L

/-- `invalidate()` of a leaf position: observers and the parent are told, then the time is reset -/
def invalidateLeaf (T : Tree) (p t : Nat) (L : Lmt) : Lmt :=
  if L p = 0 then L
  else
    let L1 := match T.parent p with
      | none => L
      | some q => markUp T (q + 1) q t L
    upd L1 p 0

def modified (L : Lmt) (p t : Nat) : Prop := L p = t
def valid (L : Lmt) (p : Nat) : Prop := L p ≠ 0

/-- `x` is `p` or an ancestor of `p` -/
inductive Anc (T : Tree) : Nat → Nat → Prop where
  | refl (p : Nat) : Anc T p p
  | step {x p q : Nat} : T.parent p = some q → Anc T x q → Anc T x p

/-! ## the general `invalidate` (containers) -/

/-- a tree with its children function (`ownership_ops->child_count / child_at`), consistent with
    `parent`; `height` bounds the depth below a position (finite trees), it is the recursion measure
    of `invalidate` -/
structure KTree extends Tree where
  kids : Nat → List Nat
  kids_iff : ∀ p c, c ∈ kids p ↔ parent c = some p
  height : Nat → Nat
  height_lt : ∀ p c, parent c = some p → height c < height p

/-- `TSDataMutationView::invalidate()` exactly as coded (`base_view.cpp` l.490-527):
    no current value → `return false`; otherwise every (mutable) child is invalidated recursively, in
    index order, each through its own mutation view — so each still-valid child tells ITS parent (this
    position) `notify_child_modified`, which stamps this position and its ancestors with `t`;
    then `observers.notify(t)`, `parent.notify_child_modified(t)` (= `record_modified(t)` at the parent
    and upwards while it returns true), and only THEN `last_modified_time = MIN_DT`. -/
def invalidateF (K : KTree) (t : Nat) : Nat → Nat → Lmt → Lmt
  | 0, _, L => L
  | fuel + 1, p, L =>
    if L p = 0 then L
    else
      let L1 := (K.kids p).foldl (fun acc c => invalidateF K t fuel c acc) L
      let L2 := match K.parent p with
        | none => L1
        | some q => markUp K.toTree (q + 1) q t L1
      upd L2 p 0

def invalidate (K : KTree) (p t : Nat) (L : Lmt) : Lmt := invalidateF K t (K.height p + 1) p L

/-! ## observer notifications (`TSDataObserverSet::notify`)

`record_modified` notifies the observers of a level exactly when it records (`observers.notify` after the
`<=` guard); `invalidate()` notifies the observers of the position explicitly before the reset.  The lists
below are the positions notified by one operation, in the order of the calls. -/

def markUpN (T : Tree) : Nat → Nat → Nat → Lmt → List Nat
  | 0, _, _, _ => []
  | fuel + 1, p, t, L =>
    if t ≤ L p then []
    else
      p :: (match T.parent p with
        | none => []
        | some q => markUpN T fuel q t (upd L p t))

def writeN (T : Tree) (p t : Nat) (L : Lmt) : List Nat := markUpN T (p + 1) p t L

/-- state and notifications of the cascade over the children (same fold as in `invalidateF`) -/
def invalidateFN (K : KTree) (t : Nat) : Nat → Nat → Lmt → List Nat
  | 0, _, _ => []
  | fuel + 1, p, L =>
    if L p = 0 then []
    else
      let r := (K.kids p).foldl
        (fun (acc : Lmt × List Nat) c => (invalidateF K t fuel c acc.1, acc.2 ++ invalidateFN K t fuel c acc.1)) (L, [])
      r.2 ++ [p] ++ (match K.parent p with
        | none => []
        | some q => markUpN K.toTree (q + 1) q t r.1)

def invalidateN (K : KTree) (p t : Nat) (L : Lmt) : List Nat := invalidateFN K t (K.height p + 1) p L

/-! ## histories -/

inductive Op where
  | w (p t : Nat)       -- write to (leaf) position `p` in the cycle at `t`
  | inv (p t : Nat)     -- `begin_mutation(t).invalidate()` on position `p`

def Op.time : Op → Nat
  | .w _ t => t
  | .inv _ t => t

def apply (K : KTree) : Op → Lmt → Lmt
  | .w p t, L => write K.toTree p t L
  | .inv p t, L => invalidate K p t L

def run (K : KTree) (ops : List Op) (L : Lmt) : Lmt := ops.foldl (fun L o => apply K o L) L

/-- the positions whose observers one operation notifies (with multiplicity, in call order) -/
def applyN (K : KTree) : Op → Lmt → List Nat
  | .w p t, L => writeN K.toTree p t L
  | .inv p t, L => invalidateN K p t L

/-! ## the consumer side: a `TSInput` bound to the root `r` of the output

`TSInputTargetLinkState` subscribes to the target ROOT's observer set (`bind_impl`:
`state.target.data_view().subscribe(&state)`); every notification lands in the link's own tracking
record (`TSInputTargetLinkState::notify → record_target_modified → tracking.record_modified`).  The
root's observers are notified (a) by a successful `record_modified` of the root — which is exactly
when the root's time changes during a write or a child invalidation — and (b) unconditionally by an
effective `invalidate()` of the root itself (`state.observers.notify(mutation_time_)`).
`bind` replays the source's time when it is valid (`replay_source_time`). -/

/-- `TSDataTracking::record_modified` on the link's own record -/
def linkRecord (k t : Nat) : Nat := if t ≤ k then k else t

/-- the link record after `apply K o` took `L` to `L'` -/
def linkStep (r : Nat) (o : Op) (L L' : Lmt) (k : Nat) : Nat :=
  match o with
  | .w _ t => if L' r = L r then k else linkRecord k t
  | .inv p t =>
    if L p = 0 then k                       -- no-op invalidate
    else if p = r then linkRecord k t       -- observers.notify(t) of the root itself
    else if L' r = L r then k else linkRecord k t

/-- a fresh link bound to a target whose root carries `L r` -/
def linkBind (r : Nat) (L : Lmt) : Nat := if L r = 0 then 0 else linkRecord 0 (L r)

/-- `InputDataCursor::last_modified_time`: `max(raw, data)` at the target root, `data` below it -/
def inLmt (r k : Nat) (L : Lmt) (p : Nat) : Nat := if p = r then max k (L p) else L p

/-- `InputDataCursor::modified(t)`: `raw.modified(t) || data.modified(t)` at the root -/
def inModified (r k : Nat) (L : Lmt) (p t : Nat) : Prop := if p = r then (k = t ∨ L p = t) else L p = t

/-- `TSInputView::valid`: `data.has_current_value()` -/
def inValid (L : Lmt) (p : Nat) : Prop := L p ≠ 0

instance (r k : Nat) (L : Lmt) (p t : Nat) : Decidable (inModified r k L p t) := by
  unfold inModified; exact inferInstance
instance (L : Lmt) (p : Nat) : Decidable (inValid L p) := by unfold inValid; exact inferInstance
instance (L : Lmt) (p t : Nat) : Decidable (modified L p t) := by unfold modified; exact inferInstance
instance (L : Lmt) (p : Nat) : Decidable (valid L p) := by unfold valid; exact inferInstance

/-! ## trees from a parent table (used by the model driver and the examples) -/

/-- parent of `p` according to the table; entries that do not point to a smaller position are roots -/
def parentOf (a : Array (Option Nat)) (p : Nat) : Option Nat :=
  match a[p]? with
  | some (some q) => if q < p then some q else none
  | _ => none

theorem parentOf_lt {a : Array (Option Nat)} {p q : Nat} (h : parentOf a p = some q) : q < p ∧ p < a.size := by
  unfold parentOf at h
  split at h
  · rename_i q' hq
    split at h
    · rename_i hlt
      injection h with h; subst h
      refine ⟨hlt, ?_⟩
      have := (Array.getElem?_eq_some_iff.mp hq).1
      exact this
    · cases h
  · cases h

/-- the finite tree described by a parent table: children in increasing position order -/
def KTree.ofParents (a : Array (Option Nat)) : KTree where
  parent := parentOf a
  wf := fun _ _ h => (parentOf_lt h).1
  kids := fun p => (List.range a.size).filter (fun c => parentOf a c == some p)
  kids_iff := by
    intro p c
    simp only [List.mem_filter, List.mem_range, beq_iff_eq]
    constructor
    · exact fun h => h.2
    · exact fun h => ⟨(parentOf_lt h).2, h⟩
  height := fun p => a.size - p
  height_lt := by
    intro p c h
    have := parentOf_lt h
    omega

end HgVerif.Tracking
