/-
Model of the slot-level delta bookkeeping behind TSS / TSD outputs and of the tick-count
window ring buffer (property C05).  Modelled code (read from /repo, same cases, same order of
side effects, same comparison operators):

* `include/hgraph/types/utils/key_slot_store.h` + `utils/impl/stable_slot_store_impl.h`
  (`KeySlotStore`: per-slot state Free / Live / PendingErase, `find_stored_slot`, `insert` with
  resurrection of a pending-erase slot holding the same key (`reuse_existing_slot`),
  `acquire_free_slot` (LIFO free list, growth `max(size+1, max(8, 2*capacity))`, new slots pushed
  in descending order so the lowest is popped first), `remove_slot` (logical removal: slot stays
  constructed, is appended to `m_pending_erase_slots`), `erase_pending` (physical erase, slot
  returned to the free list; skipped when `m_pending_erase_count == 0`; stale / duplicate list
  entries are skipped because the slot is no longer pending)).
  The transient `Staged` state exists only inside `insert` and is not modelled.
* `src/hgraph/types/metadata/ts_data_slot_ops.cpp` `TSSSlotStorage` / `TSDSlotStorage`
  (`prepare_delta` with `modified_time <= delta_time_` joining the current window, otherwise
  `erase_pending(); reset_delta(); delta_time_ = t`; the add/remove cancel rules on the
  `added_ / removed_` bits; TSD's `value_published_`, `modified_`, `record_child_modified`,
  `key_set_tracking_`, and `restore_modified_mark` — the repair of F-C05-1, fixes/c05_f1.patch).
  The four `sul::dynamic_bitset`s are kept the same size as the slot capacity by
  `ensure_delta_capacity()` before every bit access, so the model stores the bits *in* the slot
  record (array-of-structs instead of struct-of-arrays).  A bit of a free slot is NOT cleared
  when the slot is constructed again (as in the code, where only `reset_delta` clears bits);
  that free slots carry no bits is a theorem (`Props/C05.lean`), not a modelling choice.
* `ts_data/set_view.cpp`, `ts_data/dict_view.cpp` (mutation views: `add/remove/clear/touch`,
  `at/set/erase/clear/touch`, with the `touch_impl` + `mark_modified` dance),
  `ts_data/base_view.cpp` (`mark_modified`, `TSDataTracking::record_modified`:
  `modified_time <= last_modified_time` is ignored), `metadata/ts_data_atomic_ops.cpp`
  (`atomic_copy_value_from`: value is always written, `first_for_time = lmt != t`),
  `ts_data/types.cpp` (`TSParentLink::notify_child_modified`).
* `ts_output/set_view.cpp`, `ts_output/dict_view.cpp`: the readers gate the delta on the view's
  evaluation time (`modified()` for TSS, `structural_delta_current(t)` i.e. `delta_time_ == t`
  for TSD's added/removed, `modified(t)` for `modified_keys`).
* `src/hgraph/types/metadata/ts_data_window_ops.cpp` `TSWindowStorageCore` /
  `SizeTSWindowStorage` (`head_`, `size_`, `capacity_ = period`, `append`, `overwrite_oldest`
  with `record_evicted`, `clear_values`), `SizeTSWContext::size_all_valid`
  (`size >= min_period`), `ts_data/window_view.cpp` (`push` / `clear` allow one tick per
  evaluation time).

Times are microsecond counts, `MIN_DT = 0`.  Keys and values are `Int` (`TSS<Int>`,
`TSD<Int, TS<Int>>`, `TSW<Int>`).  Core Lean only (no Mathlib) so the driver can run it.
-/
namespace HgVerif.Slots

/-- times are microsecond counts; a notation (not a definition) so that `omega` sees `Nat` -/
local notation "Time" => Nat
abbrev Key := Int

/-- `StableSlotStateModel::ConstructedAndLive`: Free, Live, constructed-but-not-live. -/
inductive St where
  | free | live | pending
deriving DecidableEq, Repr, Inhabited

/-- One slot: key-store state and key, the per-slot bits of the owning TSS/TSD storage, and (TSD
    only) the mirrored child `TS<Int>` (`KeyMirroredValueSlotStore`). -/
structure Slot where
  st : St := .free
  key : Key := 0
  added : Bool := false        -- added_
  removed : Bool := false      -- removed_
  modified : Bool := false     -- modified_         (TSD)
  published : Bool := false    -- value_published_  (TSD)
  cval : Int := 0              -- child value       (TSD)
  clmt : Time := 0             -- child last_modified_time (TSD)
deriving DecidableEq, Repr, Inhabited

/-- `slots[i]`, the default (free, no bits) slot beyond the capacity. -/
def sget (l : List Slot) (i : Nat) : Slot := l.getD i {}

structure Store where
  slots : List Slot := []     -- index = slot id, length = slot_capacity()
  free : List Nat := []       -- m_free_slots, head = back()
  pend : List Nat := []       -- m_pending_erase_slots in push order (may hold stale entries)
  pendCount : Nat := 0        -- m_pending_erase_count
  size : Nat := 0             -- m_size
deriving Repr

def Store.cap (s : Store) : Nat := s.slots.length

/-- `find_stored_slot`: the constructed slot holding `k` (live or pending erase). -/
def findStored (l : List Slot) (k : Key) : Option Nat :=
  l.findIdx? (fun s => s.st != .free && s.key == k)

/-- `find_slot`: only if live. -/
def findLive (l : List Slot) (k : Key) : Option Nat :=
  match findStored l k with
  | some i => if (sget l i).st == .live then some i else none
  | none => none

/-- `reserve_to(capacity)`: new slots are free; pushed so that the lowest new slot is `back()`. -/
def Store.reserveTo (s : Store) (cap : Nat) : Store :=
  if cap ≤ s.slots.length then s
  else { s with slots := s.slots ++ List.replicate (cap - s.slots.length) {}
                free := List.range' s.slots.length (cap - s.slots.length) ++ s.free }

/-- `m_free_slots.back(); pop_back()` -/
def Store.popFree (s : Store) : Store × Nat :=
  match s.free with
  | [] => (s, 0)                           -- unreachable: reserveTo made room
  | i :: rest => ({ s with free := rest }, i)

/-- `acquire_free_slot` -/
def Store.acquireFree (s : Store) : Store × Nat :=
  (if s.free.isEmpty then s.reserveTo (max (s.size + 1) (max 8 (s.slots.length * 2))) else s).popFree

structure InsRes where
  slot : Nat
  inserted : Bool
  constructed : Bool
deriving Repr

/-- `KeySlotStore::insert` -/
def Store.insert (s : Store) (k : Key) : Store × InsRes :=
  match findStored s.slots k with
  | some i =>
    -- reuse_existing_slot: mark_live succeeds only for a constructed, non-live slot
    if (sget s.slots i).st == .pending then
      let pc := s.pendCount - 1
      ({ s with slots := s.slots.modify i (fun x => { x with st := .live })
                pendCount := pc
                pend := if pc == 0 then [] else s.pend
                size := s.size + 1 }, ⟨i, true, false⟩)
    else (s, ⟨i, false, false⟩)
  | none =>
    let r := s.acquireFree
    -- construct key (and the mirrored child: fresh TS<Int>, value 0, never modified)
    ({ r.1 with slots := r.1.slots.modify r.2 (fun x => { x with st := .live, key := k, cval := 0, clmt := 0 })
                size := r.1.size + 1 }, ⟨r.2, true, true⟩)

/-- `KeySlotStore::remove_slot` -/
def Store.removeSlot (s : Store) (i : Nat) : Store × Bool :=
  if (sget s.slots i).st == .live then
    ({ s with slots := s.slots.modify i (fun x => { x with st := .pending })
              pend := s.pend ++ [i]
              pendCount := s.pendCount + 1
              size := s.size - 1 }, true)
  else (s, false)

/-- the loop of `erase_pending` over `m_pending_erase_slots` -/
def eraseLoop : List Nat → List Slot → List Nat → List Slot × List Nat
  | [], sl, fr => (sl, fr)
  | i :: rest, sl, fr =>
    if (sget sl i).st == .pending then
      eraseLoop rest (sl.modify i (fun x => { x with st := .free })) (i :: fr)
    else eraseLoop rest sl fr

/-- `KeySlotStore::erase_pending` -/
def Store.erasePending (s : Store) : Store :=
  if s.pendCount == 0 then s
  else
    let r := eraseLoop s.pend s.slots s.free
    { s with slots := r.1, free := r.2, pend := [], pendCount := 0 }

def Store.mapSlots (s : Store) (f : Slot → Slot) : Store := { s with slots := s.slots.map f }
def Store.modifySlot (s : Store) (i : Nat) (f : Slot → Slot) : Store := { s with slots := s.slots.modify i f }

/-- `record_modified`: an older or equal time is ignored -/
def recMod (lmt t : Time) : Time := if t ≤ lmt then lmt else t

/-! ## TSS  (`TSSSlotStorage` + `TSSDataMutationView`) -/

structure TSS where
  keys : Store := {}
  deltaTime : Time := 0
  lmt : Time := 0
deriving Repr

def clearSetBits (s : Slot) : Slot := { s with added := false, removed := false }

/-- `prepare_delta` -/
def TSS.prepareDelta (x : TSS) (t : Time) : TSS :=
  if t ≤ x.deltaTime then x
  else { x with keys := x.keys.erasePending.mapSlots clearSetBits, deltaTime := t }

def insBits (s : Slot) : Slot := if s.removed then { s with removed := false } else { s with added := true }
def remBits (s : Slot) : Slot := if s.added then { s with added := false } else { s with removed := true }

/-- `TSSSlotStorage::insert_key`; second component: `changed` -/
def TSS.insertKey (x : TSS) (t : Time) (k : Key) : TSS × Bool :=
  let x1 := x.prepareDelta t
  let r := x1.keys.insert k
  if r.2.inserted then ({ x1 with keys := r.1.modifySlot r.2.slot insBits }, true)
  else ({ x1 with keys := r.1 }, false)

/-- `TSSSlotStorage::remove_key` -/
def TSS.removeKey (x : TSS) (t : Time) (k : Key) : TSS × Bool :=
  let x1 := x.prepareDelta t
  match findLive x1.keys.slots k with
  | none => (x1, false)
  | some i =>
    let r := x1.keys.removeSlot i
    if r.2 then ({ x1 with keys := r.1.modifySlot i remBits }, true) else ({ x1 with keys := r.1 }, false)

/-- `touch`: second component `tracking_.last_modified_time != modified_time` -/
def TSS.touch (x : TSS) (t : Time) : TSS × Bool :=
  let x1 := x.prepareDelta t
  (x1, x1.lmt != t)

def TSS.markModified (x : TSS) (t : Time) : TSS := { x with lmt := recMod x.lmt t }

/-- the tail shared by `add` / `remove`: `apply_slot_mutation_result`, then touch when unchanged -/
def TSS.afterMut (r : TSS × Bool) (t : Time) : TSS × Bool :=
  if r.2 then (r.1.markModified t, true)
  else
    let tr := r.1.touch t
    (if tr.2 then tr.1.markModified t else tr.1, false)

def TSS.add (x : TSS) (t : Time) (k : Key) : TSS × Bool := TSS.afterMut (x.insertKey t k) t
def TSS.remove (x : TSS) (t : Time) (k : Key) : TSS × Bool := TSS.afterMut (x.removeKey t k) t

/-- keys of the live slots in slot order (`values()`) -/
def liveKeys (l : List Slot) : List Key := (l.filter (fun s => s.st == .live)).map (·.key)
def addedKeysRaw (l : List Slot) : List Key := (l.filter (fun s => s.added)).map (·.key)
def removedKeysRaw (l : List Slot) : List Key := (l.filter (fun s => s.removed)).map (·.key)

def TSS.clear (x : TSS) (t : Time) : TSS :=
  let ks := liveKeys x.keys.slots
  let tr := x.touch t
  let x2 := ks.foldl (fun y k => (y.remove t k).1) tr.1
  if tr.2 then x2.markModified t else x2

def TSS.touchOp (x : TSS) (t : Time) : TSS :=
  let tr := x.touch t
  if tr.2 then tr.1.markModified t else tr.1

/-- operations of the driver protocol (each one is its own mutation view at time `t`) -/
inductive SetOp where
  | add (t : Time) (k : Key)
  | rem (t : Time) (k : Key)
  | clear (t : Time)
  | touch (t : Time)
deriving Repr, DecidableEq

def SetOp.time : SetOp → Time
  | .add t _ => t | .rem t _ => t | .clear t => t | .touch t => t

/-- `TSDataMutationView` refuses `MIN_DT` before anything is touched (`err:invalid-arg`) -/
def TSS.step (x : TSS) (o : SetOp) : TSS :=
  if o.time == 0 then x else
  match o with
  | .add t k => (x.add t k).1
  | .rem t k => (x.remove t k).1
  | .clear t => x.clear t
  | .touch t => x.touchOp t

def TSS.run (x : TSS) (ops : List SetOp) : TSS := ops.foldl TSS.step x

/-- what `TSSOutputView` at evaluation time `t` shows: `added()/removed()` are empty unless `modified()` -/
def TSS.modifiedAt (x : TSS) (t : Time) : Bool := t != 0 && x.lmt == t
def TSS.value (x : TSS) : List Key := liveKeys x.keys.slots
def TSS.addedAt (x : TSS) (t : Time) : List Key := if x.modifiedAt t then addedKeysRaw x.keys.slots else []
def TSS.removedAt (x : TSS) (t : Time) : List Key := if x.modifiedAt t then removedKeysRaw x.keys.slots else []

/-! ## TSD  (`TSDSlotStorage` + `TSDDataMutationView`, element `TS<Int>`) -/

structure TSD where
  keys : Store := {}
  deltaTime : Time := 0
  lmt : Time := 0
  keySetLmt : Time := 0     -- key_set_tracking_.last_modified_time
deriving Repr

def clearDictBits (s : Slot) : Slot := { s with added := false, removed := false, modified := false }

/-- `prepare_delta` (the `invalidate_owned_ts_data_tree` of pending children only touches observers) -/
def TSD.prepareDelta (x : TSD) (t : Time) : TSD :=
  if t ≤ x.deltaTime then x
  else { x with keys := x.keys.erasePending.mapSlots clearDictBits, deltaTime := t }

/-- bit update of `TSDSlotStorage::insert_key` after a successful insert / resurrection -/
def dInsBits (s : Slot) : Slot :=
  if s.removed then { s with removed := false, published := true }
  else if s.clmt != 0 then { s with published := true, added := true }
  else s

/-- bit update of `TSDSlotStorage::remove_key` -/
def dRemBits (s : Slot) : Slot :=
  let s1 := if s.published then
      { (if s.added then { s with added := false } else { s with removed := true }) with published := false }
    else s
  { s1 with modified := false }

/-- `restore_modified_mark` (the repair of finding F-C05-1): a published slot whose child was already
    modified at `t` — a slot resurrected in the cycle in which its child was written — is a modified item -/
def dMarkBits (t : Time) (s : Slot) : Slot :=
  if s.published && s.clmt == t then { s with modified := true } else s

/-- all bit updates of `insert_key` / `insert_key_move` after a successful insert -/
def dInsBitsAt (t : Time) (s : Slot) : Slot := dMarkBits t (dInsBits s)

def TSD.insertKey (x : TSD) (t : Time) (k : Key) : TSD × InsRes :=
  let x1 := x.prepareDelta t
  let r := x1.keys.insert k
  if r.2.inserted then
    ({ x1 with keys := r.1.modifySlot r.2.slot (dInsBitsAt t), keySetLmt := recMod x1.keySetLmt t }, r.2)
  else ({ x1 with keys := r.1 }, r.2)

def TSD.removeKey (x : TSD) (t : Time) (k : Key) : TSD × Bool :=
  let x1 := x.prepareDelta t
  match findLive x1.keys.slots k with
  | none => (x1, false)
  | some i =>
    let r := x1.keys.removeSlot i
    if r.2 then ({ x1 with keys := r.1.modifySlot i dRemBits, keySetLmt := recMod x1.keySetLmt t }, true)
    else ({ x1 with keys := r.1 }, false)

def TSD.markModified (x : TSD) (t : Time) : TSD := { x with lmt := recMod x.lmt t }

/-- bit update of `record_child_modified` for a live slot -/
def dChildBits (s : Slot) : Slot :=
  if s.clmt == 0 then
    -- !child_has_current_value
    let s1 := { s with modified := false }
    if !s1.published then s1
    else
      let s2 := { s1 with published := false }
      if s2.added then { s2 with added := false } else { s2 with removed := true }
  else
    let s1 := if !s.published then
        (let s0 := { s with published := true }
         if s0.removed then { s0 with removed := false } else { s0 with added := true })
      else s
    { s1 with modified := true }

/-- `TSDSlotStorage::record_child_modified` -/
def TSD.recordChildModified (x : TSD) (i : Nat) (t : Time) : TSD :=
  if (sget x.keys.slots i).st != .live then x
  else
    let x1 := x.prepareDelta t
    { x1 with keys := x1.keys.modifySlot i dChildBits }

/-- `TSDDataMutationView::at`: insert the key (no value yet), mark modified when changed -/
def TSD.at (x : TSD) (t : Time) (k : Key) : TSD × Nat :=
  let r := x.insertKey t k
  (if r.2.inserted then r.1.markModified t else r.1, r.2.slot)

/-- child `copy_value_from` + `mark_modified` + `TSParentLink::notify_child_modified` -/
def TSD.writeChild (x : TSD) (i : Nat) (t : Time) (v : Int) : TSD :=
  let c := sget x.keys.slots i
  let first := c.clmt != t                              -- first_for_time
  let x1 := { x with keys := x.keys.modifySlot i (fun s => { s with cval := v }) }
  if first then
    -- mark_modified: record_modified(t) on the child
    if t ≤ c.clmt then x1
    else
      let x2 := { x1 with keys := x1.keys.modifySlot i (fun s => { s with clmt := t }) }
      (x2.recordChildModified i t).markModified t
  else x1

def TSD.set (x : TSD) (t : Time) (k : Key) (v : Int) : TSD :=
  let r := x.at t k
  r.1.writeChild r.2 t v

def TSD.touch (x : TSD) (t : Time) : TSD × Bool :=
  let x1 := x.prepareDelta t
  (x1, x1.lmt != t)

/-- `TSDDataMutationView::touch()`: `touch_impl -> mark_modified`, then the key set is stamped when it was never valid -/
def TSD.touchOp (x : TSD) (t : Time) : TSD :=
  let tr := x.touch t
  let x1 := if tr.2 then tr.1.markModified t else tr.1
  if x1.keySetLmt == 0 then { x1 with keySetLmt := recMod x1.keySetLmt t } else x1

/-- `TSDDataMutationView::erase`: an absent key is a `touch()` (after fix F9, /repo 8d7f72a: the key set of a dictionary
    validated by a blind erase is validated with it) -/
def TSD.erase (x : TSD) (t : Time) (k : Key) : TSD × Bool :=
  let r := x.removeKey t k
  if r.2 then (r.1.markModified t, true)
  else (r.1.touchOp t, false)

/-- `TSDDataMutationView::clear`: `touch()`, then erase every live key (after fix F9) -/
def TSD.clear (x : TSD) (t : Time) : TSD :=
  let ks := liveKeys x.keys.slots
  ks.foldl (fun y k => (y.erase t k).1) (x.touchOp t)

inductive DictOp where
  | set (t : Time) (k : Key) (v : Int)
  | at (t : Time) (k : Key)
  | erase (t : Time) (k : Key)
  | clear (t : Time)
  | touch (t : Time)
deriving Repr, DecidableEq

def DictOp.time : DictOp → Time
  | .set t _ _ => t | .at t _ => t | .erase t _ => t | .clear t => t | .touch t => t

def TSD.step (x : TSD) (o : DictOp) : TSD :=
  if o.time == 0 then x else
  match o with
  | .set t k v => x.set t k v
  | .at t k => (x.at t k).1
  | .erase t k => (x.erase t k).1
  | .clear t => x.clear t
  | .touch t => x.touchOp t

def TSD.run (x : TSD) (ops : List DictOp) : TSD := ops.foldl TSD.step x

/-- live slot whose child has a value: what the TSD's Python-facing value contains -/
def Slot.member (s : Slot) : Bool := s.st == .live && s.clmt != 0

def TSD.validItems (x : TSD) : List (Key × Int) :=
  (x.keys.slots.filter Slot.member).map (fun s => (s.key, s.cval))
def TSD.validKeys (x : TSD) : List Key := (x.keys.slots.filter Slot.member).map (·.key)
def TSD.structAt (x : TSD) (t : Time) : Bool := t != 0 && x.deltaTime == t     -- structural_delta_current
def TSD.modifiedAt (x : TSD) (t : Time) : Bool := t != 0 && x.lmt == t
def TSD.addedAt (x : TSD) (t : Time) : List Key := if x.structAt t then addedKeysRaw x.keys.slots else []
def TSD.removedAt (x : TSD) (t : Time) : List Key := if x.structAt t then removedKeysRaw x.keys.slots else []
def modifiedItemsRaw (l : List Slot) : List (Key × Int) :=
  (l.filter (fun s => s.st == .live && s.modified)).map (fun s => (s.key, s.cval))
def TSD.modifiedItemsAt (x : TSD) (t : Time) : List (Key × Int) :=
  if x.modifiedAt t then modifiedItemsRaw x.keys.slots else []

/-! ## tick-count TSW  (`SizeTSWindowStorage` + `TSWDataMutationView`) -/

structure Win where
  period : Nat                      -- capacity_ = period_ (reserve_exact(period) at construction)
  minPeriod : Nat
  buf : List (Int × Time)           -- physical slots, length = period
  head : Nat := 0
  size : Nat := 0
  evicted : Option Int := none      -- evicted_
  evictedTime : Time := 0           -- evicted_time_
  lmt : Time := 0
deriving Repr

def Win.init (period minPeriod : Nat) : Win :=
  { period := period, minPeriod := minPeriod, buf := List.replicate period (0, 0) }

/-- `SizeTSWindowStorage::push` -/
def Win.pushRaw (w : Win) (v : Int) (t : Time) : Win :=
  if w.size < w.period then
    -- append
    { w with buf := w.buf.set ((w.head + w.size) % w.period) (v, t), size := w.size + 1 }
  else
    -- overwrite_oldest
    { w with evicted := some (w.buf.getD w.head (0, 0)).1, evictedTime := t
             buf := w.buf.set w.head (v, t)
             head := (w.head + 1) % w.period }

/-- `clear_values` -/
def Win.clearRaw (w : Win) (t : Time) : Win :=
  { w with size := 0, head := 0, evicted := none, evictedTime := t }

/-- element at logical index -/
def Win.elemAt (w : Win) (i : Nat) : Int × Time := w.buf.getD ((w.head + i) % w.period) (0, 0)
def Win.values (w : Win) : List Int := (List.range w.size).map (fun i => (w.elemAt i).1)
def Win.times (w : Win) : List Time := (List.range w.size).map (fun i => (w.elemAt i).2)
def Win.valid (w : Win) : Bool := w.lmt != 0
/-- `TSDataView::all_valid`: has_current_value && `size >= min_period` -/
def Win.allValid (w : Win) : Bool := w.lmt != 0 && decide (w.minPeriod ≤ w.size)
def Win.full (w : Win) : Bool := w.period != 0 && w.size == w.period

inductive WinOp where
  | push (t : Time) (v : Int)
  | clear (t : Time)
  | clearPush (t : Time) (v : Int)
deriving Repr, DecidableEq

inductive WinErr where
  | invalidArg | logic
deriving Repr, DecidableEq

/-- one mutation view per op: `push`/`clear` throw `logic_error` when the window already ticked at `t`
    (a push directly after a clear inside the same view is allowed: `cleared_`) -/
def Win.step (w : Win) (o : WinOp) : Except WinErr Win :=
  match o with
  | .push t v =>
    if t == 0 then .error .invalidArg
    else if w.lmt == t then .error .logic
    else .ok { (w.pushRaw v t) with lmt := recMod w.lmt t }
  | .clear t =>
    if t == 0 then .error .invalidArg
    else if w.lmt == t then .error .logic
    else .ok { (w.clearRaw t) with lmt := recMod w.lmt t }
  | .clearPush t v =>
    if t == 0 then .error .invalidArg
    else if w.lmt == t then .error .logic
    else
      let w1 := { (w.clearRaw t) with lmt := recMod w.lmt t }
      .ok { (w1.pushRaw v t) with lmt := recMod w1.lmt t }

/-- errors leave the window unchanged -/
def Win.stepD (w : Win) (o : WinOp) : Win := match w.step o with | .ok w' => w' | .error _ => w

/-! ## fixed TSL / TSB  (`ts_data_fixed_structured_ops.cpp`, children `TS<Int>`)

No delta bits: a child is "modified" when its `last_modified_time` equals the parent's
(`child_modified_at_parent_time`; the output view asks the child `modified()` at the view's time). A child
write goes through the child's own mutation view (`atomic_copy_value_from`, `mark_modified`,
`TSParentLink::notify_child_modified`; `fixed_record_child_modified` only marks TSB field validity). -/

structure Fixed where
  kids : List (Int × Nat) := []     -- (value, last_modified_time) per child
  lmt : Nat := 0
deriving Repr

def Fixed.init (n : Nat) : Fixed := { kids := List.replicate n (0, 0) }

/-- write child `i` at time `t` (index and time already validated) -/
def Fixed.write (x : Fixed) (i : Nat) (t : Time) (v : Int) : Fixed :=
  let c := x.kids.getD i (0, 0)
  if c.2 != t then
    -- first_for_time: record_modified on the child; an older time is ignored
    if t ≤ c.2 then { x with kids := x.kids.set i (v, c.2) }
    else { kids := x.kids.set i (v, t), lmt := recMod x.lmt t }
  else { x with kids := x.kids.set i (v, c.2) }

def Fixed.modifiedAt (x : Fixed) (t : Time) : Bool := t != 0 && x.lmt == t

end HgVerif.Slots
