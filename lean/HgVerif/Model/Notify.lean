/-!
# One-shot evaluation notifications and runs in sequence (C07, notification / failed-run reuse stream)

Model of `src/hgraph/runtime/executor.cpp`:

* `simulation_add_evaluation_notification_impl` - `push_back` on the executor's before / after queue;
* `drain_evaluation_notifications(queue, before)` - `while (!queue.empty()) { pending.swap(queue); run the batch }`,
  before batches front to back, after batches back to front, a callback that registers again lands in `queue`
  (not in `pending`) and is therefore drained by the outer loop at the SAME boundary, an exception leaves the loop;
* `run_storage` - per root cycle: drain before, evaluate, drain after (also when the evaluation throws: the
  `drain_after` unwind guard, failures swallowed); on the way out `stop_storage`: `graph.stop()`, drain after,
  drain before, the first failure is reported (swallowed when the run is already failing).

The only state that could outlive a drain is the batch vector `pending`.  As coded it is a LOCAL of the loop body
(`BufMode.localBatch`).  `BufMode.threadBuffer` is the same loop with `pending` turned into a buffer owned by the
evaluation thread and cleared only after the batch has run (the seeded defect s55) - kept in the model so that the
counter-lemma can exhibit what the local batch rules out.  Everything an executor owns (`Exec`) is created by
`runExec` and dropped at its end: runs in sequence share nothing but the `Thread`.

The graph of the stream is fixed: source (scheduled on start at t = 1, ticks at the recipe's times) -> noter
(executes the tick's actions) -> sink.  Core Lean only.
-/
namespace HgVerif.Notify

/-- label of a notification: the kind it is registered with and its id -/
structure Lbl where
  before : Bool
  id : Nat
deriving DecidableEq, Repr, Inhabited

/-- what user code does, in order: register a notification, or throw -/
inductive Act where
  | reg (l : Lbl)
  | throw
deriving DecidableEq, Repr, Inhabited

/-- behaviour of notification `id` when it fires (absent = it only logs) -/
abbrev Defs := List (Nat × List Act)

/-- a registered callback is a CLOSURE: its label and the recipe table it was created over.  A callback that
outlives its run - impossible as coded - still behaves as its own run told it to; what it registers goes to the
executor that is draining (in C++ its `EngineControlView` dangles by then: undefined behaviour, observed as crashes
of the driver under the seeded defect; the model cannot exhibit that and the counter-lemma's witness does not need it). -/
structure Cb where
  lbl : Lbl
  env : Defs
deriving DecidableEq, Repr, Inhabited

structure Tick where
  time : Nat
  acts : List Act
deriving DecidableEq, Repr, Inhabited

structure Recipe where
  base : Nat := 100
  /-- `cleanup_on_error(false)`: after a failure the stop phase runs from the executor's destructor instead of the
  unwind guard of `run_storage`; the same calls in the same order, all failures swallowed in both -/
  noCleanup : Bool := false
  startRegs : List Lbl := []
  ticks : List Tick := []
  stopRegs : List Lbl := []
  defs : Defs := []
deriving DecidableEq, Repr, Inhabited

inductive Err where
  | note (l : Lbl)
  | node (t : Nat)
  /-- the drain loop did not finish within the model's fuel (the C++ loop would not terminate) -/
  | loop
deriving DecidableEq, Repr, Inhabited

inductive Ev where
  | start
  | eval (t : Nat)
  | nodeThrow
  | sink (t v : Nat)
  | fire (l : Lbl)
  | noteThrow
  | stop
deriving DecidableEq, Repr, Inhabited

/-- the part of `SimulationExecutorStorage` the stream observes; `log` is the harness' per-run trace -/
structure Exec where
  before : List Cb := []
  after : List Cb := []
  log : List Ev := []
deriving DecidableEq, Repr, Inhabited

/-- what an evaluation thread keeps between drains: nothing as coded; the batch buffer under `threadBuffer` -/
structure Thread where
  parked : List Cb := []
deriving DecidableEq, Repr, Inhabited

inductive BufMode where
  /-- `std::vector<...> pending;` declared inside the loop body (the code) -/
  | localBatch
  /-- `thread_local std::vector<...> pending;` + `pending.clear()` after the batch (seeded defect s55) -/
  | threadBuffer
deriving DecidableEq, Repr, Inhabited

namespace Exec

def queue (st : Exec) (before : Bool) : List Cb := if before then st.before else st.after

def setQueue (st : Exec) (before : Bool) (q : List Cb) : Exec :=
  if before then { st with before := q } else { st with after := q }

/-- `add_evaluation_notification_impl`: `push_back` on the queue of the callback's kind -/
def push (st : Exec) (cb : Cb) : Exec :=
  if cb.lbl.before then { st with before := st.before ++ [cb] } else { st with after := st.after ++ [cb] }

def emit (st : Exec) (e : Ev) : Exec := { st with log := st.log ++ [e] }

end Exec

/-- the hooks' registrations: closures over the recipe table `env` -/
def pushAll (env : Defs) (st : Exec) : List Lbl → Exec
  | [] => st
  | l :: rest => pushAll env (st.push ⟨l, env⟩) rest

/-- user code running over the table `env`: the actions in order; a `throw` logs `thrown` and ends it with `who` -/
def runActs (env : Defs) (who : Err) (thrown : Ev) : List Act → Exec → Exec × Option Err
  | [], st => (st, none)
  | .reg l :: rest, st => runActs env who thrown rest (st.push ⟨l, env⟩)
  | .throw :: _, st => (st.emit thrown, some who)

def actsOf (defs : Defs) (id : Nat) : List Act := (defs.lookup id).getD []

/-- one callback: logs its label, then executes the actions its own table gives for its id -/
def fire (cb : Cb) (st : Exec) : Exec × Option Err :=
  runActs cb.env (.note cb.lbl) .noteThrow (actsOf cb.env cb.lbl.id) (st.emit (.fire cb.lbl))

/-- `for (auto &fn : pending) fn();` - the first exception ends the batch -/
def runBatch : List Cb → Exec → Exec × Option Err
  | [], st => (st, none)
  | cb :: rest, st =>
    match fire cb st with
    | (st', some e) => (st', some e)
    | (st', none) => runBatch rest st'

/-- content of `pending` when the loop body is entered -/
def pendingInit : BufMode → Thread → List Cb
  | .localBatch, _ => []
  | .threadBuffer, th => th.parked

/-- the thread after a callback of batch `q` threw (the loop is left by the exception) -/
def parkOnThrow : BufMode → Thread → List Cb → Thread
  | .localBatch, th, _ => th
  | .threadBuffer, _, q => { parked := q }

/-- the thread after a batch ran to its end -/
def parkOnDone : BufMode → Thread → Thread
  | .localBatch, th => th
  | .threadBuffer, _ => { parked := [] }

/-- iteration order of a batch: before = front to back, after = `rbegin .. rend` -/
def batchOrder (before : Bool) (q : List Cb) : List Cb := if before then q else q.reverse

/-- `drain_evaluation_notifications(queue, before)`; `fuel` bounds the number of batches -/
def drain (m : BufMode) (before : Bool) :
    Nat → Thread → Exec → Thread × Exec × Option Err
  | 0, th, st => if (st.queue before).isEmpty then (th, st, none) else (th, st, some .loop)
  | fuel + 1, th, st =>
    match st.queue before with
    | [] => (th, st, none)
    | c :: cs =>
      -- pending.swap(queue)
      let st1 := st.setQueue before (pendingInit m th)
      match runBatch (batchOrder before (c :: cs)) st1 with
      | (st2, some e) => (parkOnThrow m th (c :: cs), st2, some e)
      | (st2, none) => drain m before fuel (parkOnDone m th) st2

/-- batches per drain the model driver allows; ids are < 32 and children have larger ids, so 33 would do -/
def drainFuel : Nat := 64

/-- first failure of two best-effort steps (`FirstExceptionRecorder`) -/
def firstErr : Option Err → Option Err → Option Err
  | some e, _ => some e
  | none, e => e

/-- `stop_storage`: `graph.stop()` (the noter's stop hook registers `stopRegs`), then the after queue, then the
before queue, both always attempted -/
def stopPhase (m : BufMode) (r : Recipe) (th : Thread) (st : Exec) : Thread × Exec × Option Err :=
  let st := pushAll r.defs (st.emit .stop) r.stopRegs
  match drain m false drainFuel th st with
  | (th1, st1, e1) =>
    match drain m true drainFuel th1 st1 with
    | (th2, st2, e2) => (th2, st2, firstErr e1 e2)

/-- a root cycle: its time and, when the source ticks in it, the noter's actions (`none`: only the source ran) -/
structure Cycle where
  time : Nat
  acts : Option (List Act)
deriving DecidableEq, Repr, Inhabited

/-- the source is scheduled on start: there is a cycle at t = 1 even when the first tick is later -/
def cyclesOf (r : Recipe) : List Cycle :=
  let cs := r.ticks.map fun k => { time := k.time, acts := some k.acts : Cycle }
  match r.ticks with
  | [] => [{ time := 1, acts := none }]
  | k :: _ => if k.time = 1 then cs else { time := 1, acts := none } :: cs

/-- the cycles of `run_storage`; `some e` = the run is failing with `e` (the stop phase follows either way) -/
def runCycles (m : BufMode) (r : Recipe) : List Cycle → Thread → Exec → Thread × Exec × Option Err
  | [], th, st => (th, st, none)
  | c :: rest, th, st =>
    match drain m true drainFuel th st with
    | (th1, st1, some e) => (th1, st1, some e)
    | (th1, st1, none) =>
      match c.acts with
      | none =>
        match drain m false drainFuel th1 st1 with
        | (th2, st2, some e) => (th2, st2, some e)
        | (th2, st2, none) => runCycles m r rest th2 st2
      | some acts =>
        match runActs r.defs (.node c.time) .nodeThrow acts (st1.emit (.eval c.time)) with
        | (st2, some e) =>
          -- the `drain_after` unwind guard: the after queue still runs, its own failure is swallowed
          match drain m false drainFuel th1 st2 with
          | (th3, st3, _) => (th3, st3, some e)
        | (st2, none) =>
          match drain m false drainFuel th1 (st2.emit (.sink c.time (r.base + c.time))) with
          | (th3, st3, some e) => (th3, st3, some e)
          | (th3, st3, none) => runCycles m r rest th3 st3

structure Trace where
  log : List Ev
  result : Option Err
deriving DecidableEq, Repr, Inhabited

/-- one run: a fresh executor (`make_executor`), `run()`, executor destroyed.  Returns the thread as the run left it. -/
def runExec (m : BufMode) (r : Recipe) (th : Thread) : Thread × Trace :=
  let st0 := pushAll r.defs (({ } : Exec).emit .start) r.startRegs
  match runCycles m r (cyclesOf r) th st0 with
  | (th1, st1, e) =>
    match stopPhase m r th1 st1 with
    | (th2, st2, es) =>
      (th2, { log := st2.log, result := match e with | some e => some e | none => es })

/-- the history-free reference: the recipe alone, on a thread that has never run anything -/
def runAlone (r : Recipe) : Trace := (runExec .localBatch r { }).2

structure Step where
  /-- the run happens on a `std::thread` created for it and joined after it -/
  freshThread : Bool := false
  recipe : Recipe
deriving DecidableEq, Repr, Inhabited

/-- runs one after the other; `th` is the driver's main thread -/
def runSeq (m : BufMode) : List Step → Thread → List Trace
  | [], _ => []
  | s :: rest, th =>
    if s.freshThread then (runExec m s.recipe { }).2 :: runSeq m rest th
    else
      match runExec m s.recipe th with
      | (th', tr) => tr :: runSeq m rest th'

/-- callbacks fired, in order -/
def fires : List Ev → List Lbl
  | [] => []
  | .fire l :: rest => l :: fires rest
  | _ :: rest => fires rest

end HgVerif.Notify
