import HgVerif.Model.Sched
/-
A flat dataflow program over an arbitrary per-node state type, run by the generic scan of
`Model/Sched.lean` under an arbitrary rank (assignment of nodes to positions), and its slot-free
sequential reading `denSeq`.  Used to show that the observable result of a cycle depends on the
dataflow only, not on the rank (C06) — `Props/C06Den.lean`.  Core Lean only.
-/
namespace HgVerif.Flow
open HgVerif.Sched

structure Flow (S : Type) where
  n : Nat
  /-- active producers of node `i` (node ids): a write of one of them schedules `i` -/
  prods : Nat → List Nat
  /-- every node whose output `i` may READ: the active producers and the passive ones -/
  reads : Nat → List Nat
  /-- node `i`'s user code: reads the global state (frame condition: only what `reads` lists and itself),
      returns its new own state and whether it wrote its output -/
  f : Nat → (Nat → S) → Time → S × Bool
  /-- future wake-ups the node asks for itself -/
  selfReq : Nat → S → Time → List Time

def upd {S : Type} (σ : Nat → S) (i : Nat) (s : S) : Nat → S := fun j => if j = i then s else σ j

/-- a rank: position `k` holds node `node k`; `posOf` is its inverse on `[0, n)` -/
structure Rank (n : Nat) where
  node : Nat → Nat
  posOf : Nat → Nat
  left : ∀ k, k < n → posOf (node k) = k ∧ node k < n
  right : ∀ i, i < n → node (posOf i) = i ∧ posOf i < n

def consumers {S : Type} (F : Flow S) (i : Nat) : List Nat := (List.range F.n).filter (fun c => decide (i ∈ F.prods c))

/-- the behaviour of position `k` under rank `ρ`: run the node, notify its consumers for this cycle
    if it wrote, re-arm itself for the future -/
def beh {S : Type} (F : Flow S) (ρ : Rank F.n) : Beh (Nat → S) :=
  ⟨fun k t σ =>
    let i := ρ.node k
    let r := F.f i σ t
    { st := upd σ i r.1,
      reqs := (if r.2 then (consumers F i).map (fun c => (⟨ρ.posOf c, t⟩ : Req)) else []) ++
              (F.selfReq i r.1 t).map (fun T => (⟨k, T⟩ : Req)) }⟩

/-- the slot-free reading along the rank: a node fires iff it was due or one of its active producers
    fired and wrote earlier in this cycle.  Returns the state, the nodes that wrote, the positions fired -/
def denSeq {S : Type} (F : Flow S) (ρ : Rank F.n) (t : Time) (due : Nat → Bool) :
    Nat → Nat → (Nat → S) → List Nat → List Nat → (Nat → S) × List Nat × List Nat
  | 0, _, σ, w, ev => (σ, w, ev)
  | fuel + 1, k, σ, w, ev =>
    let i := ρ.node k
    if due i || (F.prods i).any (fun p => w.contains p) then
      let r := F.f i σ t
      denSeq F ρ t due fuel (k + 1) (upd σ i r.1) (if r.2 then i :: w else w) (ev ++ [k])
    else denSeq F ρ t due fuel (k + 1) σ w ev

end HgVerif.Flow
