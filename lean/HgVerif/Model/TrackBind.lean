/-!
# The target link of a `TSInput` through binds, sampled binds, re-binds and unbinds (C04, stream `track-bind`)

Model of `src/hgraph/types/time_series/ts_input/target_link.cpp` (`TSInputTargetLinkStorage::bind_impl`,
`unbind`, `detach_target`, `record_target_modified`, the `StructuralTransition` of TSS / TSD links) and of the
reads in `ts_input/base_view.cpp` (`InputDataCursor::modified / last_modified_time`, `TSInputView::valid`,
`sampled_structural_transition`, `input_data_view`), `set_view.cpp`, `dict_view.cpp` and the collection wrappers of
`target_link_ops.cpp` (`target_link_set_slot_added`, `target_link_set_removed_range`,
`target_link_previous_slot_was_published`, `target_link_dict_slot_modified`, ...).

Times are `Nat` microseconds, `MIN_DT = 0`.  The producers are abstract: output `o` carries the root record
`L o` and (TSD) one child record `C o key` per key.  Everything the proofs talk about is in the first part (the
link machine); the second part (`Coll`, `cAdded`, ...) is the executable description of the delta views that the
model driver prints next to the flags.
-/
namespace HgVerif.TrackBind

/-- `TSDataTracking::record_modified`: coalesces repeats, never rewinds -/
def record (k t : Nat) : Nat := if t ≤ k then k else t

/-- the producers' tracking records: root of output `o`, TSD child `key` of output `o` (`0` = never written) -/
structure Prod where
  L : Nat → Nat
  C : Nat → Int → Nat

def Prod.init : Prod := ⟨fun _ => 0, fun _ _ => 0⟩

/-- `TSInputTargetLinkStorage` (+ the `StructuralTransition` of a TSS / TSD link) -/
structure Link where
  /-- `state_.target` -/
  tgt : Option Nat := none
  /-- the link's own `tracking.last_modified_time` -/
  k : Nat := 0
  /-- `StructuralTransition::modified_time` (`MIN_DT` when cleared / absent) -/
  tt : Nat := 0
  /-- `StructuralTransition::sampled_current` -/
  ts : Bool := false
  /-- `StructuralTransition::previous_target` -/
  prev : Option Nat := none
deriving DecidableEq, Repr, Inhabited

/-- `StructuralTransition::clear` (a no-op table for non-structural links: their fields never leave the defaults) -/
def Link.clear (ln : Link) : Link := { ln with tt := 0, ts := false, prev := none }

/-- `structural_transition_active`: `modified_time != MIN_DT && owner.tracking.last_modified_time == modified_time`
(LAZILY expired: it ends when the link's own record moves on) -/
def Link.active (ln : Link) : Prop := ln.tt ≠ 0 ∧ ln.k = ln.tt

/-- `sampled_structural_transition` -/
def Link.sampled (ln : Link) : Prop := ln.active ∧ ln.ts = true

instance (ln : Link) : Decidable ln.active := by unfold Link.active; exact inferInstance
instance (ln : Link) : Decidable ln.sampled := by unfold Link.sampled; exact inferInstance

/-- what happens to the producers and to one link -/
inductive Ev where
  /-- a mutation call on output `o` at `t` (root `record_modified(t)`: a write, and every set / dict `add`, `remove`,
  `set`, `erase` - a non-changing one still touches the collection); `c = some key`: that TSD child is written -/
  | tick (o : Nat) (c : Option Int) (t : Nat)
  /-- `bind_output` (`sampled = false`) / `bind_output_sampled(·, t)` of this input to output `o` in cycle `t`, bound or
  not before; `pp` = what `has_published_structural_state(previous target, t)` answers at that moment -/
  | bind (o t : Nat) (sampled pp : Bool)
  /-- `unbind_output` -/
  | unbind (t : Nat)
deriving Repr

def Ev.time : Ev → Nat
  | .tick _ _ t => t
  | .bind _ t _ _ => t
  | .unbind t => t

/-- a (re)bind or unbind of THIS input -/
def Ev.isBind : Ev → Bool
  | .tick .. => false
  | _ => true

def stepP (P : Prod) : Ev → Prod
  | .tick o c t =>
    { L := fun x => if x = o then record (P.L o) t else P.L x
      C := fun x key => match c with
        | some c' => if x = o ∧ key = c' then record (P.C o c') t else P.C x key
        | none => P.C x key }
  | _ => P

/-- `TSInputTargetLinkStorage::bind_impl(schema, output, modified_time, sampled, replay_source_time = !sampled)`;
`structural` = the link of a TSS / TSD input (`structural_ops_->supports_structural`) -/
def bindImpl (structural : Bool) (P : Prod) (o t : Nat) (sampled pp : Bool) (ln : Link) : Link :=
  let mt := if sampled then t else 0
  let prevValid : Bool := sampled && (match ln.tgt with | some p => P.L p != 0 | none => false)
  let prevPub : Bool := sampled && structural && (match ln.tgt with | some _ => pp | none => false)
  -- `if (state_.target.bound()) detach_target(sampled && structural, modified_time); else if (...) clear_transition`
  let ln1 : Link :=
    match ln.tgt with
    | some p =>
      if structural then
        (if sampled then { ln with prev := some p, tt := mt, ts := false } else ln.clear)
      else ln
    | none => if (!sampled || ln.tt != mt) && structural then ln.clear else ln
  let ln2 : Link := { ln1 with tgt := some o }
  -- `if (replay_source_time && target.last_modified_time() != MIN_DT) record_target_modified(that time)`
  let ln3 : Link := if !sampled && P.L o != 0 then { ln2 with k := record ln2.k (P.L o) } else ln2
  let publish : Bool := sampled && (P.L o != 0 || prevValid || prevPub)
  if publish then
    (if structural then { ln3 with tt := mt, ts := true, k := record ln3.k mt } else { ln3 with k := record ln3.k mt })
  else if sampled && structural then ln3.clear
  else ln3

def stepL (structural : Bool) (P : Prod) (ln : Link) : Ev → Link
  -- `TSInputTargetLinkState::notify -> record_target_modified`: the target root's observers are told when its
  -- `record_modified` succeeds
  | .tick o _ t => if ln.tgt = some o ∧ P.L o < t then { ln with k := record ln.k t } else ln
  | .bind o t s pp => bindImpl structural P o t s pp ln
  -- `unbind() = detach_target(false, MIN_DT)`: transition cleared, the link's own record is KEPT
  | .unbind _ => { (if structural then ln.clear else ln) with tgt := none }

/-- one event on the producers and the link (the link step reads the producers BEFORE the event) -/
def step (structural : Bool) (s : Prod × Link) (e : Ev) : Prod × Link := (stepP s.1 e, stepL structural s.1 s.2 e)

def run (structural : Bool) (evs : List Ev) (s : Prod × Link) : Prod × Link := evs.foldl (step structural) s

/-- ghost: the time of the last (re)bind / unbind of this input -/
def lastBind (bt : Nat) : List Ev → Nat
  | [] => bt
  | e :: es => lastBind (if e.isBind then e.time else bt) es

/-- positive, non-decreasing event times starting at `now` -/
def Mono : Nat → List Ev → Prop
  | _, [] => True
  | now, e :: es => now ≤ e.time ∧ 0 < e.time ∧ Mono e.time es

def endTime : Nat → List Ev → Nat
  | now, [] => now
  | _, e :: es => endTime e.time es

/-! ## what the producer and the consumer read in cycle `t` -/

def pValid (P : Prod) (o : Nat) : Prop := P.L o ≠ 0
def pModified (P : Prod) (o t : Nat) : Prop := t ≠ 0 ∧ P.L o = t
def pChildModified (P : Prod) (o : Nat) (key : Int) (t : Nat) : Prop := t ≠ 0 ∧ P.C o key = t

/-- `InputDataCursor::modified(t)` at the target root:
`!data.valid() -> raw.modified(t)`; else `raw.modified(t) || (sampled_structural_transition() && transition_time == t)
|| data.modified(t)` -/
def cModified (P : Prod) (ln : Link) (t : Nat) : Prop :=
  t ≠ 0 ∧
    match ln.tgt with
    | none => ln.k = t
    | some o => ln.k = t ∨ (ln.sampled ∧ ln.tt = t) ∨ P.L o = t

/-- `InputDataCursor::modified(t)` of a TSD child reached through the root link (not a target root) -/
def cChildModified (P : Prod) (ln : Link) (key : Int) (t : Nat) : Prop :=
  t ≠ 0 ∧
    match ln.tgt with
    | none => False
    | some o => (ln.sampled ∧ ln.tt = t) ∨ P.C o key = t

/-- `InputDataCursor::last_modified_time`: `raw` when unbound, `max(raw, data)` at a bound root -/
def cLmt (P : Prod) (ln : Link) : Nat :=
  match ln.tgt with
  | none => ln.k
  | some o => max ln.k (P.L o)

/-- `TSInputView::valid`: `data.valid() && data.has_current_value()` -/
def cValid (P : Prod) (ln : Link) : Prop :=
  match ln.tgt with
  | none => False
  | some o => P.L o ≠ 0

instance (P : Prod) (o : Nat) : Decidable (pValid P o) := by unfold pValid; exact inferInstance
instance (P : Prod) (o t : Nat) : Decidable (pModified P o t) := by unfold pModified; exact inferInstance
instance (P : Prod) (o : Nat) (key : Int) (t : Nat) : Decidable (pChildModified P o key t) := by
  unfold pChildModified; exact inferInstance
instance (P : Prod) (ln : Link) (t : Nat) : Decidable (cModified P ln t) := by
  unfold cModified; cases ln.tgt <;> exact inferInstance
instance (P : Prod) (ln : Link) (key : Int) (t : Nat) : Decidable (cChildModified P ln key t) := by
  unfold cChildModified; cases ln.tgt <;> exact inferInstance
instance (P : Prod) (ln : Link) : Decidable (cValid P ln) := by
  unfold cValid; cases ln.tgt <;> exact inferInstance

/-! ## the keyed collections behind the dumps (executable only)

`TSSSlotStorage` / `TSDSlotStorage` as far as the views read them: the live keys, the raw per-window marks
(`added_`, `removed_` = pending-erase slots, `modified_`) and the window time `delta_time_`.  `prepare_delta`
rolls the window on ANY mutation call with a newer time, changing or not. -/

structure Coll where
  cur : List Int := []
  add : List Int := []
  rem : List Int := []
  md : List Int := []
  dt : Nat := 0
deriving Repr, Inhabited

def Coll.prepare (c : Coll) (t : Nat) : Coll :=
  if t ≤ c.dt then c else { c with add := [], rem := [], md := [], dt := t }

/-- `insert_key`: result = changed -/
def Coll.insert (c : Coll) (e : Int) (t : Nat) : Coll × Bool :=
  let c := c.prepare t
  if c.cur.contains e then (c, false)
  else if c.rem.contains e then ({ c with cur := c.cur ++ [e], rem := c.rem.filter (· != e) }, true)
  else ({ c with cur := c.cur ++ [e], add := c.add ++ [e] }, true)

/-- `remove_key`: result = changed -/
def Coll.remove (c : Coll) (e : Int) (t : Nat) : Coll × Bool :=
  let c := c.prepare t
  if !c.cur.contains e then (c, false)
  else if c.add.contains e then
    ({ c with cur := c.cur.filter (· != e), add := c.add.filter (· != e), md := c.md.filter (· != e) }, true)
  else ({ c with cur := c.cur.filter (· != e), rem := c.rem ++ [e], md := c.md.filter (· != e) }, true)

/-- `record_child_modified` / `restore_modified_mark` of a published child -/
def Coll.markModified (c : Coll) (e : Int) (t : Nat) : Coll :=
  let c := c.prepare t
  if c.md.contains e then c else { c with md := c.md ++ [e] }

/-- the keys of the previous target that the consumer had seen before the transition cycle `tt`
(`target_link_previous_slot_was_published`; `Lp` = the previous target's root record now) -/
def prevPublished (p : Coll) (Lp tt : Nat) : List Int :=
  if Lp = tt then p.cur.filter (fun e => !p.add.contains e) ++ p.rem else p.cur

/-- the previous target the collection wrappers look at: `target_link_previous_view` -/
def Link.prevView (ln : Link) : Option Nat := if ln.active then ln.prev else none

/-- `input_data_view()` at the root hands out the link wrapper (not the resolved target) in the transition cycle -/
def Link.useRaw (ln : Link) (t : Nat) : Prop := ln.tt = t
instance (ln : Link) (t : Nat) : Decidable (ln.useRaw t) := by unfold Link.useRaw; exact inferInstance

/-- `added()` of the key set the consumer is handed (before the `modified()` / `structure_modified()` gate) -/
def rawAdded (ln : Link) (t : Nat) (tgt : Coll) (pub : List Int) : List Int :=
  if ln.useRaw t ∧ ln.sampled then tgt.cur.filter (fun e => !pub.contains e) else tgt.add

/-- `removed()` of the key set the consumer is handed (`target_link_set_removed_range`) -/
def rawRemoved (ln : Link) (t : Nat) (tgt : Coll) (pub : Option (List Int)) : List Int :=
  if ln.useRaw t then
    match pub with
    | some pb => pb.filter (fun e => !tgt.cur.contains e)
    | none => if ln.active then [] else tgt.rem
  else tgt.rem

end HgVerif.TrackBind
