import HgVerif.Model.TrackBind
/-!
# The key-set endpoint of a dictionary (C04, streams `track-bind`: schemas `tsd`, `tsdn`)

`TSDOutputView::key_set()` is an endpoint of its own: `TSDSlotStorage::key_set_tracking_` is a second tracking
record next to the dictionary's, with its own observers (a TSS input bound to the key set subscribes there).
Model of who stamps it, as coded at HEAD:

* `insert_key` of a NEW key and `remove_key` of a LIVE key (`ts_data_slot_ops.cpp`):
  `key_set_tracking_.record_modified(modified_time)`; the mutation view then marks the dictionary modified
  (`apply_slot_mutation_result`).
* `TSDDataMutationView::touch()` (`ts_data/dict_view.cpp`; the end of `apply_delta_tsd`, the start of
  `copy_value_from`, and what nodes call to publish an empty dictionary): `touch_impl -> mark_modified` on the
  dictionary, then `if (key_set().last_modified_time() == MIN_DT) record_modified(t)` on the key set - the
  "empty first tick" rule.
* `TSDDataMutationView::erase` of an ABSENT key: `remove_key` changes nothing, then `touch()` (repaired in /repo
  8d7f72a; before that it was `touch_impl -> mark_modified` on the dictionary only, so a blind erase as the very
  first write validated the dictionary and not its key set - `stampsPreFix` keeps that rule as a counter-witness).
  `clear()` = `touch()`, then `erase` of every live key (`clearPrims`).
* a child write reaches the dictionary through `record_child_modified` / the parent link: the dictionary only.
* `apply_delta` of an empty delta: `delta_has_effect_tsd = !out.valid()`, then `touch()`.
-/
namespace HgVerif.KeySet
open HgVerif.TrackBind (record)

/-- the two tracking records of one dictionary and its live keys -/
structure DK where
  d : Nat := 0
  k : Nat := 0
  keys : List Int := []
deriving Repr, Inhabited, DecidableEq

/-- the primitive steps every dictionary mutation is made of (`set key v` = `at key`, then `childTick key`;
`copy_value_from m` = `touch`, `set` for every item, `erase` for every other live key) -/
inductive Prim where
  /-- `TSDDataMutationView::at(key)`: `insert_key` -/
  | at (key : Int)
  /-- the child of `key` is written (there is a child only under a live key: nothing happens otherwise) -/
  | childTick (key : Int)
  /-- `TSDDataMutationView::erase(key)` -/
  | erase (key : Int)
  /-- `TSDDataMutationView::touch()` -/
  | touch
  /-- `apply_delta` of an empty delta -/
  | emptyDelta
deriving Repr, DecidableEq

/-- `key_set_tracking_.record_modified(t)` is called -/
def stamps (s : DK) : Prim → Bool
  | .at key => !s.keys.contains key
  | .childTick _ => false
  | .erase key => s.keys.contains key || s.k == 0
  | .touch => s.k == 0
  | .emptyDelta => s.d == 0 && s.k == 0

/-- the rule before /repo 8d7f72a: an erase of an absent key never looked at the key set -/
def stampsPreFix (s : DK) : Prim → Bool
  | .erase key => s.keys.contains key
  | p => stamps s p

/-- the dictionary's own record is stamped (`mark_modified`) -/
def ticks (s : DK) : Prim → Bool
  | .at key => !s.keys.contains key
  | .childTick key => s.keys.contains key
  | .erase _ => true
  | .touch => true
  | .emptyDelta => s.d == 0

def keysAfter (s : DK) : Prim → List Int
  | .at key => if s.keys.contains key then s.keys else s.keys ++ [key]
  | .erase key => s.keys.filter (· != key)
  | _ => s.keys

def dkStep (s : DK) (p : Prim) (t : Nat) : DK :=
  { d := if ticks s p then record s.d t else s.d
    k := if stamps s p then record s.k t else s.k
    keys := keysAfter s p }

def dkRun (h : List (Prim × Nat)) (s : DK) : DK := h.foldl (fun s x => dkStep s x.1 x.2) s

/-- the membership changes -/
def changed (s : DK) : Prim → Bool
  | .at key => !s.keys.contains key
  | .erase key => s.keys.contains key
  | _ => false

/-- positive non-decreasing times -/
def MonoK : Nat → List (Prim × Nat) → Prop
  | _, [] => True
  | now, x :: xs => now ≤ x.2 ∧ 0 < x.2 ∧ MonoK x.2 xs

def endTimeK : Nat → List (Prim × Nat) → Nat
  | now, [] => now
  | _, x :: xs => endTimeK x.2 xs

/-- the tidy reading: the key set is written iff the dictionary is written and (the membership changes or the key
set has never been valid) -/
def specStamps (s : DK) (p : Prim) : Bool := ticks s p && (changed s p || s.k == 0)

/-- the seeded change s64: `touch()` tests the DICTIONARY's record after `mark_modified()` stamped it - dead -/
def stampsSeeded (s : DK) : Prim → Bool
  | .touch => false
  | .emptyDelta => false
  | .erase key => s.keys.contains key      -- the absent-key erase goes through the dead `touch()` too
  | p => stamps s p

def dkStepPreFix (s : DK) (p : Prim) (t : Nat) : DK :=
  { d := if ticks s p then record s.d t else s.d
    k := if stampsPreFix s p then record s.k t else s.k
    keys := keysAfter s p }

/-- `TSDDataMutationView::clear()`: `touch()`, then `erase` of every live key -/
def clearPrims (s : DK) : List Prim := .touch :: s.keys.map .erase

def dkStepSeeded (s : DK) (p : Prim) (t : Nat) : DK :=
  { d := if ticks s p then record s.d t else s.d
    k := if stampsSeeded s p then record s.k t else s.k
    keys := keysAfter s p }

/-- the TrackBind events of one step: output `o` is the dictionary, endpoint `ko` its key set -/
def evsOf (o ko : Nat) (s : DK) (p : Prim) (t : Nat) : List TrackBind.Ev :=
  (if ticks s p then [TrackBind.Ev.tick o none t] else []) ++ (if stamps s p then [TrackBind.Ev.tick ko none t] else [])

def evsRun (o ko : Nat) : DK → List (Prim × Nat) → List TrackBind.Ev
  | _, [] => []
  | s, x :: xs => evsOf o ko s x.1 x.2 ++ evsRun o ko (dkStep s x.1 x.2) xs

end HgVerif.KeySet
