import HgVerif.Model.RefLink
/-
C13 — CHAINED references: a tree of selection operators (`if_then_else_impl` / `if_cmp_impl`,
`lib/std/operators/impl/control_impl.h`) whose branches are targets or the REF outputs of other
selection operators (or such a REF handed through a `nested_` graph).

Nothing new is modelled below the root: the root's published reference is fed to the `select` step of
`Model/RefLink.lean` (the from-REF dereference with its per-consumer links) exactly like the selector
of the flat model - the flat graphs are the trees `ite 0 _ (leaf 0) (leaf 1)` / `cmp 0 _ (leaf 0) (leaf 1)
(leaf 2)`.  What is new is ONE more copy of the operator's `eval` per inner node (`nodeStep`), as the code
has it:

```
const TSInputView &selected = condition.value() ? true_value.base() : false_value.base();
if (!(condition.modified() || selected.modified())) { return; }      -- guard
if (!selected.valid()) { return; }                                    -- branch has no reference yet
auto reference = selected.value();
if (out.valid() && out.value() == reference) { return; }              -- same-reference de-duplication
out := reference                                                      -- the REF output ticks
```

* The node is only evaluated while its condition is valid (`In<"condition", TS<Bool>>` has the default
  validity gate); the branches are `InputValidity::Unchecked`.
* `selected.modified()` of a branch that is another operator's REF output: that output ticked in this
  cycle.  A branch wired to a plain output is a constant reference to that output (always valid, never
  modified after the bind) - `leaf`.
* Odd on purpose, because the code is (and hgraph's Python `if_then_else` is too): when the selected branch
  has not published a reference yet, the node returns early and KEEPS the reference it published before -
  it does not become unset.  `Props/C13Chain.lean` states this (`chain_out_spec`, `staleExample`).
* Evaluation order: every branch is ranked before the node that reads it (C01), so a cycle is one
  bottom-up pass.

The state of a node (`SelNode`) is stored in the tree itself, so that a step is a structural recursion and
needs no side table; `id` only names the replayed selector of the node in the cycle input.
-/
namespace HgVerif.RefLink

/-- per-node state of a selection operator -/
structure SelNode where
  /-- current value of the condition / comparison input as a branch index (`none` = not valid yet) -/
  cond : Option Nat := none
  /-- value of the REF output: the target it designates (`none` = never published) -/
  out : Option Nat := none
  deriving DecidableEq, Repr

inductive Chain where
  /-- a branch wired to a plain output: a constant reference to target `t` -/
  | leaf (t : Nat)
  /-- `if_then_else(cond, l, r)`: branch 0 = `true_value`, branch 1 = `false_value` -/
  | ite (id : Nat) (st : SelNode) (l r : Chain)
  /-- `if_cmp(cmp, a, b, c)`: branch 0 = `lt`, 1 = `eq`, 2 = `gt` -/
  | cmp (id : Nat) (st : SelNode) (a b c : Chain)
  /-- the REF of `k` handed through a `nested_` graph (`Port<REF<S>> compose(w, in) { return in; }`) -/
  | pass (k : Chain)
  deriving Repr

/-- the reference a (sub)tree currently publishes -/
def Chain.out : Chain → Option Nat
  | .leaf t => some t
  | .ite _ st _ _ => st.out
  | .cmp _ st _ _ _ => st.out
  | .pass k => k.out

/-- the selected branch of a list of branch results (an index out of range selects nothing) -/
def pick {α : Type} (b : Nat) (kids : List α) : Option α := kids[b]?

/-- the value of the condition input after this cycle's selector tick (if any) -/
def newCond (n : SelNode) (ctick : Option Nat) : Option Nat :=
  match ctick with
  | some b => some b
  | none => n.cond

/-- ONE evaluation of `if_then_else_impl::eval` / `if_cmp_impl::eval`.
`ctick` = the condition ticked in this cycle with this branch index; `kids` = per branch the reference it
publishes after its own evaluation in this cycle and whether that REF output ticked in this cycle.
Returns the new node state and whether the node's REF output ticked. -/
def nodeStep (n : SelNode) (ctick : Option Nat) (kids : List (Option Nat × Bool)) : SelNode × Bool :=
  match newCond n ctick with
  | none => (n, false)                       -- condition not valid: the node is not evaluated
  | some b =>
    match pick b kids with
    | none => ({ cond := some b, out := n.out }, false)
    | some (ref, refTicked) =>
      if !(ctick.isSome || refTicked) then ({ cond := some b, out := n.out }, false)     -- guard
      else match ref with
        | none => ({ cond := some b, out := n.out }, false)                              -- `!selected.valid()`
        | some r =>
          if n.out = some r then ({ cond := some b, out := n.out }, false)               -- same reference: no tick
          else ({ cond := some b, out := some r }, true)

/-- one engine cycle of the selection tree, bottom-up: the new tree and whether its root REF ticked.
`cin id` = the replayed selector of node `id` in this cycle. -/
def stepChain (cin : Nat → Option Nat) : Chain → Chain × Bool
  | .leaf t => (.leaf t, false)
  | .ite id st l r =>
    let l' := stepChain cin l
    let r' := stepChain cin r
    let x := nodeStep st (cin id) [(l'.1.out, l'.2), (r'.1.out, r'.2)]
    (.ite id x.1 l'.1 r'.1, x.2)
  | .cmp id st a b c =>
    let a' := stepChain cin a
    let b' := stepChain cin b
    let c' := stepChain cin c
    let x := nodeStep st (cin id) [(a'.1.out, a'.2), (b'.1.out, b'.2), (c'.1.out, c'.2)]
    (.cmp id x.1 a'.1 b'.1 c'.1, x.2)
  | .pass k =>
    let k' := stepChain cin k
    (.pass k'.1, k'.2)

/-- the composed system: a selection tree above the dereference of `Model/RefLink.lean` -/
structure CSys where
  chain : Chain
  s : State

structure CIn where
  /-- selector tick per selection node: index of the selected branch -/
  conds : Nat → Option Nat := fun _ => none
  /-- replayed delta per target -/
  ticks : Nat → Option Delta := fun _ => none

/-- what the root of the tree hands to the dereference in this cycle: its new reference when its REF
output ticked, nothing otherwise -/
def rootSel (r : Chain × Bool) : Option Nat := if r.2 then r.1.out else none

/-- one engine cycle of the composed system: targets, then the selection tree, then the `select` step of
the flat model with the root's publication as its selector, then the consumers -/
def cycleC (x : CSys) (inp : CIn) : CSys × List (Nat × View) :=
  let r := stepChain inp.conds x.chain
  let c := cycle x.s { sel := rootSel r, ticks := inp.ticks }
  ({ chain := r.1, s := c.1 }, c.2)

end HgVerif.RefLink
