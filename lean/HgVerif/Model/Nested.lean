import HgVerif.Model.Sched
/-
The scheduling boundary of a nested graph, on top of `Model/Sched.lean`:
`nested_schedule_node_impl` (push: an out-of-band schedule on an idle child, clamped to the parent's
time, also wakes the parent node) and the nested node's evaluation (child `evaluate_impl`, then
`propagate_nested_parent_schedule`: pull).  The executable engine model (`Model/Engine.lean`
`schedAbs` / `graphEvaluate`) follows the same rules over its instance table; this file isolates them
for the invariants of C09.  Core Lean only.
-/
namespace HgVerif.Sched

structure Nest where
  gp : G          -- the parent graph's schedule
  gc : G          -- the child graph's schedule
  k : Nat         -- index of the nested node in the parent

/-- `nested_schedule_node_impl` on a started, idle child -/
def Nest.push (s : Nest) (j : Nat) (w : Time) : Nest :=
  let w' := max w s.gp.now
  let gc1 := scheduleNode s.gc ⟨j, w'⟩
  let gc2 := if olt w' gc1.next then { gc1 with next := some w' } else gc1
  { s with gc := gc2, gp := scheduleNode s.gp ⟨s.k, w'⟩ }

/-- the nested node's evaluation at the parent's time `t`: child cycle, then pull-propagate.
    (The parent's own requests from the child's outputs are not part of this fragment.) -/
def Nest.eval {σ : Type} (fx : Bool) (γ : Beh σ) (m : Nat) (t : Time) (s : Nest) (u : σ) : Nest × σ × Bool :=
  let r := cycle fx γ m t s.gc u
  let gp' := match r.g.next with
    | some nx => if r.ok then scheduleNode s.gp ⟨s.k, nx⟩ else s.gp
    | none => s.gp
  ({ s with gc := r.g, gp := gp' }, r.st, r.ok)

end HgVerif.Sched
