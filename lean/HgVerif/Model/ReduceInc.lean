/-
Model of the INCREMENTAL part of the associative `reduce` runtime node,
`src/hgraph/runtime/reduce_node.cpp`: the cached per-combiner outputs and which of them one engine
cycle refreshes.  It extends `Model/Reduce.lean` (same `Tree`, same `resolveClosed`, `removeKey`,
`addKey`, `rebuild`, `evalStructure`: the structural storage is NOT re-modelled here, `cycleL`/`cycleG`
run `rebuildCall` + `rebuildInfo`, which are `evalReconcile` + `rebuild` with their local variables
exposed — `rebuildInfo_tree`, `rebuildCall_eq` are `rfl`-style bridges in `Lemmas/ReduceInc.lean`).

What is modelled, as the code has it, in the order the code has it (`reduce_evaluate`, not resuming):

1. the upstream ticks of this engine cycle have already been delivered when the node runs: for the
   generic path every combiner child graph whose input is linked to a ticked element output / the
   ticked zero output holds a pending schedule (`sched`);
2. `destroy_previous_generation_before`, `reduce_reconcile`: `structural_leaves.clear()`, the sparse /
   full leaf reconcile (`record_removed_leaf_paths` = BOTH the vacated leaf and the old tail,
   `remove_leaf_at` moving the tail leaf into the hole, appended leaves), `rebuild_structure`:
   capacity rule, bank swap (= every combiner is a fresh one), `structural_positions` (all positions,
   descending, or the sorted unique ancestor paths of the structural leaves), phase 1 (create /
   set aside), phase 2 (generic path only: for the structural positions ASCENDING, re-bind the two
   inputs of every live combiner to `aggregate_output(resolve_aggregate(2p+1 / 2p+2))`; a changed
   source of an existing combiner is a sampled re-bind which schedules it; created combiners are
   started afterwards and scheduled when one of their sources is valid);
3. `prepare_reduce_evaluation_positions`: `full_scan`, the structural positions that hold a combiner,
   the ancestor paths (`append_leaf_path`: ancestors that hold a combiner) of the leaves of the
   modified slots, the zero rule, `materialize_descending`;
4. the evaluation loop over `evaluation_positions` (descending heap index): lifted path
   `evaluate_lifted_combiner` (reads `aggregate_output` of the two child aggregates resolved NOW, writes
   its own output when both are valid); generic path: `child.evaluate` only when the child graph has a
   pending schedule; its node reads the two LINKED sources (`bind`) and its output tick schedules the
   combiners linked to it;
5. the published root: `aggregate_output(root_aggregate)` (the node's output forwards to it).

The difference between the two paths is therefore (a) what an evaluated combiner reads — the current
resolution (lifted) or the links made at the last re-bind of that position (generic) — and (b) that a
generic candidate runs only if something scheduled it.  `Props/C11Inc.lean` proves that the links equal
the current resolution at every live combiner, that no schedule is left pending and that both paths
hold the same cached values.

NOT modelled: `has_future_combiner_schedule` (no combiner of the harness schedules itself; it is the
constant `false`), pause / resume of a combiner (mesh inside the reduce function), re-pointing of the
collection / zero source, the keyed publication snapshot, the validity fine print of
`bind_output_sampled`'s notification (`was_bound || source_valid || valid()`): a changed link of a
started combiner schedules it.

Core Lean only (no Mathlib): the driver runs these definitions.
-/
import HgVerif.Model.Reduce
set_option linter.unusedVariables false

namespace HgVerif.ReduceInc
open HgVerif.Reduce

/-! ## `rebuild_structure` / `reduce_reconcile` with their local variables exposed -/

/-- what `rebuild_structure` leaves behind for the evaluation pass -/
structure Rebuilt (κ : Type) where
  tree : Tree κ
  /-- `bank_changed` -/
  bankChanged : Bool
  /-- `storage.structural_positions` (descending) -/
  positions : List Nat
  /-- `created` (in creation order: descending) -/
  created : List Nat
  /-- `retired` (in phase-1 order: descending) -/
  retired : List Nat

section Structure
variable {κ : Type} [DecidableEq κ]

/-- `rebuild_structure`: the same computation as `Reduce.rebuild` (`rebuildInfo_tree`), keeping
    `bank_changed`, `structural_positions`, `created` and `retired` -/
def rebuildInfo (hasZero : Bool) (now : Nat) (t : Tree κ) (fullStructure : Bool) : Rebuilt κ :=
  let live := t.keys.length
  let minimumCapacity := if hasZero then 2 else 0
  let capacity := max (max t.cap minimumCapacity) (if live > 0 then bitCeil live else 0)
  let bankChanged := capacity != t.cap
  let oldBank := t.bank
  let retiredShape := if bankChanged then t.combiners else []
  let comb0 := if bankChanged then List.replicate (if capacity > 1 then capacity - 1 else 0) false else t.combiners
  let bank := if bankChanged then 1 - t.bank else t.bank
  let full := fullStructure || bankChanged
  let positions := if full then allPositionsDesc comb0.length
                   else structuralPositions capacity comb0.length t.structLeaves
  let ph := positions.foldl (phase1Step hasZero capacity live) { comb := comb0 }
  let prev := t.prev ++ ph.retired.reverse.map (fun p => (bank, p)) ++ (livePositions retiredShape).map (fun p => (oldBank, p))
  { tree := { t with cap := capacity, combiners := ph.comb, bank := bank, prev := prev,
                     prevTime := if prev.isEmpty then t.prevTime else now, published := true }
    bankChanged := bankChanged
    positions := positions
    created := ph.created
    retired := ph.retired }

/-- `reduce_reconcile` up to the decision "call `rebuild_structure(…, full_structure)`": the tree after
    the leaf reconcile and `some full_structure` when the rebuild is called, `none` when it is not
    (`return false`).  Same case analysis as `Reduce.evalReconcile` (`rebuildCall_eq`). -/
def rebuildCall (hasZero : Bool) (t : Tree κ) (available modified : Bool) (removed present : List κ) :
    Tree κ × Option Bool :=
  let fullStructure := !t.published
  if available then
    if !t.primed || modified then
      let r := reconcileLeaves t (!t.primed) removed present
      let fullStructure := fullStructure || !t.primed
      let t1 := { r.1 with primed := true }
      if r.2 || !t1.published then (t1, some fullStructure) else (t1, none)
    else if !t.published then (t, some fullStructure) else (t, none)
  else if t.primed || !t.keys.isEmpty then
    ({ clearLeaves t with primed := false }, some true)
  else if !t.published then (t, some fullStructure) else (t, none)

end Structure

/-! ## the inputs of one evaluation of the node -/

/-- What one evaluation of the reduce node sees.  `removed` / `present` are the arguments of
    `Reduce.evalStructure` (removed keys in removed-slot order; added slots then modified slots of a
    sparse reconcile, every valid element of a full one), `ticked` the keys of the modified slots
    (`append_modified_leaves`), `src` / `zero` the CURRENT values of the element outputs and of the
    zero input (after this cycle's upstream writes). -/
structure CycleIn (κ α : Type) where
  now : Nat := 0
  /-- `collection_ops->available(collection_input)` -/
  available : Bool := true
  /-- `collection_input.modified()` -/
  collEvent : Bool := false
  /-- `root_input.indexed_child_at(1).modified()` (read only with a zero) -/
  zeroEvent : Bool := false
  removed : List κ := []
  present : List κ := []
  ticked : List κ := []
  src : κ → Option α := fun _ => none
  zero : Option α := none

/-! ## evaluation candidates (`prepare_reduce_evaluation_positions`) -/

section Cands
variable {κ : Type} [DecidableEq κ]

/-- `append_modified_leaves`: the dense leaves of the modified slots whose key is a leaf -/
def modifiedLeaves (keys : List κ) (ticked : List κ) : List Nat := ticked.filterMap (leafOf keys)

/-- `append_leaf_path`: the ancestors of a dense leaf that hold a combiner -/
def leafPathLive (cap : Nat) (combiners : List Bool) (leaf : Nat) : List Nat :=
  (pathFrom combiners.length (internalCount cap + leaf)).filter (combLive combiners)

/-- the `SlotBitmap` + `materialize_descending`: a descending duplicate-free list -/
def descSet (ps : List Nat) : List Nat := ps.foldl (fun acc p => insertDesc p acc) []

/-- `full_scan` (`has_future_combiner_schedule` is `false`) -/
def fullScan (hasZero rebuilt collEvent zeroEvent : Bool) : Bool :=
  !rebuilt && !(collEvent || (hasZero && zeroEvent))

/-- `storage.evaluation_positions` after `prepare_reduce_evaluation_positions(…, rebuilt)`;
    `positions = some structural_positions` when this cycle rebuilt -/
def candidates (hasZero : Bool) (t : Tree κ) (positions : Option (List Nat))
    (available collEvent zeroEvent : Bool) (ticked : List κ) : List Nat :=
  if fullScan hasZero positions.isSome collEvent zeroEvent then
    (allPositionsDesc t.combiners.length).filter (combLive t.combiners)
  else
    let c1 := match positions with
      | some sp => sp.filter (fun p => decide (p < t.combiners.length) && combLive t.combiners p)
      | none => []
    let c2 := if collEvent && available then
        (modifiedLeaves t.keys ticked).foldl (fun acc leaf => acc ++ leafPathLive t.cap t.combiners leaf) []
      else []
    let c3 := if hasZero && zeroEvent && t.keys.length == 1 && !t.combiners.isEmpty && combLive t.combiners 0
      then [0] else []
    descSet (c1 ++ c2 ++ c3)

end Cands

/-! ## the structural part of one evaluation and its candidate list -/

/-- the path-independent part of one evaluation: the tree after `reduce_reconcile`, what
    `rebuild_structure` did (`none`: not called), and `evaluation_positions` -/
structure Plan (κ : Type) where
  tree : Tree κ
  rb : Option (Rebuilt κ)
  cands : List Nat

section PlanDef
variable {κ α : Type} [DecidableEq κ]

/-- The shape of `reduce_evaluate` up to the evaluation loop, with the two rules under test as
    parameters — `call`: the leaf reconcile and the decision to rebuild (`rebuildCall`), `cand`:
    `prepare_reduce_evaluation_positions` (`candidates`).  The code is `plan`; the counter-witnesses of
    `Props/C11Inc.lean` instantiate the parameters with the seeded rules. -/
def planWith (call : Tree κ → Bool → Bool → List κ → List κ → Tree κ × Option Bool)
    (cand : Tree κ → Option (List Nat) → Bool → Bool → Bool → List κ → List Nat)
    (hasZero : Bool) (told : Tree κ) (i : CycleIn κ α) : Plan κ :=
  let t0 : Tree κ := { destroyPrevBefore i.now told with structLeaves := [] }
  let call := call t0 i.available i.collEvent i.removed i.present
  let rb := call.2.map (rebuildInfo hasZero i.now call.1)
  let t' := match rb with | some r => r.tree | none => call.1
  { tree := t'
    rb := rb
    cands := cand t' (rb.map (·.positions)) i.available i.collEvent i.zeroEvent i.ticked }

/-- `destroy_previous_generation_before`, `reduce_reconcile`, `prepare_reduce_evaluation_positions` -/
def plan (hasZero : Bool) (told : Tree κ) (i : CycleIn κ α) : Plan κ :=
  planWith (rebuildCall hasZero) (candidates hasZero) hasZero told i

/-- the combiners set aside by the cycle (`retired`; on a bank swap every combiner of the old bank) -/
def retiredOf (told : Tree κ) (rb : Option (Rebuilt κ)) : List Nat :=
  match rb with
  | some r => if r.bankChanged then livePositions told.combiners else r.retired
  | none => []

end PlanDef

/-! ## cached combiner outputs: the lifted path -/

section Lifted
variable {α : Type}

/-- `aggregate_output(aggregate).value()` with the combiner outputs read from the cache
    (`entry->output`): `none` = not valid -/
def aggVal (cache : List (Option α)) (zero : Option α) (lv : Nat → Option α) : Agg → Option α
  | .empty => zero
  | .leaf i => lv i
  | .node q => (cache[q]?).getD none

/-- one iteration of the evaluation loop on the lifted path (`entry == nullptr` -> `continue`;
    `evaluate_lifted_combiner`: both sides valid -> write `kernel(left, right)` into the own output,
    otherwise leave the output as it is) -/
def evalL (f : α → α → α) (zero : Option α) (cap n : Nat) (live : Nat → Bool) (lv : Nat → Option α)
    (cache : List (Option α)) (p : Nat) : List (Option α) :=
  if live p then
    match aggVal cache zero lv (resolveClosed cap n (2 * p + 1)),
          aggVal cache zero lv (resolveClosed cap n (2 * p + 2)) with
    | some a, some b => cache.set p (some (f a b))
    | _, _ => cache
  else cache

/-- outputs of combiners that no longer exist / exist afresh -/
def clearAt (cache : List (Option α)) (ps : List Nat) : List (Option α) :=
  ps.foldl (fun c p => c.set p none) cache

end Lifted

/-- the combiner outputs after `rebuild_structure`: a bank swap builds every combiner afresh; otherwise
    the created ones are fresh (no value) and the retired ones are gone -/
def cacheAfterRebuild {κ α : Type} (cache : List (Option α)) (r : Rebuilt κ) : List (Option α) :=
  if r.bankChanged then List.replicate r.tree.combiners.length none
  else clearAt (clearAt cache r.retired) r.created

/-- the node state: the structural storage of `Model/Reduce.lean` plus the cached output of every
    combiner (index = heap position; `none`: no combiner there, or its output is not valid) -/
structure LSt (κ α : Type) where
  tree : Tree κ := {}
  cache : List (Option α) := []

/-- what one evaluation produces -/
structure LOut (κ α : Type) where
  st : LSt κ α
  /-- `rebuild_structure` was called -/
  rebuilt : Bool
  /-- the combiners evaluated this cycle, in evaluation order (`evaluation_positions`) -/
  evaluated : List Nat
  /-- the combiners set aside this cycle (`retired`, on a bank swap every old combiner) -/
  retired : List Nat
  /-- the value of the node's output after the evaluation -/
  out : Option α

section LiftedCycle
variable {κ α : Type} [DecidableEq κ]

/-- the value of the published root: `aggregate_output(root_aggregate(...))` over the cache -/
def rootVal (hasZero : Bool) (zero : Option α) (src : κ → Option α) (s : LSt κ α) : Option α :=
  aggVal s.cache (if hasZero then zero else none) (leafVal src s.tree.keys)
    (rootAgg hasZero s.tree.cap s.tree.keys.length s.tree.combiners.length)

/-- the evaluation loop and the publication of the lifted path, for a given plan -/
def cycleLOf (f : α → α → α) (hasZero : Bool) (s : LSt κ α) (i : CycleIn κ α) (pl : Plan κ) : LOut κ α :=
  let t' := pl.tree
  let cache0 := match pl.rb with | some r => cacheAfterRebuild s.cache r | none => s.cache
  let z := if hasZero then i.zero else none
  let cache' := pl.cands.foldl
    (evalL f z t'.cap t'.keys.length (combLive t'.combiners) (leafVal i.src t'.keys)) cache0
  let st : LSt κ α := { tree := t', cache := cache' }
  { st := st
    rebuilt := pl.rb.isSome
    evaluated := pl.cands
    retired := retiredOf s.tree pl.rb
    out := rootVal hasZero i.zero i.src st }

/-- ONE evaluation of the reduce node with a lifted kernel (`reduce_evaluate`, not resuming) -/
def cycleL (f : α → α → α) (hasZero : Bool) (s : LSt κ α) (i : CycleIn κ α) : LOut κ α :=
  cycleLOf f hasZero s i (plan hasZero s.tree i)

end LiftedCycle

/-! ## the generic path: linked inputs and pending schedules -/

/-- the output a combiner input is linked to: the zero input's output (unbound when there is no
    zero), the source element of a key, the output of the combiner at a heap position -/
inductive Src (κ : Type) where
  | zero : Src κ
  | elem (k : κ) : Src κ
  | comb (q : Nat) : Src κ
deriving DecidableEq, Repr, Inhabited

structure GSt (κ α : Type) where
  tree : Tree κ := {}
  cache : List (Option α) := []
  /-- the sources the `lhs` / `rhs` inputs of the combiner child graph are linked to -/
  bind : List (Src κ × Src κ) := []
  /-- the child graph has a pending schedule (`next_scheduled_time() <= evaluation_time`) -/
  sched : List Bool := []

structure GOut (κ α : Type) where
  st : GSt κ α
  rebuilt : Bool
  /-- `evaluation_positions` -/
  candidates : List Nat
  /-- the combiners whose node ran, in evaluation order -/
  evaluated : List Nat
  /-- the operand pairs of those runs (what the logging node combiner of the harness records) -/
  evals : List (α × α)
  retired : List Nat
  out : Option α

section Generic
variable {κ α : Type} [DecidableEq κ]

/-- `aggregate_output(aggregate)` as an output identity -/
def srcOf (keys : List κ) : Agg → Src κ
  | .empty => .zero
  | .leaf i => match keys[i]? with
    | some k => .elem k
    | none => .zero
  | .node q => .comb q

/-- the value of a linked source -/
def readSrc (cache : List (Option α)) (zero : Option α) (src : κ → Option α) : Src κ → Option α
  | .zero => zero
  | .elem k => src k
  | .comb q => (cache[q]?).getD none

def bindAt (bind : List (Src κ × Src κ)) (p : Nat) : Src κ × Src κ := (bind[p]?).getD (.zero, .zero)
def schedAt (sched : List Bool) (p : Nat) : Bool := (sched[p]?).getD false

/-- an output ticked: every combiner that holds one and has an input linked to it gets a schedule -/
def notify (live : Nat → Bool) (bind : List (Src κ × Src κ)) (sched : List Bool) (x : Src κ) : List Bool :=
  (List.range sched.length).map fun p =>
    schedAt sched p || (live p && (decide ((bindAt bind p).1 = x) || decide ((bindAt bind p).2 = x)))

/-- the links `bind_combiner_inputs` makes for the combiner at `p` -/
def wantBind (cap : Nat) (keys : List κ) (p : Nat) : Src κ × Src κ :=
  (srcOf keys (resolveClosed cap keys.length (2 * p + 1)), srcOf keys (resolveClosed cap keys.length (2 * p + 2)))

/-- phase 2 for one structural position: a combiner created now is bound plainly; an existing one is
    re-bound with sampling, input by input, only where the source changed — which schedules it -/
def phase2Step (cap : Nat) (keys : List κ) (live : Nat → Bool) (created : List Nat)
    (bs : List (Src κ × Src κ) × List Bool) (p : Nat) : List (Src κ × Src κ) × List Bool :=
  if live p then
    let nb := wantBind cap keys p
    if created.contains p then (bs.1.set p nb, bs.2)
    else if decide (nb = bindAt bs.1 p) then bs
    else (bs.1.set p nb, bs.2.set p true)
  else bs

/-- `child.start` + `schedule_sampled_input_consumers` of a created combiner: scheduled when one of its
    (active) inputs is valid -/
def startStep (cache : List (Option α)) (zero : Option α) (src : κ → Option α)
    (bind : List (Src κ × Src κ)) (sched : List Bool) (p : Nat) : List Bool :=
  let b := bindAt bind p
  sched.set p ((readSrc cache zero src b.1).isSome || (readSrc cache zero src b.2).isSome)

structure GPass (κ α : Type) where
  cache : List (Option α)
  sched : List Bool
  evaluated : List Nat := []
  evals : List (α × α) := []

/-- one iteration of the evaluation loop on the generic path: `child.evaluate` when the child graph is
    scheduled; its node evaluates when both inputs are valid, reading the LINKED sources; the output
    tick schedules the combiners linked to it -/
def evalG (f : α → α → α) (zero : Option α) (src : κ → Option α) (live : Nat → Bool)
    (bind : List (Src κ × Src κ)) (s : GPass κ α) (p : Nat) : GPass κ α :=
  if live p && schedAt s.sched p then
    let sched1 := s.sched.set p false
    let b := bindAt bind p
    match readSrc s.cache zero src b.1, readSrc s.cache zero src b.2 with
    | some a, some c =>
      { cache := s.cache.set p (some (f a c))
        sched := notify live bind sched1 (.comb p)
        evaluated := s.evaluated ++ [p]
        evals := s.evals ++ [(a, c)] }
    | _, _ => { s with sched := sched1 }
  else s

/-- the tick notifications, phase 2, the start of created combiners, the evaluation loop and the
    publication of the generic path, for a given plan -/
def cycleGOf (f : α → α → α) (hasZero : Bool) (s : GSt κ α) (i : CycleIn κ α) (pl : Plan κ) : GOut κ α :=
  -- 1. the upstream ticks of this cycle, delivered through the links as they stood
  let live0 := combLive s.tree.combiners
  let sched1 := i.ticked.foldl (fun sc k => notify live0 s.bind sc (.elem k)) s.sched
  let sched2 := if hasZero && i.zeroEvent then notify live0 s.bind sched1 .zero else sched1
  -- 2. reconcile + rebuild (`pl`), phase 2, start
  let t' := pl.tree
  let live' := combLive t'.combiners
  let z := if hasZero then i.zero else none
  let cache0 := match pl.rb with | some r => cacheAfterRebuild s.cache r | none => s.cache
  let bs := match pl.rb with
    | some r =>
      let size := t'.combiners.length
      let b0 := if r.bankChanged then List.replicate size (Src.zero, Src.zero) else s.bind
      let s0 := if r.bankChanged then List.replicate size false
                else r.created.foldl (fun sc p => sc.set p false) (r.retired.foldl (fun sc p => sc.set p false) sched2)
      let ph2 := r.positions.reverse.foldl (phase2Step t'.cap t'.keys live' r.created) (b0, s0)
      (ph2.1, r.created.reverse.foldl (startStep cache0 z i.src ph2.1) ph2.2)
    | none => (s.bind, sched2)
  -- 3. candidates, 4. the evaluation loop
  let pass := pl.cands.foldl (evalG f z i.src live' bs.1) { cache := cache0, sched := bs.2 }
  let st : GSt κ α := { tree := t', cache := pass.cache, bind := bs.1, sched := pass.sched }
  { st := st
    rebuilt := pl.rb.isSome
    candidates := pl.cands
    evaluated := pass.evaluated
    evals := pass.evals
    retired := retiredOf s.tree pl.rb
    out := rootVal hasZero i.zero i.src { tree := t', cache := pass.cache } }

/-- ONE evaluation of the reduce node with a generic combiner child graph -/
def cycleG (f : α → α → α) (hasZero : Bool) (s : GSt κ α) (i : CycleIn κ α) : GOut κ α :=
  cycleGOf f hasZero s i (plan hasZero s.tree i)

/-- forgetting the links and schedules -/
def GSt.toL (s : GSt κ α) : LSt κ α := { tree := s.tree, cache := s.cache }

end Generic

end HgVerif.ReduceInc
