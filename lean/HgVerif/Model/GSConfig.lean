/-
Model for the record/replay CONFIGURATION stream of C07: a process runs a history of builds, every build wires
`ticker/replay -> record(key)` (and a compare variant) through the operator dispatch against some GlobalState,
and the backend each build gets must follow from the contents of ITS store alone.

Modelled code (read on the current tree):
* `types/record_replay.cpp`  - `normalize_backend`, `set_config` (writes CONFIG_KEY, normalised), `config`
                               (reads CONFIG_KEY of the store it is GIVEN; the default when absent; `checked_as`
                               throws on a foreign value), `effective_backend` (a non-empty call-site `model`
                               scalar wins and the store is then not read), `recorded_seed_resolver`
                               (dispatch on `config(state)`; the `:memory:` buffer for the two core ids).
* `lib/std/operators/impl/record_replay_memory_impl.h`
      `dense_record_impl::requires_` (= "testing"), `sparse_record_impl::requires_` (= "memory"),
      `replay_impl::requires_` (either), `memory_compare_impl::requires_` (= "memory"); their start / eval.
* `runtime/global_state.{h,cpp}` - `get / set / erase / copy_from`; `types/graph_wiring.cpp` - the build copies
                               the selected store AS IT STANDS at `finish()` into the graph.
* `harness/drv_gsconfig.cpp` - the step vocabulary (stores, preparations, actions, graphs).

A store has an ADDRESS in the model (`Step.addr`, an arbitrary - possibly colliding - assignment): the code as it
is never looks at it; the variant `MProc` (an address-keyed memo of the parsed configuration, the seeded shape)
does.  Cycle `i` is evaluation time `MIN_ST + i*MIN_TD`.  Core Lean only.
-/
namespace HgVerif.GSConfig

abbrev Key := String

/-! ## stores -/

/-- what user code puts into a store in this stream: a `RecordReplayConfig` or a plain `Int` -/
inductive UVal where
  | cfg (backend : String)
  | int (v : Int)
deriving DecidableEq, Repr

/-- values of an executor's GlobalState: the user's entries plus what the nodes write -/
inductive FVal where
  | user (v : UVal)
  /-- `set_replay_values`: `List<Any>` -/
  | anyl (xs : List (Option Int))
  /-- `dense_record_impl`: typed `List<Int>`, index = cycle -/
  | dense (xs : List (Option Int))
  /-- `sparse_record_impl`: `List<Tuple<datetime, Int>>` in push order -/
  | sparse (xs : List (Nat × Int))
  /-- `ComparisonSummary` -/
  | summary (compared mismatches : Nat)
deriving DecidableEq, Repr

/-- `Map<string, Any>` as an association list (first match wins) -/
abbrev AList (α : Type) := List (Key × α)

def get {α : Type} (s : AList α) (k : Key) : Option α := s.lookup k

/-- `GlobalStateView::erase` -/
def erase {α : Type} (s : AList α) (k : Key) : AList α := s.filter (fun p => p.1 != k)

/-- `GlobalStateView::set`: insert or replace -/
def set {α : Type} (s : AList α) (k : Key) (v : α) : AList α := (k, v) :: erase s k

/-- a user-owned store (GlobalState object, context-owned state, a stateless Wiring's internal store) -/
abbrev Store := AList UVal
/-- an executor's GlobalState -/
abbrev FStore := AList FVal

/-- the build copies the selected store into the graph -/
def lift (s : Store) : FStore := s.map (fun p => (p.1, FVal.user p.2))

/-! ## the configuration, as coded -/

def configKey : Key := "__hgraph.record_replay.config__"
def MEMORY : String := "memory"
def TESTING : String := "testing"

/-- `normalize_backend` -/
def normalize (b : String) : String :=
  if b = "InMemory" then MEMORY
  else if b = "InMemoryDense" then TESTING
  else if b = "DataFrame" then "hgraph.persistence.frame"
  else b

/-- `set_config(state, {backend})`: the normalised id is written under CONFIG_KEY.
    (An empty id throws before anything is written; the drivers never pass one.) -/
def setConfig (s : Store) (b : String) : Store :=
  if b = "" then s else set s configKey (.cfg (normalize b))

/-- the body of `config(state)` on the entry found under CONFIG_KEY: the default when absent, the stored
    configuration when it is one, `none` = `checked_as<RecordReplayConfig>` throws -/
def configOfEntry : Option FVal → Option String
  | none => some MEMORY
  | some (.user (.cfg b)) => some b
  | some _ => none

/-- `record_replay::config(GlobalStateView)` on a user store: a function of the store it is given -/
def config (s : Store) : Option String := configOfEntry ((get s configKey).map FVal.user)

/-- the same read on an executor's state (the RECOVER seed resolver) -/
def configF (s : FStore) : Option String := configOfEntry (get s configKey)

/-- `effective_backend(context)`: a non-empty call-site `model` scalar wins (normalised) and the store is not
    read; otherwise the configured backend of `context.global_state`.  `answer` = what `config` returned. -/
def effectiveBackend (model : String) (answer : Option String) : Option String :=
  if model ≠ "" then some (normalize model) else answer

/-! ## overload selection (the `requires_` guards) -/

inductive RecSel where
  | dense   -- dense_record_impl
  | sparse  -- sparse_record_impl
deriving DecidableEq, Repr

/-- `record`: exactly the two guards; no match = the dispatch throws -/
def selectRecord (b : String) : Option RecSel :=
  if b = TESTING then some .dense else if b = MEMORY then some .sparse else none

def replayServed (b : String) : Bool := b == MEMORY || b == TESTING
def compareServed (b : String) : Bool := b == MEMORY

/-! ## actions on a store -/

inductive Action where
  | setCfg (b : String)        -- set:<b>
  | rawCfg (b : String)        -- raw:<b>   written as given
  | rmCfg                      -- rm
  | put (k : Key) (v : Int)    -- put:<k>=<v>
  | del (k : Key)              -- del:<k>
  | bad                        -- an Int under CONFIG_KEY
deriving DecidableEq, Repr

def applyAction (s : Store) : Action → Store
  | .setCfg b => setConfig s b
  | .rawCfg b => set s configKey (.cfg b)
  | .rmCfg => erase s configKey
  | .put k v => set s k (.int v)
  | .del k => erase s k
  | .bad => set s configKey (.int 0)

def applyActions (s : Store) (as : List Action) : Store := as.foldl applyAction s

inductive Prep where
  | asis
  | reset                    -- state = GlobalState{}
  | copy                     -- copy_from an empty state
  | clear                    -- erase every key, one by one
  | copyFrom (n : String)    -- copy_from the long-lived object `n`
deriving DecidableEq, Repr

/-- erase the keys of `ks` one after the other -/
def eraseAll (s : Store) (ks : List Key) : Store := ks.foldl erase s

/-- the store after its preparation; `own` = what it held, `src` = the contents of the object a `copyFrom` names
    (`copy_from` REPLACES the destination) -/
def applyPrep (own : Store) (src : String → Store) : Prep → Store
  | .asis => own
  | .reset => []
  | .copy => []
  | .clear => eraseAll own (own.map (·.1))
  | .copyFrom n => src n

/-! ## graphs and runs -/

inductive GraphKind where
  | tick (n : Nat)                    -- ticker(n) -> record(key)
  | rep (inp : List (Option Int))     -- replay("in") -> record(key)
  | cmp (inp : List (Option Int))     -- ... and compare(replay, twist(replay), recordable_id = "c")
deriving DecidableEq, Repr

structure GraphSpec where
  kind : GraphKind
  model : String := ""      -- call-site backend scalar of every dispatched call ("" = none)
  key : Key
  probe : Bool := false     -- ask the seed resolver after the run
deriving DecidableEq, Repr

def inKey : Key := "in"
def memKey (key : Key) : Key := ":memory:nodes.record." ++ key
def cmpKey : Key := "__hgraph.record_replay.compare__.c.__compare__"

/-- the values the source emits per cycle -/
def sourceOf : GraphKind → List (Option Int)
  | .tick n => (List.range (max n 1)).map (fun (i : Nat) => some (10 * ((i : Int) + 1)))
  | .rep inp => inp
  | .cmp inp => inp

def usesReplay : GraphKind → Bool
  | .tick _ => false
  | _ => true

def usesCompare : GraphKind → Bool
  | .cmp _ => true
  | _ => false

/-- what the wiring resolved: the record overload (and that replay / compare were served) -/
structure Wired where
  sel : RecSel
deriving DecidableEq, Repr

/-- the dispatched calls of `compose`, in wiring order: replay, record, compare; `b` = the effective backend
    (`none` = `config` threw).  `none` = some call had no overload / threw: nothing is built. -/
def wireGraph (g : GraphSpec) (b : Option String) : Option Wired :=
  match b with
  | none => none
  | some b =>
    if usesReplay g.kind && !replayServed b then none
    else match selectRecord b with
      | none => none
      | some r => if usesCompare g.kind && !compareServed b then none else some ⟨r⟩

inductive Status where
  | ok | errRun
deriving DecidableEq, Repr

def maxDenseCycles : Nat := 1000000

/-- `sparse_record_impl::eval`: lazily created, one `(now, delta)` entry pushed; a foreign value under the key
    makes `as_list` throw -/
def pushSparse (gs : FStore) (key : Key) (cyc : Nat) (v : Int) : Option FStore :=
  match get gs key with
  | none => some (set gs key (.sparse [(cyc, v)]))
  | some (.sparse xs) => some (set gs key (.sparse (xs ++ [(cyc, v)])))
  | some _ => none

/-- `dense_record_impl::eval` (dense branch): holes padded so that index = cycle -/
def pushDense (gs : FStore) (key : Key) (cyc : Nat) (v : Int) : Option FStore :=
  match get gs key with
  | none => if cyc > maxDenseCycles then none else some (set gs key (.dense (List.replicate cyc none ++ [some v])))
  | some (.dense xs) =>
    if xs.length > cyc then none
    else if cyc - xs.length > maxDenseCycles then none
    else some (set gs key (.dense (xs ++ List.replicate (cyc - xs.length) none ++ [some v])))
  | some _ => none

def recordTick (w : Wired) (g : GraphSpec) (gs : FStore) (cyc : Nat) (v : Int) : Option FStore :=
  match w.sel with
  | .dense => pushDense gs g.key cyc v
  | .sparse => pushSparse gs (memKey g.key) cyc v

/-- the evaluation cycles: in a cycle where the source ticks `v`, the record sink is evaluated, then (cmp) the
    twisted copy and the compare sink (`13` is twisted to `0`: a mismatch, published, then thrown).
    `cmp` = the compare node's counters when the graph has one. -/
def cycles (w : Wired) (g : GraphSpec) : List (Option Int) → Nat → Option (Nat × Nat) → FStore → Status × FStore
  | [], _, _, gs => (.ok, gs)
  | none :: rest, i, cmp, gs => cycles w g rest (i + 1) cmp gs
  | some v :: rest, i, cmp, gs =>
    match recordTick w g gs i v with
    | none => (.errRun, gs)
    | some gs1 =>
      match cmp with
      | none => cycles w g rest (i + 1) none gs1
      | some (c, m) =>
        let mismatch := v == 13
        let c' := c + 1
        let m' := if mismatch then m + 1 else m
        let gs2 := set gs1 cmpKey (.summary c' m')
        if mismatch then (.errRun, gs2) else cycles w g rest (i + 1) (some (c', m')) gs2

/-- start of the nodes in node order: `dense_record_impl::start` erases its key, `sparse_record_impl::start`
    only resolves its key, `memory_compare_impl::start` publishes a zero summary -/
def startNodes (w : Wired) (g : GraphSpec) (gs : FStore) : FStore :=
  let gs1 := match w.sel with
    | .dense => erase gs g.key
    | .sparse => gs
  if usesCompare g.kind then set gs1 cmpKey (.summary 0 0) else gs1

/-- the builder's GlobalState: the store as it stands at `finish()`, plus the seeded replay buffer -/
def builderState (g : GraphSpec) (atFinish : Store) : FStore :=
  if usesReplay g.kind then set (lift atFinish) inKey (.anyl (sourceOf g.kind)) else lift atFinish

/-- one executor: copy of the builder's state, start, evaluate -/
def runGraph (w : Wired) (g : GraphSpec) (atFinish : Store) : Status × FStore :=
  cycles w g (sourceOf g.kind) 0 (if usesCompare g.kind then some (0, 0) else none)
    (startNodes w g (builderState g atFinish))

inductive SeedObs where
  | value (v : Int)
  | nothing
  | err
deriving DecidableEq, Repr

/-- `recorded_seed_resolver(final, "nodes.record.<key>", TS<Int>, far future)`: dispatched on `config(final)`;
    the core ids read the `:memory:` buffer (last entry), any other id has no registered resolver here -/
def seedOf (final : FStore) (key : Key) : SeedObs :=
  match configF final with
  | none => .err
  | some b =>
    if b ≠ MEMORY ∧ b ≠ TESTING then .err
    else match get final (memKey key) with
      | none => .nothing
      | some (.sparse xs) => match xs.getLast? with
        | some e => .value e.2
        | none => .nothing
      | some _ => .err

/-! ## one step of a history -/

inductive StoreKind where
  | fresh                 -- a heap GlobalState made for the step
  | obj (n : String)      -- a long-lived GlobalState, by name
  | frame                 -- a local GlobalState in one function's stack frame
  | own                   -- the state a default-constructed GlobalContext owns
  | stateless             -- a stateless Wiring's internal store
deriving DecidableEq, Repr

structure Step where
  kind : StoreKind
  /-- where the store lives: arbitrary, two different stores may be given the same address -/
  addr : Nat := 0
  prep : Prep := .asis
  pre : List Action := []
  late : List Action := []
  /-- `none` = the query step `q` -/
  graph : Option GraphSpec
deriving DecidableEq, Repr

inductive Outcome where
  | query (b : Option String)                       -- cfg=<b> | cfg=err
  | wireErr                                         -- err:wire
  | ran (st : Status) (final : FStore) (seed : Option SeedObs)
deriving DecidableEq, Repr

structure Obs where
  pre : Store         -- the store's contents when the first node is wired
  out : Outcome
deriving DecidableEq, Repr

/-- What a step shows, given the contents `c` of its store at dispatch time and the answer `a` the dispatch got
    from `config` for that store.  (`a` is a parameter so that the variant below can plug in another answer.) -/
def stepObsWith (a : Option String) (c : Store) (st : Step) : Obs :=
  match st.graph with
  | none => ⟨c, .query a⟩
  | some g =>
    match wireGraph g (effectiveBackend g.model a) with
    | none => ⟨c, .wireErr⟩
    | some w =>
      let r := runGraph w g (applyActions c st.late)
      ⟨c, .ran r.1 r.2 (if g.probe then some (seedOf r.2 g.key) else none)⟩

/-- **The code as it is**: the answer is `config` of the store's contents. -/
def stepObs (c : Store) (st : Step) : Obs := stepObsWith (config c) c st

/-- did the wiring get as far as the late actions? (they are applied after the nodes are wired) -/
def wiredOk (a : Option String) (st : Step) : Bool :=
  match st.graph with
  | none => false
  | some g => (wireGraph g (effectiveBackend g.model a)).isSome

/-- the store's contents after the step -/
def storeAfter (a : Option String) (c : Store) (st : Step) : Store :=
  if wiredOk a st then applyActions c st.late else c

/-! ## the process: a history of steps -/

structure Proc where
  objs : AList Store := []      -- the long-lived GlobalStates by name

/-- the store a step works on, before its preparation: a named object as earlier steps left it, else empty -/
def Proc.storeOf (p : Proc) : StoreKind → Store
  | .obj n => (get p.objs n).getD []
  | _ => []

/-- the contents at dispatch time: preparation, then the `pre` actions -/
def Proc.dispatchContents (p : Proc) (st : Step) : Store :=
  applyActions (applyPrep (p.storeOf st.kind) (fun n => p.storeOf (.obj n)) st.prep) st.pre

def Proc.keep (p : Proc) (k : StoreKind) (s : Store) : Proc :=
  match k with
  | .obj n => { p with objs := set p.objs n s }
  | _ => p

def Proc.step (p : Proc) (st : Step) : Proc × Obs :=
  let c := p.dispatchContents st
  (p.keep st.kind (storeAfter (config c) c st), stepObs c st)

def Proc.run (p : Proc) : List Step → Proc × List Obs
  | [] => (p, [])
  | st :: rest =>
    let r := p.step st
    let t := Proc.run r.1 rest
    (t.1, r.2 :: t.2)

/-! ## the variant: a memo of the parsed configuration keyed by the store's ADDRESS (the seeded shape)

`config` keeps `(address of the last store read, what it held)`; `set_config` drops it; nothing else does. -/

abbrev Memo := Option (Nat × String)

/-- `config(state)` with the memo: a hit on the address answers without looking at the store -/
def configMemo (m : Memo) (addr : Nat) (c : Store) : Option String × Memo :=
  match m with
  | some (a, b) => if a = addr then (some b, m) else
      match config c with
      | some b' => (some b', some (addr, b'))
      | none => (none, m)
  | none =>
    match config c with
    | some b' => (some b', some (addr, b'))
    | none => (none, m)

/-- `set_config` drops the memo (after its argument check); no other action touches it -/
def memoStep (m : Memo) : Action → Memo
  | .setCfg b => if b = "" then m else none
  | _ => m

/-- the memo after a list of actions -/
def memoAfter (m : Memo) (as : List Action) : Memo := as.foldl memoStep m

structure MProc where
  objs : AList Store := []
  memo : Memo := none

def MProc.storeOf (p : MProc) : StoreKind → Store
  | .obj n => (get p.objs n).getD []
  | _ => []

def MProc.keep (p : MProc) (k : StoreKind) (s : Store) (m : Memo) : MProc :=
  match k with
  | .obj n => { objs := set p.objs n s, memo := m }
  | _ => { p with memo := m }

/-- does the dispatch of this step read the configuration?  (a query does; a graph does unless every call
    carries a call-site backend) -/
def readsConfig (st : Step) : Bool :=
  match st.graph with
  | none => true
  | some g => g.model == ""

/-- one step under the memo.  (The seed resolver's read of the EXECUTOR's state is left as coded: that state
    lives at an address of its own.) -/
def MProc.step (p : MProc) (st : Step) : MProc × Obs :=
  let c := applyActions (applyPrep (p.storeOf st.kind) (fun n => p.storeOf (.obj n)) st.prep) st.pre
  let m1 := memoAfter p.memo st.pre
  let r := if readsConfig st then configMemo m1 st.addr c else (config c, m1)
  let m2 := if wiredOk r.1 st then memoAfter r.2 st.late else r.2
  (p.keep st.kind (storeAfter r.1 c st) m2, stepObsWith r.1 c st)

def MProc.run (p : MProc) : List Step → MProc × List Obs
  | [] => (p, [])
  | st :: rest =>
    let r := p.step st
    let t := MProc.run r.1 rest
    (t.1, r.2 :: t.2)

end HgVerif.GSConfig
