/-
Model for the global-state isolation stream of C07: runs that go through the `GlobalState` /
`GlobalContext` / record-replay testing layer, the way `testing::eval_node` does.

Modelled code (read on the current tree):
* `runtime/global_state.{h,cpp}`     - `GlobalStateView::get / set / erase / copy_from`, `GlobalContext`
* `types/graph_wiring.cpp`           - `Wiring::finish_top_level`: a live-seeded wiring COPIES the selected state
                                       into the builder as the graph's initial state
* `runtime/graph.cpp`                - every `make_executor` copies the builder's seed into the new root graph
* `lib/testing/record_replay.h`      - `set_replay_values`, `get_recorded_sparse`, `get_recorded_values`
* `lib/testing/record_replay_buffer.h` - `dense_entry_delta`, `cycle_offset`, `max_dense_cycles`
* `lib/std/operators/impl/record_replay_memory_impl.h`
      `replay_impl` (dense plain-key branch), `dense_record_impl` (harness sink, dense + sparse layout),
      `sparse_record_impl` (the persistent `:memory:` sink).
* `lib/testing/eval_node.h`          - `copy_completed_global_state`.

Cycle `i` is evaluation time `MIN_ST + i*MIN_TD`.  Values are `Int` (`TS<Int>` everywhere).  Core Lean only.
-/
namespace HgVerif.GState

abbrev Key := String
abbrev Trace := List (Nat × Int)

/-- The three buffer shapes the testing layer stores under a key. -/
inductive Buf where
  /-- `make_buffer`: the seeded replay layout `List<Any>` (empty box = no tick) -/
  | any (xs : List (Option Int))
  /-- `make_dense_buffer`: typed `List<Int>`, index = cycle, unset element = no tick -/
  | dense (xs : List (Option Int))
  /-- `make_sparse_buffer`: typed `List<Tuple<datetime, Int>>`, entries in push order -/
  | sparse (xs : List (Nat × Int))
deriving DecidableEq, Repr

/-- `GlobalState`: a mutable `Map<string, Any>`; here an association list (first match wins). -/
abbrev GState := List (Key × Buf)

def get (s : GState) (k : Key) : Option Buf := s.lookup k

/-- `GlobalStateView::erase` -/
def erase (s : GState) (k : Key) : GState := s.filter (fun p => p.1 != k)

/-- `GlobalStateView::set`: insert or replace -/
def set (s : GState) (k : Key) (b : Buf) : GState := (k, b) :: erase s k

/-- `GlobalStateView::copy_from`: `*map_ = other.as_value()` - the destination is REPLACED -/
def copyFrom (_dst src : GState) : GState := src

inductive Layout where
  | dense | sparse
deriving DecidableEq, Repr

/-- the exception classes the driver distinguishes -/
inductive Err where
  | logic | other
deriving DecidableEq, Repr

/-- A compute node between the replay source and a sink: own `State<Int>`, one output per tick. -/
structure Node where
  init : Int
  step : Int → Int → Int × Int       -- state → input → (state', output)

/-- A record sink.  `persist = false`: `dense_record_impl` (harness; layout from the run);
    `persist = true`: `sparse_record_impl` (the `:memory:` backend; always the sparse shape, never erased). -/
structure Sink where
  node : Node
  key : Key
  persist : Bool

/-- `replay(inKey) -> node_j -> record(key_j)` for every sink `j` (one replay source feeds all). -/
structure Graph where
  inKey : Key
  sinks : List Sink

def maxDenseCycles : Nat := 1000000

/-! ## buffers -/

def bufLen : Buf → Nat
  | .any xs => xs.length
  | .dense xs => xs.length
  | .sparse xs => xs.length

/-- `dense_entry_delta(list, i)` for `i < size`.  (A sparse list under a replay key would hand a tuple to
    `apply_delta` of a `TS<Int>`; no run of this model reaches that - `none` here.) -/
def entryAt : Buf → Nat → Option Int
  | .any xs, i => (xs[i]?).join
  | .dense xs, i => (xs[i]?).join
  | .sparse _, _ => none

/-- the `(index, value)` pairs of the set elements, `off` = index of the head -/
def enumSome (off : Nat) : List (Option Int) → Trace
  | [] => []
  | none :: rest => enumSome (off + 1) rest
  | some v :: rest => (off, v) :: enumSome (off + 1) rest

/-! ## the record sink -/

/-- `dense_record_impl::eval` (sparse branch) and `sparse_record_impl::eval`: the buffer is created lazily,
    then one `(now, delta)` entry is pushed.  A typed push into a list of another element schema throws. -/
def pushSparse (gs : GState) (key : Key) (cyc : Nat) (v : Int) : Except Err GState :=
  match get gs key with
  | none => .ok (set gs key (.sparse [(cyc, v)]))
  | some (.sparse xs) => .ok (set gs key (.sparse (xs ++ [(cyc, v)])))
  | some _ => .error .other

/-- `dense_record_impl::eval` (dense branch): `offset - size` is computed in `size_t`, so a buffer LONGER than
    the current cycle wraps past `max_dense_cycles` and throws (an exception raised inside a node evaluation
    leaves `run()` wrapped by the engine: class `other`); otherwise holes are padded so that the index matches
    the cycle. -/
def pushDense (gs : GState) (key : Key) (cyc : Nat) (v : Int) : Except Err GState :=
  match (get gs key).getD (.dense []) with
  | .dense xs =>
    if xs.length > cyc then .error .other
    else if cyc - xs.length > maxDenseCycles then .error .other
    else .ok (set gs key (.dense (xs ++ List.replicate (cyc - xs.length) none ++ [some v])))
  | _ => .error .other

def recordTick (lay : Layout) (sk : Sink) (gs : GState) (cyc : Nat) (v : Int) : Except Err GState :=
  if sk.persist || lay == .sparse then pushSparse gs sk.key cyc v else pushDense gs sk.key cyc v

/-- `start` of every sink in node order: `dense_record_impl::start` erases its key (BOTH layouts);
    `sparse_record_impl::start` only resolves its key. -/
def startSinks : List Sink → GState → GState
  | [], gs => gs
  | sk :: rest, gs => startSinks rest (if sk.persist then gs else erase gs sk.key)

/-- one engine cycle in which the replay source ticked `v`: every branch `node -> sink` in order.
    Each sink carries its node's state.  On an exception the cycle (and the run) stops there. -/
def sinksTick (lay : Layout) (cyc : Nat) (v : Int) :
    List (Sink × Int) → GState → GState × List (Sink × Int) × Option Err
  | [], gs => (gs, [], none)
  | (sk, st) :: rest, gs =>
    let r := sk.node.step st v
    match recordTick lay sk gs cyc r.2 with
    | .error e => (gs, (sk, r.1) :: rest, some e)
    | .ok gs' =>
      let t := sinksTick lay cyc v rest gs'
      (t.1, (sk, r.1) :: t.2.1, t.2.2)

/-- The evaluation loop, driven by `replay_impl::eval` (dense plain-key branch).  The source is scheduled on
    start, so it is evaluated in cycle 0 with cursor 0 and re-arms itself for the NEXT cycle while
    `index + 1 < size`; cursor and cycle therefore advance together (`i`).  It reads the LIVE buffer under its
    key every cycle and never modifies it (replay buffers are kept, not consumed).
    `fuel` only makes the definition structurally recursive (see `Props/C07GState.lean`, `fuel_enough`). -/
def cycles (lay : Layout) (inKey : Key) : Nat → Nat → List (Sink × Int) → GState → GState × Option Err
  | 0, _, _, gs => (gs, none)
  | fuel + 1, i, sks, gs =>
    match get gs inKey with
    | none => (gs, none)                        -- "nothing seeded under this key": no tick, no re-arm
    | some buf =>
      let size := bufLen buf
      let t : GState × List (Sink × Int) × Option Err :=
        match (if i < size then entryAt buf i else none) with
        | none => (gs, sks, none)
        | some v => sinksTick lay i v sks gs
      match t.2.2 with
      | some e => (t.1, some e)
      | none => if i + 1 < size then cycles lay inKey fuel (i + 1) t.2.1 t.1 else (t.1, none)

/-! ## one run -/

/-- The builder's GlobalState: a copy of the selected state as it stands at the end of wiring (the empty state
    without a `GlobalContext`), then `set_replay_values(gb.global_state(), inKey, inputs)`. -/
def buildState (g : Graph) (inp : List (Option Int)) (selected : GState) : GState :=
  set selected g.inKey (.any inp)

/-- One executor made from a builder whose seed is `b`: the root graph gets its own copy of `b`,
    the nodes start, the cycles run.  Result: the executor's GlobalState when `run()` returns or throws. -/
def exec (g : Graph) (lay : Layout) (n : Nat) (b : GState) : GState × Option Err :=
  cycles lay g.inKey (n + 1) 0 (g.sinks.map (fun sk => (sk, sk.node.init))) (startSinks g.sinks b)

/-- `get_recorded_sparse`: every entry is read as a `(time, delta)` tuple (a non-empty list of another
    element schema throws `logic_error`; an empty one reads back empty). -/
def readSparse : Option Buf → Except Err Trace
  | none => .ok []
  | some (.sparse xs) => .ok xs
  | some (.any []) => .ok []
  | some (.dense []) => .ok []
  | some _ => .error .logic

/-- `get_recorded_values<Int>`: `dense_entry_delta` per index. -/
def readDense : Option Buf → Except Err Trace
  | none => .ok []
  | some (.dense xs) => .ok (enumSome 0 xs)
  | some (.any xs) => .ok (enumSome 0 xs)
  | some (.sparse []) => .ok []
  | some (.sparse _) => .error .logic

def readBack (lay : Layout) (sk : Sink) (gs : GState) : Except Err Trace :=
  if sk.persist || lay == .sparse then readSparse (get gs sk.key) else readDense (get gs sk.key)

def readAll (lay : Layout) (gs : GState) : List Sink → Except Err (List Trace)
  | [] => .ok []
  | sk :: rest =>
    match readBack lay sk gs with
    | .error e => .error e
    | .ok t => match readAll lay gs rest with
      | .error e => .error e
      | .ok ts => .ok (t :: ts)

/-- what the harness observes of a run: the recordings read back from the executor's state, or the exception -/
def observe (g : Graph) (lay : Layout) (r : GState × Option Err) : Except Err (List Trace) :=
  match r.2 with
  | some e => .error e
  | none => readAll lay r.1 g.sinks

/-- **A harness run** wired under the selected state `s` (`[]` = no context / empty state):
    the executor's final GlobalState and the observed recordings. -/
def run (g : Graph) (lay : Layout) (inp : List (Option Int)) (s : GState) : GState × Except Err (List Trace) :=
  let r := exec g lay inp.length (buildState g inp s)
  (r.1, observe g lay r)

/-! ## the reference a run is compared with (the SPEC: a fold over the inputs) -/

/-- outputs of `node` over the ticking cycles of `inp`, `off` = cycle of the head -/
def specTrace (node : Node) : Int → Nat → List (Option Int) → Trace
  | _, _, [] => []
  | st, off, none :: rest => specTrace node st (off + 1) rest
  | st, off, some v :: rest => (off, (node.step st v).2) :: specTrace node (node.step st v).1 (off + 1) rest

/-! ## the graph vocabulary of the drivers -/

def addOne : Node := ⟨0, fun st v => (st, v + 1)⟩
def times10 : Node := ⟨0, fun st v => (st, v * 10)⟩
def runningSum : Node := ⟨0, fun st v => (st + v, st + v)⟩

def memPrefix : String := ":memory:nodes.record."

def gInc (k : Key) : Graph := ⟨"in", [⟨addOne, k, false⟩]⟩
def gMul10 (k : Key) : Graph := ⟨"in", [⟨times10, k, false⟩]⟩
def gAcc (k : Key) : Graph := ⟨"in", [⟨runningSum, k, false⟩]⟩
def gTwo (k1 k2 : Key) : Graph := ⟨"in", [⟨addOne, k1, false⟩, ⟨times10, k2, false⟩]⟩
def gPinc (k : Key) : Graph := ⟨"in", [⟨addOne, memPrefix ++ k, true⟩]⟩

/-! ## the process around the runs (what the drivers keep between lines) -/

structure Builder where
  g : Graph
  lay : Layout
  n : Nat            -- number of seeded input cycles
  seed : GState      -- the builder's GlobalState (fixed at the end of wiring)

structure Proc where
  ctxs : List (String × GState) := []      -- user-owned GlobalStates by name
  sel : Option String := none              -- the one a GlobalContext selects around wiring
  builder : Option Builder := none         -- the last run's executor builder
  last : Option GState := none             -- GlobalState of the last completed executor

def Proc.selected (p : Proc) : Option GState := p.sel.bind (fun c => p.ctxs.lookup c)

def Proc.setSelected (p : Proc) (s : GState) : Proc :=
  match p.sel with
  | none => p
  | some c => { p with ctxs := p.ctxs.map (fun e => if e.1 == c then (c, s) else e) }

/-- `run` line: wire under the selection, seed the replay buffer, make ONE executor, run it. -/
def Proc.run (p : Proc) (g : Graph) (lay : Layout) (inp : List (Option Int)) : Proc × Except Err (List Trace) :=
  let b := buildState g inp (p.selected.getD [])
  let r := exec g lay inp.length b
  ({ p with builder := some ⟨g, lay, inp.length, b⟩, last := some r.1 }, observe g lay r)

/-- `reuse k`: `k` further executors from the same builder, each on its own copy of the seed. -/
def Proc.reuse (p : Proc) : Nat → Proc × List (Except Err (List Trace))
  | 0 => (p, [])
  | k + 1 =>
    match p.builder with
    | none => (p, [])
    | some bd =>
      let r := exec bd.g bd.lay bd.n bd.seed
      let t := Proc.reuse { p with last := some r.1 } k
      (t.1, observe bd.g bd.lay r :: t.2)

/-- `copyback`: `selected.copy_from(graph.global_state())` of the last completed executor. -/
def Proc.copyback (p : Proc) : Proc × Bool :=
  match p.selected, p.last with
  | some s, some l => (p.setSelected (copyFrom s l), true)
  | _, _ => (p, false)

/-- `seed`: pre-populate the selected state. -/
def Proc.seed (p : Proc) (k : Key) (b : Buf) : Proc × Bool :=
  match p.selected with
  | some s => (p.setSelected (set s k b), true)
  | none => (p, false)

end HgVerif.GState
