import HgVerif.Model.Extracted
import HgVerif.Model.Realtime
import HgVerif.Model.PushQueue
import HgVerif.Model.MapNode
/-!
Ties for the decision points of the real-time loop (C17), the push queue (C16) and the map node (C10) that
`tools/extract.py` reads out of /repo's sources on every run (see `Model/Tie.lean` for the scheme: a tie that
no longer checks is a broken proof obligation and sends `./check` looking for a failing input).
-/
namespace HgVerif.Tie
open HgVerif.Extracted

/-- `advance_realtime`: `max_immediate_drain_cycles` is the model's `drainLimit` -/
theorem tie_rtDrainLimit : rtDrainLimit = HgVerif.Realtime.drainLimit := rfl
/-- … the cut-off test is `wall_now >= end_time && next <= next_cycle && consecutive >= limit` -/
theorem tie_rtCutWall : rtCutWall = .ge := rfl
theorem tie_rtCutNext : rtCutNext = .le := rfl
theorem tie_rtCutCount : rtCutCount = .ge := rfl
/-- … and `next = min(target, max(wall_now, next_cycle))` -/
theorem tie_rtNextShape : rtNextIsMinOfTargetAndMaxWallNext = true := rfl

/-- `QueuePolicyStorage::full()`: `max_pending != 0 && size >= max_pending` -/
theorem tie_pqFull : pqFull = .ge := rfl

/-- `map_node.cpp`: heap entries with `when <= evaluation_time` are drained (both loops) -/
theorem tie_mapDrainDue : mapDrainDue = .le := rfl
/-- … a child is evaluated when `next_scheduled_time() <= evaluation_time` -/
theorem tie_mapChildDue : mapChildDue = .le := rfl
/-- … and pushed back on the heap when `next != MAX_DT && next > evaluation_time` -/
theorem tie_mapChildFuture : mapChildFuture = .gt := rfl

end HgVerif.Tie
