import HgVerif.Model.MapNode
/-!
Model of `map_` over a DYNAMIC list, `src/hgraph/runtime/tsl_map_node.cpp` (+ the push half of
`graph.cpp nested_schedule_node_impl`, the child's own `propagate_nested_parent_schedule` and
`schedule_node_impl` restricted to the map node's own slot in its parent graph).  Read from /repo; same
cases, same comparison operators, same order of side effects.  (`map_` over a FIXED-size list is a
wiring-time expansion and is not this node.)

What is modelled

* `TslMapNodeStorage`: `entries` (an `InPlaceGraphSlotStore<TslMapEntry>` indexed by the LIST INDEX, not by a
  key-set slot), `entries.slot_capacity()` (`cap`; `reserve_to(n)` is a no-op for `n <= capacity` and makes the
  capacity exactly `n` otherwise), `live_count` (`live`), `multiplexed_sizes` (`sizes`).
* `update_tsl_map_sources`: `runtime_size` = the maximum size of the multiplexed dynamic lists; `bindings_changed`
  iff the stored sizes were initialised (`multiplexed_sizes.size() == multiplexed_inputs.size()`) and one differs.
  The `outer_sources` handle comparison (a source that RE-POINTS: REF / switch_ upstream of the map) is NOT
  modelled (assumption of the check).
* the creation loop `for (index = live_count; index < runtime_size; ++index) { create_tsl_map_entry; ++live_count; }`:
  a child exists for EVERY index below the longest list, also for elements that were never set (the child is
  bound to the existing, not valid element); the list never shrinks, `live_count` never decreases;
  `create_tsl_map_entry` throws for an index that already has an entry, binds the index source / the inputs
  (sampled) / the output element, starts the child and schedules the sampled input consumers
  (`Beh.init`, `Beh.startNext`; the push half of that schedule re-schedules the map node for the current time).
* `refresh_tsl_map_bindings` when `bindings_changed`: EVERY live child (also the ones just created) is re-bound;
  a re-binding that gives a child a new, valid source schedules the (idle, started) child for the current time
  (`CycleIn.rebound`, environment).
* the evaluation loop over ALL live indices `0 .. live_count` (no candidate set, no heap): skips missing /
  stopped entries, evaluates a child iff `child.next_scheduled_time() <= evaluation_time`; an exception of the
  child ESCAPES the map node (this node has no error capture: `with_error_capture` rejects it at wiring time);
  the child's own `propagate_nested_parent_schedule` after a completed evaluation; then, evaluated or not,
  `next != MAX_DT && next > evaluation_time` re-arms the map node through the parent graph's `schedule_node`
  (`scheduled <= current || when < scheduled`).
  `finalize_mapped_child_output` only runs for the forwarding output modes; the mapped functions of the check
  have direct-write terminals (`ChildTerminalWritesElement`).  Pause / resume (`resume_index`, a child whose
  `evaluate` returns false: mesh_ inside the mapped function) is NOT modelled: children complete.
* `tsl_map_node_stop` = `stop_and_destroy_noexcept`: every started entry below the slot capacity is stopped, in
  index order, then everything is destroyed and `live_count`, the sizes are reset.
* out-of-band notifications before the node runs (`nested_schedule_node_impl` on an idle, started child: cache
  update, parent `schedule_node`): `CycleIn.notified`, the ticks of the bound elements / broadcast arguments;
  the map node's own input notification: `CycleIn.inputTick`.

The child graph of one index is an ARBITRARY behaviour `MapNode.Beh Nat σ ι ο ε` (key = the list index; `restart`
is never used: an entry is never re-started).  Times are microsecond counts, `MIN_DT = 0`.  Core Lean only.
-/
namespace HgVerif.TslMap

open HgVerif.MapNode (StepRes Beh MAX_DT schedNode clampFuture clampStart setEnt)

local notation "Time" => Nat

/-- `TslMapEntry` (+ the owned output element of its index) -/
structure Entry (σ ο : Type) where
  started : Bool
  st : σ
  next : Time                  -- child graph `next_scheduled_time()`
  outv : Option ο := none      -- owned list element (`none`: not valid)

structure M (σ ο : Type) where
  ent : Nat → Option (Entry σ ο) := fun _ => none   -- `entries.entry_at(index)`
  cap : Nat := 0                                    -- `entries.slot_capacity()`
  live : Nat := 0                                   -- `live_count`
  sizes : List Nat := []                            -- `multiplexed_sizes`
  ps : Time := 0                                    -- the map node's slot in the parent schedule

structure CycleIn (ι : Type) where
  now : Time
  /-- size of every multiplexed dynamic list (`bound ? as_list().size() : 0`), in `multiplexed_inputs` order -/
  sizes : List Nat := []
  /-- an outer input of the map node ticked (a multiplexed list or a broadcast argument) -/
  inputTick : Bool := false
  /-- children scheduled at `now` by an input notification before the map node runs -/
  notified : List Nat := []
  /-- children that the re-binding of `refresh_tsl_map_bindings` schedules at `now` -/
  rebound : List Nat := []
  input : Nat → ι

structure CycleOut (ο : Type) where
  evaluated : Bool := false
  startedK : List Nat := []
  runs : List Nat := []
  modified : List (Nat × ο) := []
  ok : Bool := true                -- false: an exception escaped the map node

structure Rec (σ ο : Type) where
  m : M σ ο
  out : CycleOut ο

variable {σ ι ο ε : Type}

/-! ## `update_tsl_map_sources` -/

/-- `runtime_size = max over the multiplexed lists` -/
def runtimeSize (I : CycleIn ι) : Nat := I.sizes.foldl max 0

/-- `sizes_initialized` -/
def sizesInit (m : M σ ο) (I : CycleIn ι) : Bool := m.sizes.length == I.sizes.length

/-- `bindings_changed` (no source re-pointing): initialised and some stored size differs -/
def bindingsChanged (m : M σ ο) (I : CycleIn ι) : Bool := sizesInit m I && (m.sizes != I.sizes)

/-! ## out-of-band notification (push half) -/

/-- the cache update of `nested_schedule_node_impl`: `if (when < next) next = when` -/
def notifyE (now : Time) (e : Entry σ ο) : Entry σ ο :=
  { e with next := if now < e.next then now else e.next }

/-- `nested_schedule_node_impl` on the child of index `i`, `when = now`: ignored unless the child is started
    (it is idle: the map node is not driving it); cache update; parent `schedule_node`. -/
def notify (now : Time) (m : M σ ο) (i : Nat) : M σ ο :=
  match m.ent i with
  | none => m
  | some e =>
    if !e.started then m else
    { m with ent := setEnt m.ent i (some (notifyE now e)), ps := schedNode m.ps now now }

/-- before the map node's own evaluation in a cycle: the ticking inputs notify the bound children and the map
    node itself -/
def upstream (m : M σ ο) (I : CycleIn ι) : M σ ο :=
  let m1 := I.notified.foldl (notify I.now) m
  if I.inputTick then { m1 with ps := schedNode m1.ps I.now I.now } else m1

/-! ## creation -/

/-- a freshly started entry -/
def freshE (B : Beh Nat σ ι ο ε) (I : CycleIn ι) (i : Nat) : Entry σ ο :=
  { started := true, st := B.init i I.now (I.input i),
    next := clampStart I.now (B.startNext i I.now (I.input i)) }

/-- `create_tsl_map_entry(index)` followed by `++live_count` -/
def createEntry (B : Beh Nat σ ι ο ε) (I : CycleIn ι) (r : Rec σ ο) (i : Nat) : Rec σ ο :=
  if !r.out.ok then r else
  -- "tsl_map_node cannot reconstruct a live list index"
  if (r.m.ent i).isSome then { r with out := { r.out with ok := false } } else
  let e := freshE B I i
  let m1 : M σ ο := { r.m with ent := setEnt r.m.ent i (some e), live := r.m.live + 1 }
  -- a consumer scheduled for the current time on the idle, started child: push half
  let m2 := if e.next = I.now then { m1 with ps := schedNode m1.ps I.now I.now } else m1
  { m := m2, out := { r.out with startedK := r.out.startedK ++ [i] } }

/-- `refresh_tsl_map_bindings`: every live child is re-bound; the ones in `I.rebound` get scheduled -/
def refresh (I : CycleIn ι) (m : M σ ο) : M σ ο :=
  (List.range m.live).foldl (fun m i => if I.rebound.contains i then notify I.now m i else m) m

/-! ## the evaluation loop -/

/-- the owned element after an evaluation: the terminal's write, else what was there -/
def mergeOut (n o : Option ο) : Option ο := match n with | some v => some v | none => o

/-- the re-arm at the end of an iteration: `if (next != MAX_DT && next > evaluation_time) schedule_node(next)` -/
def rearm (now ps next : Time) : Time := if next ≠ MAX_DT ∧ next > now then schedNode ps now next else ps

/-- one iteration of `for (index = 0; index < live_count; ++index)` -/
def evalIndex (B : Beh Nat σ ι ο ε) (I : CycleIn ι) (r : Rec σ ο) (i : Nat) : Rec σ ο :=
  if !r.out.ok then r else
  match r.m.ent i with
  | none => r
  | some e =>
    if !e.started then r else
    if e.next ≤ I.now then
      let sr := B.step i I.now (I.input i) e.st
      match sr.err with
      | some _ =>
        -- the exception escapes `tsl_map_evaluate_impl`
        { m := { r.m with ent := setEnt r.m.ent i (some { e with st := sr.st }) }
          out := { r.out with runs := r.out.runs ++ [i], ok := false } }
      | none =>
        let e1 : Entry σ ο := { e with st := sr.st, next := clampFuture I.now sr.next, outv := mergeOut sr.out e.outv }
        -- `propagate_nested_parent_schedule` at the end of the child's completed evaluation
        let ps1 := if e1.next < MAX_DT then schedNode r.m.ps I.now e1.next else r.m.ps
        { m := { r.m with ent := setEnt r.m.ent i (some e1), ps := rearm I.now ps1 e1.next }
          out := { r.out with runs := r.out.runs ++ [i]
                              modified := (match sr.out with
                                | some v => r.out.modified ++ [(i, v)] | none => r.out.modified) } }
    else { r with m := { r.m with ps := rearm I.now r.m.ps e.next } }

/-- `tsl_map_evaluate_impl` (not resuming) -/
def evaluate (B : Beh Nat σ ι ο ε) (m : M σ ο) (I : CycleIn ι) : Rec σ ο :=
  let changed := bindingsChanged m I
  let n := runtimeSize I
  let m0 : M σ ο := { m with sizes := I.sizes, cap := max m.cap n }
  let r1 := (List.range' m0.live (n - m0.live)).foldl (createEntry B I) { m := m0, out := { evaluated := true } }
  let r2 : Rec σ ο := if changed && r1.out.ok then { r1 with m := refresh I r1.m } else r1
  (List.range r2.m.live).foldl (evalIndex B I) r2

/-- one engine cycle at `I.now`: upstream effects, then the map node runs iff its slot says so -/
def cycle (B : Beh Nat σ ι ο ε) (m : M σ ο) (I : CycleIn ι) : Rec σ ο :=
  let m1 := upstream m I
  if m1.ps = I.now then evaluate B m1 I else { m := m1, out := {} }

/-- a whole history -/
def run (B : Beh Nat σ ι ο ε) (m : M σ ο) : List (CycleIn ι) → M σ ο
  | [] => m
  | I :: rest => run B (cycle B m I).m rest

/-- `tsl_map_node_stop` / `stop_and_destroy_noexcept`: the indices whose child is stopped (in order), and the
    emptied storage -/
def stop (m : M σ ο) : List Nat × M σ ο :=
  ((List.range m.cap).filter fun i => match m.ent i with | some e => e.started | none => false,
   { cap := m.cap, ps := m.ps })

/-! ## observables -/

/-- element `i` of the output list (`none`: not valid) -/
def elem (m : M σ ο) (i : Nat) : Option ο := (m.ent i).bind (·.outv)

/-- the output list: one element per constructed child -/
def outList (m : M σ ο) : List (Option ο) := (List.range m.live).map (elem m)

/-- `TslMapNodeView::active_count` -/
def activeCount (m : M σ ο) : Nat :=
  ((List.range m.live).filter fun i => match m.ent i with | some e => e.started | none => false).length

/-- `TslMapNodeView::child_graph_count` -/
def childGraphCount (m : M σ ο) : Nat := m.live

end HgVerif.TslMap
