import HgVerif.Model.Extracted
import HgVerif.Model.Sched
/-!
Ties for the simulation run loop (C02): `advance_simulation` moves the clock to `min(pending, end_time)` and
`run_storage` leaves the loop when `next >= end_time` (`executor.cpp`); the model's `nextCycle` continues iff the cached
next time lies strictly before the end.
-/
namespace HgVerif.Tie
open HgVerif.Extracted HgVerif.Sched

theorem tie_simNextIsMinOfPendingAndEnd : simNextIsMinOfPendingAndEnd = true := rfl
/-- the model's loop ends exactly when the extracted test `next >= end_time` holds -/
theorem tie_runEndsWhenNext : ∀ (g : G) (endT n : Time), g.next = some n →
    (nextCycle g endT = none ↔ runEndsWhenNext.eval n endT = true) := by
  intro g endT n h
  unfold nextCycle
  rw [h]
  by_cases hge : n ≥ endT <;> simp [hge, Cmp.eval, runEndsWhenNext]
theorem tie_runEndsWhenTime : runEndsWhenTime = .ge := rfl

end HgVerif.Tie
