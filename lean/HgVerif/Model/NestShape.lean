/-
Structured nested-graph OUTPUT boundary (C09, structured-boundary stream).

What is modelled (read from the code, not a tidy spec):

* `include/hgraph/runtime/nested_bindings.h`  `bind_forwarding_output_tree_to_source`: the nested node's output of a
  fixed structure (TSB / fixed TSL, nested) is a tree whose LEAVES are forwarding endpoints (target links).  The helper
  walks the tree (interior nodes are navigation only: `indexed_child_at(index)` on target and source alike, so a shape
  is modelled by its leaf count, leaves in depth-first order) and binds every leaf:
  `changed = bind(child_i) || changed` (no short-circuit).  A leaf bind resolves the source through every currently
  BOUND forwarding endpoint (`resolve_forwarding_source`: an UNBOUND endpoint is returned as the result), does nothing
  when the leaf already points there, else re-points it: plain (`bind_forwarding_target`: raw bind that replays the
  source's last-modified time, then `record_target_modified(now)` when a previous target existed) or sampled
  (`bind_forwarding_target_sampled`: tick `now` when the new source or the previous target is valid).
* `src/hgraph/runtime/nested_graph_node.cpp`: `single_nested_graph_start` binds the output BEFORE it starts the child
  graph (so at depth d the levels are bound outermost first, each to the still unbound endpoint one level below);
  `single_nested_graph_evaluate` re-binds (plain) before EVERY child evaluation.
* `TSDataTracking::record_modified`: delta clocks are monotonic (`modified_time <= last` is ignored and does NOT notify);
  a recorded time notifies the subscribed links (`propagate`).
* a sub-graph whose result is COMPOSED (`stdlib::to_tsb/to_tsl`) ends in a synthesized REF terminal; the forwarding
  source is the REF's dereferenced alternative whose leaves are target links bound (`bind_current_value`) when the
  REF node first publishes, i.e. in the first cycle in which any leaf ticks (`comp = true`, level 0 of a chain).

Levels of one leaf's chain: `0` = the REF alternative's leaf (used only when `comp`), `1 .. D` = the nested nodes
(1 innermost, D the one in the outer graph), below them the terminal (`Term`: the body's output leaf).  The inlined
reading is `D = 0`: no forwarding, the leaves are the body's outputs.  Core Lean only.
-/
namespace HgVerif.NestShape

/-- what a forwarding endpoint points at -/
inductive Tgt where
  | none                -- unbound
  | ep (j : Nat)        -- the forwarding endpoint of level `j` (same leaf)
  | term                -- the body's output leaf
deriving DecidableEq, Repr

structure Link where
  tgt : Tgt := .none
  lastMod : Nat := 0     -- the link's own delta clock (MIN_DT = 0)

structure Term where
  val : Option Int := none
  lastMod : Nat := 0

/-- one leaf: its forwarding endpoints per level and the terminal -/
structure Chain where
  links : Nat → Link := fun _ => {}
  term : Term := {}

/-- `TSDataTracking::record_modified`: monotonic -/
def recordTime (old t : Nat) : Nat := if old < t then t else old

def setLink (c : Chain) (k : Nat) (l : Link) : Chain :=
  { c with links := fun j => if j = k then l else c.links j }

/-- `resolve_forwarding_source` started at the endpoint of level `j`: follow bound endpoints; an unbound endpoint is
    the result (the C++ loop is guarded by a cycle check, here by fuel) -/
def resolveSrc (c : Chain) : Nat → Nat → Tgt
  | 0, j => .ep j
  | fuel + 1, j =>
    match (c.links j).tgt with
    | .none => .ep j
    | .term => .term
    | .ep j' => resolveSrc c fuel j'

def resolveTgt (c : Chain) (fuel : Nat) : Tgt → Tgt
  | .ep j => resolveSrc c fuel j
  | x => x

/-- the source the binder of level `k` is handed, resolved: the child graph's terminal for the innermost level (the
    REF alternative's leaf when the result is composed), else the output leaf of the nested node one level below -/
def sourceOf (comp : Bool) (k : Nat) (c : Chain) : Tgt :=
  if k = 1 ∧ comp = false then .term else resolveSrc c k (k - 1)

def tgtLastMod (c : Chain) : Tgt → Nat
  | .none => 0
  | .ep j => (c.links j).lastMod
  | .term => c.term.lastMod

/-- validity of a RESOLVED source: an unbound endpoint has no value -/
def tgtValid (c : Chain) : Tgt → Bool
  | .term => c.term.val.isSome
  | _ => false

/-- did the thing a link is subscribed to record time `t` in this pass (seed `c0` = the chain before the pass) -/
def fired (t : Nat) (c0 c : Chain) : Tgt → Bool
  | .none => false
  | .term => decide (c0.term.lastMod < t) && c.term.lastMod == t
  | .ep j => decide ((c0.links j).lastMod < t) && (c.links j).lastMod == t

def stepLevel (t : Nat) (c0 : Chain) (k : Nat) (c : Chain) : Chain :=
  if fired t c0 c (c.links k).tgt && decide ((c.links k).lastMod < t) then setLink c k { c.links k with lastMod := t } else c

/-- observers are notified upwards: a link subscribed to something that recorded `t` records `t` itself (levels
    `0 .. m-1`, lowest first: a link only ever points to a lower level) -/
def propagate (t : Nat) (c0 : Chain) : Nat → Chain → Chain
  | 0, c => c
  | m + 1, c => stepLevel t c0 m (propagate t c0 m c)

/-- `record_target_modified(t)` on the link of level `k` -/
def recordLink (D t k : Nat) (c : Chain) : Chain :=
  let l := c.links k
  propagate t c (D + 1) (setLink c k { l with lastMod := recordTime l.lastMod t })

/-- the body sets its output leaf at time `t` -/
def writeTerm (D t : Nat) (v : Int) (c : Chain) : Chain :=
  propagate t c (D + 1) { c with term := { val := some v, lastMod := recordTime c.term.lastMod t } }

/-- the leaf case of `bind_forwarding_output_tree_to_source` for level `k` at time `t`; returns `changed` -/
def bindLeaf (comp sampled : Bool) (D t k : Nat) (c : Chain) : Bool × Chain :=
  let src := sourceOf comp k c
  let l := c.links k
  if l.tgt = src then (false, c) else
  let c1 := setLink c k { l with tgt := src }
  if sampled then
    -- bind_impl(schema, output, t, sampled, no replay): publish when the new source or the previous target is valid
    let prevValid := tgtValid c (resolveTgt c (D + 1) l.tgt)
    (true, if tgtValid c src || prevValid then recordLink D t k c1 else c1)
  else
    -- raw bind: replay_source_time
    let c2 := if tgtLastMod c src ≠ 0 then recordLink D (tgtLastMod c src) k c1 else c1
    -- TSOutputView::bind_forwarding_target: a RE-point is a tick of the endpoint
    (true, if t ≠ 0 ∧ l.tgt ≠ .none then recordLink D t k c2 else c2)

/-- the REF alternative's leaf is bound when the REF publishes (`bind_target_link_at` -> `bind_current_value`):
    same-target dedup, tick `t` when the target has a value -/
def bindAlt (D t : Nat) (c : Chain) : Chain :=
  let l := c.links 0
  if l.tgt = .term then c else
  let c1 := setLink c 0 { l with tgt := .term }
  if c.term.val.isSome then recordLink D t 0 c1 else c1

/-! ### the structure: `L` leaves -/

abbrev Tree := Nat → Chain

def updTree (tr : Tree) (i : Nat) (c : Chain) : Tree := fun j => if j = i then c else tr j

/-- the per-child loop of `bind_forwarding_output_tree_to_source` over leaves `0 .. n-1`:
    `changed = bind(child_i) || changed` -/
def bindTree (comp sampled : Bool) (D t k : Nat) : Nat → Tree → Bool × Tree
  | 0, tr => (false, tr)
  | n + 1, tr =>
    let r := bindTree comp sampled D t k n tr
    let b := bindLeaf comp sampled D t k (r.2 n)
    (b.1 || r.1, updTree r.2 n b.2)

/-- levels `k, k-1, .., 1`: the nested node of level `k` binds its output, then its child graph is started /
    evaluated, which reaches the nested node one level below (`single_nested_graph_bind_output`, plain) -/
def bindLevels (comp : Bool) (D L t : Nat) : Nat → Tree → Tree
  | 0, tr => tr
  | k + 1, tr => bindLevels comp D L t k (bindTree comp false D t (k + 1) L tr).2

/-- `single_nested_graph_start` of every level, outermost first -/
def startTree (comp : Bool) (D L t0 : Nat) : Tree := bindLevels comp D L t0 D (fun _ => {})

/-- one evaluation of the body: the leaves it sets, in leaf order -/
def applyWrites (D t : Nat) (w : Nat → Option Int) : Nat → Tree → Tree
  | 0, tr => tr
  | n + 1, tr =>
    let tr' := applyWrites D t w n tr
    match w n with
    | some v => updTree tr' n (writeTerm D t v (tr' n))
    | none => tr'

def anyWrite (w : Nat → Option Int) : Nat → Bool
  | 0 => false
  | n + 1 => (w n).isSome || anyWrite w n

def altAll (D t : Nat) : Nat → Tree → Tree
  | 0, tr => tr
  | n + 1, tr => let tr' := altAll D t n tr; updTree tr' n (bindAlt D t (tr' n))

/-- one engine cycle in which the outermost nested node is evaluated.  `pre`: the terminal is written BEFORE the node
    runs (a pass-through result: the terminal is an outer producer's output); otherwise the body runs inside. -/
structure Cycle where
  t : Nat
  pre : Bool := false
  w : Nat → Option Int

def cycleTree (comp : Bool) (D L : Nat) (cy : Cycle) (tr : Tree) : Tree :=
  let tr1 := if cy.pre then applyWrites D cy.t cy.w L tr else tr
  let tr2 := bindLevels comp D L cy.t D tr1
  let tr3 := if cy.pre then tr2 else applyWrites D cy.t cy.w L tr2
  if comp && anyWrite cy.w L then altAll D cy.t L tr3 else tr3

def run (comp : Bool) (D L t0 : Nat) (h : List Cycle) : Tree :=
  h.foldl (fun tr cy => cycleTree comp D L cy tr) (startTree comp D L t0)

/-! ### what a consumer of the OUTER output sees (level `D`; `D = 0`: the body's own output = the inlined wiring) -/

def outerMod (D t : Nat) (c : Chain) : Bool :=
  if D = 0 then c.term.lastMod == t else (c.links D).lastMod == t

def outerTgt (D : Nat) (c : Chain) : Tgt :=
  if D = 0 then .term else resolveSrc c (D + 1) D

def outerVal (D : Nat) (c : Chain) : Option Int :=
  match outerTgt D c with
  | .term => c.term.val
  | _ => none

/-- the leaf's entry in the recorded delta: it ticked and has a value -/
def outerDelta (D t : Nat) (c : Chain) : Option Int :=
  if outerMod D t c then outerVal D c else none

/-- `modified()` on a leaf that has no value -/
def outerGhost (D t : Nat) (c : Chain) : Bool :=
  outerMod D t c && (outerVal D c).isNone

/-! ### per-leaf reading of the same run (used by the proofs: leaves do not interact except through `changed`) -/

def bindLevelsChain (comp : Bool) (D t : Nat) : Nat → Chain → Chain
  | 0, c => c
  | k + 1, c => bindLevelsChain comp D t k (bindLeaf comp false D t (k + 1) c).2

def writeOpt (D t : Nat) (w : Option Int) (c : Chain) : Chain :=
  match w with
  | some v => writeTerm D t v c
  | none => c

def cycleChain (comp : Bool) (D t : Nat) (pre : Bool) (w : Option Int) (alt : Bool) (c : Chain) : Chain :=
  let c1 := if pre then writeOpt D t w c else c
  let c2 := bindLevelsChain comp D t D c1
  let c3 := if pre then c2 else writeOpt D t w c2
  if alt then bindAlt D t c3 else c3

end HgVerif.NestShape
