/-
Model of `src/hgraph/runtime/switch_node.cpp` (`switch_evaluate`, `activate_branch`,
`switch_teardown`, `select_branch`, `switch_node_stop`) together with the two pieces of the
surrounding runtime the property C12 rests on:

* the child graph as seen from the switch node: an ARBITRARY Mealy machine with its own next
  wake-up time (`Branch`), evaluated the way `graph.cpp` / `node.cpp` evaluate a nested graph's
  node: user code runs iff the node is scheduled (an active bound input ticked, the boundary was
  sampled at activation — `schedule_sampled_input_consumers` —, or its own timer is due) and the
  validity gate passes;
* the parent graph's schedule entry of the switch node (`nodeSlot`, the single `DateTime` of
  `graph.cpp schedule_node_impl`, rule `scheduled <= current || when < scheduled`): written by the
  notification of a ticking outer input and by `propagate_nested_parent_schedule` after the child
  was evaluated.

Times are microseconds (`MIN_DT = 0`); cycle `i` of a history runs at `t0 + i`.  The two graph
slots `graphs[0]`, `graphs[1]` are indexed by `Bool` (`false` = 0, `true` = 1, `1U - slot` = `!slot`).
Only the ordinary output path is modelled (`output_forwards_to_child_terminal = false`; the other
path performs the same stop / slot bookkeeping in the same order and differs in output binding
only).  The child's node may be bound to SEVERAL boundary inputs, each binding with its own
activity (`Branch.passive`: `InputActivity::Passive` positions) and validity policy
(`Branch.validInputs`); the sampled start of a new child (`nested_bindings.h`
`schedule_sampled_input_consumers` / `nested_input_binding_has_sampled_active_target`) is modelled
per BINDING, as coded: the node is scheduled iff SOME binding has an active target whose source is
valid (or the node's validity gate is explicitly empty).  Core Lean only.
-/
namespace HgVerif.Switch

local notation "Time" => Nat
abbrev Val := Int
abbrev Key := Int

/-- One outer input of the switch node as a child sees it this cycle. -/
structure Port where
  value : Option Val      -- `none`: not valid
  ticked : Bool           -- modified in this cycle
deriving Repr, DecidableEq

def Port.absent : Port := ⟨none, false⟩

/-- `bind_output_sampled`: a boundary bound at activation exposes the current value of a valid
    source as this cycle's delta. -/
def Port.sample (p : Port) : Port := ⟨p.value, p.ticked || p.value.isSome⟩

/-- A branch: an arbitrary Mealy machine over an arbitrary state type, with its own wake-up time.
    `binds` are the outer input positions it is bound to (`0` = the key, `1..` the time-series
    arguments; a key-consuming branch binds `0`).  `validInputs` is the node's validity gate:
    `none` = every bound input must be valid (the default), `some l` = the listed positions of
    `binds`; `some []` is the explicit empty gate (`accepts_invalid` in `nested_bindings.h`).
    `start now init` is the start hook (it may schedule at `now` or later); `step st now view woken`
    is one run of the user code (`woken`: its own timer is due) returning the new state, the output
    tick and the complete new wake-up time.  `passive` lists the positions of `binds` whose input is
    `InputActivity::Passive`: a tick of such an input does not schedule the node and its binding is
    not sampled at activation (the value is still readable). -/
structure Branch (σ : Type) where
  name : String
  binds : List Nat
  validInputs : Option (List Nat)
  init : σ
  start : Time → σ → σ × Option Time
  step : σ → Time → List Port → Bool → σ × Option Val × Option Time
  passive : List Nat := []

/-- some ACTIVE position (counted from `i`) of a view satisfies `f` -/
def activeAny (passive : List Nat) (f : Port → Bool) : Nat → List Port → Bool
  | _, [] => false
  | i, p :: r => (!passive.contains i && f p) || activeAny passive f (i + 1) r

namespace Branch
variable {σ : Type}

def view (b : Branch σ) (ports : List Port) : List Port := b.binds.map fun i => ports.getD i Port.absent

def gate (b : Branch σ) (v : List Port) : Bool :=
  match b.validInputs with
  | none => v.all fun p => p.value.isSome
  | some l => l.all fun i => (v.getD i Port.absent).value.isSome

def acceptsInvalid (b : Branch σ) : Bool :=
  match b.validInputs with
  | some [] => true
  | _ => false

/-- `nested_input_binding_has_sampled_active_target` for the binding at position `i` whose source is `p`:
    `active && (input.valid() || accepts_invalid)` -/
def bindingSampled (b : Branch σ) (i : Nat) (p : Port) : Bool :=
  !b.passive.contains i && (p.value.isSome || b.acceptsInvalid)

/-- the loop of `schedule_sampled_input_consumers` over the bindings of the node: it is scheduled at
    activation iff SOME binding qualifies -/
def sampledStart (b : Branch σ) (ports : List Port) : Bool :=
  activeAny b.passive (fun p => p.value.isSome || b.acceptsInvalid) 0 (b.view ports)

/-- an ordinary notification: an ACTIVE bound input ticked -/
def notified (b : Branch σ) (ports : List Port) : Bool :=
  activeAny b.passive (fun p => p.ticked) 0 (b.view ports)

end Branch

/-- The state of a child graph as far as its own behaviour goes. -/
structure Child (σ : Type) where
  br : Branch σ                -- the branch it was built from (`active_spec`)
  st : σ
  wake : Option Time           -- the child's `next_scheduled_time` (`none` = `MAX_DT`)
  sampledAt : Option Time      -- the cycle in which its boundary was bound `sampled`

/-- A constructed child graph (`GraphValue` in `graphs[slot]`). -/
structure Inst (σ : Type) where
  id : Nat                     -- ordinal of construction (reporting only)
  running : Bool               -- started and not stopped
  child : Child σ

inductive Event where
  | construct (id : Nat) (slot : Bool)
  | destroy (id : Nat) (slot : Bool)
  | start (id : Nat) (slot : Bool) (name : String)
  | stop (id : Nat) (slot : Bool)
  | eval (id : Nat) (slot : Bool)     -- the child graph was evaluated
  | user (id : Nat) (slot : Bool)     -- the child's user code ran
deriving Repr, DecidableEq

inductive Err where
  | noBranch        -- "switch_: no branch is registered for key ... (and no default branch)"
  | slotLogic       -- "switch_ previous graph does not occupy the reusable slot"
deriving Repr, DecidableEq

structure Cfg (σ : Type) where
  cases : List (Key × Branch σ)
  dflt : Option (Branch σ)
  reload : Bool                 -- `reload_on_ticked`

/-- `SwitchNodeStorage` + the node's schedule entry in its parent graph + its output value. -/
structure SW (σ : Type) where
  g0 : Option (Inst σ) := none
  g1 : Option (Inst σ) := none
  activeSlot : Option Bool := none
  previousSlot : Option Bool := none
  activeKey : Option Key := none
  nodeSlot : Time := 0          -- `MIN_DT`: never scheduled
  outVal : Option Val := none
  nextId : Nat := 0

variable {σ : Type}

def SW.graph (s : SW σ) (slot : Bool) : Option (Inst σ) := if slot then s.g1 else s.g0

def SW.setGraph (s : SW σ) (slot : Bool) (g : Option (Inst σ)) : SW σ :=
  if slot then { s with g1 := g } else { s with g0 := g }

/-- `SwitchNodeStorage::active_graph()` followed by the `has_value()` test every caller makes. -/
def SW.activeInst (s : SW σ) : Option (Inst σ) :=
  match s.activeSlot with
  | some a => s.graph a
  | none => none

/-- `stored_graph_count` -/
def SW.storedGraphs (s : SW σ) : Nat := (if s.g0.isSome then 1 else 0) + (if s.g1.isSome then 1 else 0)

/-- `select_branch`: first case whose key equals, else the default, else `nullptr`. -/
def selectBranch (cfg : Cfg σ) (k : Key) : Option (Branch σ) :=
  match cfg.cases.find? (fun c => c.1 == k) with
  | some c => some c.2
  | none => cfg.dflt

/-- `graph.cpp schedule_node_impl` for one node: `current` is the graph's evaluation time. -/
def schedNode (scheduled current when_ : Time) : Time :=
  if scheduled ≤ current ∨ when_ < scheduled then when_ else scheduled

/-- `switch_teardown`: stop the active child and retire it to the previous slot. -/
def teardown (s : SW σ) : SW σ × List Event :=
  match s.activeSlot with
  | none => (s, [])
  | some a =>
    match s.graph a with
    | none => (s, [])
    | some i =>
      ({ s.setGraph a (some { i with running := false }) with
          previousSlot := s.activeSlot, activeSlot := none, activeKey := none },
       [Event.stop i.id a])

/-- The freshly started child of branch `b` (state after the start hook; a start hook may schedule
    at `now` or later, earlier times are rejected by the scheduler). -/
def freshChild (b : Branch σ) (now : Time) : Child σ :=
  { br := b, st := (b.start now b.init).1,
    wake := (b.start now b.init).2.filter (fun w => now ≤ w),
    sampledAt := some now }

/-- `next_slot = active_slot ? 1 - *active_slot : 0` -/
def nextSlot (s : SW σ) : Bool :=
  match s.activeSlot with
  | some a => !a
  | none => false

/-- `previous_slot.has_value() && *previous_slot != next_slot` (the `logic_error` guard) -/
def slotMismatch (s : SW σ) : Bool :=
  match s.previousSlot with
  | some p => p != nextSlot s
  | none => false

/-- The body of `activate_branch`: destroy what the reusable slot holds, construct the new child
    there, bind its inputs `sampled`, stop the old child, make the new one active, start it. -/
def activateBody (s : SW σ) (b : Branch σ) (k : Key) (now : Time) : SW σ × List Event :=
  let next := nextSlot s
  let evD := match s.graph next with
    | some old => [Event.destroy old.id next]
    | none => []
  let id := s.nextId + 1
  let built : Inst σ := { id := id, running := false,
                          child := { br := b, st := b.init, wake := none, sampledAt := some now } }
  let s2 : SW σ := { (s.setGraph next none).setGraph next (some built) with previousSlot := none, nextId := id }
  let td := teardown s2
  let s4 : SW σ := { td.1 with activeSlot := some next, activeKey := some k }
  (s4.setGraph next (some { id := id, running := true, child := freshChild b now }),
   evD ++ [Event.construct id next] ++ td.2 ++ [Event.start id next b.name])

/-- `activate_branch` -/
def activate (s : SW σ) (b : Branch σ) (k : Key) (now : Time) : Except Err (SW σ × List Event) :=
  if slotMismatch s then .error .slotLogic else .ok (activateBody s b k now)

structure ChildOut (σ : Type) where
  child : Child σ
  out : Option Val
  ranUser : Bool

/-- The bound inputs as the child sees them at `now`: sampled in the activation cycle. -/
def Child.seen (i : Child σ) (now : Time) (ports : List Port) : List Port :=
  if i.sampledAt == some now then (i.br.view ports).map Port.sample else i.br.view ports

/-- The child's node is scheduled at `now`: in the cycle it was activated by the sampled start
    (`schedule_sampled_input_consumers`: some binding with an active target and a valid source, or an
    empty validity gate; the sources ticked before the child subscribed, so no ordinary notification
    arrives in that cycle), later by a tick of an ACTIVE bound input; or its own timer is due. -/
def Child.due (i : Child σ) (now : Time) (ports : List Port) : Bool :=
  (if i.sampledAt == some now then i.br.sampledStart ports else i.br.notified ports) ||
    i.wake == some now

/-- One evaluation of a child graph at `now` (`GraphView::evaluate` on the nested graph): the user
    code runs iff the node is scheduled and its validity gate passes (`node.cpp evaluate_impl`); a
    due timer event is consumed either way. -/
def childEval (i : Child σ) (now : Time) (ports : List Port) : ChildOut σ :=
  if i.due now ports then
    if i.br.gate (i.seen now ports) then
      let r := i.br.step i.st now (i.seen now ports) (i.wake == some now)
      { child := { i with st := r.1, wake := r.2.2.filter (fun w => now < w) }, out := r.2.1, ranUser := true }
    else
      { child := { i with wake := if i.wake == some now then none else i.wake }, out := none, ranUser := false }
  else { child := i, out := none, ranUser := false }

structure EvalOut (σ : Type) where
  sw : SW σ
  out : Option Val
  events : List Event

/-- The key-tick rule of `switch_evaluate`. -/
def keyStep (cfg : Cfg σ) (s : SW σ) (now : Time) (key : Port) : Except Err (SW σ × List Event) :=
  match key.value with
  | none => .ok (s, [])
  | some k =>
    if key.ticked || s.activeSlot.isNone then
      let same := s.activeSlot.isSome && s.activeKey == some k
      if s.activeSlot.isNone || cfg.reload || !same then
        match selectBranch cfg k with
        | none => .error .noBranch
        | some b => activate s b k now
      else .ok (s, [])
    else .ok (s, [])

/-- Evaluate the active child only, then propagate its schedule to the parent's entry. -/
def evalActive (s : SW σ) (now : Time) (ports : List Port) (ev : List Event) : EvalOut σ :=
  match s.activeSlot with
  | none => { sw := s, out := none, events := ev }
  | some a =>
    match s.graph a with
    | none => { sw := s, out := none, events := ev }
    | some i =>
      let c := childEval i.child now ports
      let s2 := s.setGraph a (some { i with child := c.child })
      let slot := match c.child.wake with
        | some w => schedNode s2.nodeSlot now w
        | none => s2.nodeSlot
      { sw := { s2 with nodeSlot := slot, outVal := match c.out with
                                                      | some v => some v
                                                      | none => s2.outVal },
        out := c.out,
        events := ev ++ [Event.eval i.id a] ++ (if c.ranUser then [Event.user i.id a] else []) }

/-- `switch_evaluate` -/
def evaluate (cfg : Cfg σ) (s : SW σ) (now : Time) (ports : List Port) : Except Err (EvalOut σ) :=
  match keyStep cfg s now (ports.getD 0 Port.absent) with
  | .error e => .error e
  | .ok (s1, ev1) => .ok (evalActive s1 now ports ev1)

/-! ### the surrounding graph: replayed inputs, one engine cycle per history entry -/

/-- The ticks of one cycle: the key and the time-series arguments (`none` = no tick). -/
structure Cyc where
  key : Option Key := none
  ins : List (Option Val) := []
deriving Repr, DecidableEq

/-- Current values of the outer inputs (what the replay nodes hold). -/
structure Held where
  key : Option Key := none
  ins : List (Option Val) := []
deriving Repr, DecidableEq

def orElse (t h : Option Val) : Option Val :=
  match t with
  | some v => some v
  | none => h

def mergeIns : List (Option Val) → List (Option Val) → List (Option Val)
  | h :: hs, t :: ts => orElse t h :: mergeIns hs ts
  | [], ts => ts
  | hs, [] => hs

def Held.update (h : Held) (c : Cyc) : Held := { key := orElse c.key h.key, ins := mergeIns h.ins c.ins }

def insPorts : List (Option Val) → List (Option Val) → List Port
  | h :: hs, t :: ts => ⟨h, t.isSome⟩ :: insPorts hs ts
  | h :: hs, [] => ⟨h, false⟩ :: insPorts hs []
  | [], _ => []

/-- The outer inputs as the switch node sees them in a cycle (`h` is already updated). -/
def mkPorts (h : Held) (c : Cyc) : List Port := ⟨h.key, c.key.isSome⟩ :: insPorts h.ins c.ins

def Cyc.anyTick (c : Cyc) : Bool := c.key.isSome || c.ins.any (fun t => t.isSome)

structure Run (σ : Type) where
  sw : SW σ := {}
  held : Held := {}
  dead : Bool := false          -- the run failed in an earlier cycle

structure CycleOut (σ : Type) where
  run : Run σ
  out : Option Val              -- the recorded output tick
  events : List Event
  err : Option Err

/-- One engine cycle at `now`: the replay nodes tick (notifying the switch node, which writes its
    schedule entry), the switch node is evaluated iff its entry equals `now`. -/
def cycle (cfg : Cfg σ) (r : Run σ) (now : Time) (c : Cyc) : CycleOut σ :=
  if r.dead then { run := r, out := none, events := [], err := none }
  else
    let held := r.held.update c
    let slot1 := if c.anyTick then schedNode r.sw.nodeSlot now now else r.sw.nodeSlot
    let s1 : SW σ := { r.sw with nodeSlot := slot1 }
    if slot1 == now then
      match evaluate cfg s1 now (mkPorts held c) with
      | .error e => { run := { sw := s1, held := held, dead := true }, out := none, events := [], err := some e }
      | .ok o => { run := { sw := o.sw, held := held, dead := false }, out := o.out, events := o.events, err := none }
    else { run := { sw := s1, held := held, dead := false }, out := none, events := [], err := none }

/-- The whole history, cycle `i` at `now + i`. -/
def runFrom (cfg : Cfg σ) (r : Run σ) (now : Time) : List Cyc → List (CycleOut σ)
  | [] => []
  | c :: cs => let o := cycle cfg r now c; o :: runFrom cfg o.run (now + 1) cs

def finalRun (cfg : Cfg σ) (r : Run σ) (now : Time) : List Cyc → Run σ
  | [] => r
  | c :: cs => finalRun cfg (cycle cfg r now c).run (now + 1) cs

/-- `switch_node_stop` (graph stop) followed by the disposal of the node storage
    (`std::array<GraphValue, 2>` is destroyed last element first). -/
def shutdown (s : SW σ) : List Event :=
  (teardown s).2 ++
  (match s.g1 with
   | some i => [Event.destroy i.id true]
   | none => []) ++
  (match s.g0 with
   | some i => [Event.destroy i.id false]
   | none => [])

end HgVerif.Switch
