/-
C13 — model of the REF linking CONTRACT: a selection operator publishing a reference, the
from-REF dereference with its per-consumer links, and what a consumer reads through it.

This is a model at the level of the contract written down in
`docs/source/developer_guide/data_structures/linking_strategies.rst` ("Sampled rebinds through
alternatives") and of the observable behaviour of the anchored files, NOT of the attachment
bookkeeping of `ts_output/alternative.cpp`:

* `if_then_else_impl` / `if_cmp_impl` (`lib/std/operators/impl/control_impl.h`): on a selector tick
  publish the selected branch's reference unless the output already holds the same reference
  (`select`, same-reference de-duplication).
* `RefLinkAlternativeState::refresh` → `bind_target_link_at` (`alternative.cpp`): same-target
  de-duplication, else unsubscribe the old target, subscribe the new one, and
  - scalar shapes (`bind_current_value`): record the link as modified (and so schedule the active
    consumers) iff the new target has a current value;
  - keyed shapes TSS/TSD (`bind_sampled` → `bind_impl`): publish a *sampled structural transition*
    (record modified, schedule, keep the previous target for this cycle) iff the new target is valid
    or the previous one was (`retargetOne`).
* `TSInputTargetLinkState::notify` (`target_link.cpp`): a tick of the bound target records the link
  as modified and schedules the consumer (`tickTarget`).
* `TSInputView::InputDataCursor::modified` / `delta_value` (`base_view.cpp`) and the keyed
  transition accessors of `target_link_ops.cpp` (`target_link_previous_slot_was_published`,
  `set_access_slot_published`, `target_link_previous_contains_published`): `view`.
  `pubR` is the code AFTER the fix of finding C13-B (`/verif/fixes/c13_b.patch`): a pending-erase
  slot of the previous target counts as published only when the removal happened in the transition
  cycle.  Odd on purpose, because the code is:
  - `dv` (`delta_value()`) of a keyed shape is the target's own delta storage: empty in a pure
    retarget cycle, only the target's own delta in a retarget+tick cycle — finding C13-A.
* The engine part is the minimum needed: targets tick first (producers are ranked before the
  selection operator, C01), then the selector, then the scheduled consumers are evaluated once,
  gated by input validity unless the input is `InputValidity::Unchecked`.
* `startSched` / `resample`: inside a `nested_` graph an all-`Unchecked` consumer is evaluated once at
  child start, and - when the boundary input of the nested graph is the reference itself - at every
  tick of the reference (known finding F2 of C09, `nested_bindings.h` sampled input consumers); the
  model only reproduces the effect.

Times are cycle numbers (`now = i + 1` in engine cycle `i`, `0` = never).  Targets and consumers
are numbered; collections are association lists `key ↦ value` (TS: the single key `0`; TSS: the
values are `0`).  Core Lean only.
-/
namespace HgVerif.RefLink

/-- times are cycle numbers; `abbrev Time := Nat` is spelled `Nat` below so that `omega` sees it -/
abbrev Time := Nat

inductive Shape where
  | ts | tss | tsd
  deriving DecidableEq, Repr

/-- one tick of a target as the replay source emits it: entries to set and keys to delete -/
structure Delta where
  sets : List (Int × Int) := []
  dels : List Int := []
  deriving Repr

def keys (m : List (Int × Int)) : List Int := m.map (·.1)

def hasKey (m : List (Int × Int)) (k : Int) : Bool := (keys m).contains k

/-- `map[k] = v` (insert or overwrite) -/
def setKey (m : List (Int × Int)) (k v : Int) : List (Int × Int) :=
  if hasKey m k then m.map (fun p => if p.1 == k then (k, v) else p) else m ++ [(k, v)]

/-- add `k` to a set if absent -/
def addKey (m : List (Int × Int)) (k : Int) : List (Int × Int) :=
  if hasKey m k then m else m ++ [(k, 0)]

/-- a target output -/
structure Target where
  /-- `has_current_value` -/
  valid : Bool := false
  /-- live contents -/
  items : List (Int × Int) := []
  /-- last modified time -/
  lmt : Nat := 0
  /-- keys whose slot carries the `added` mark of the LAST mutation -/
  added : List Int := []
  /-- pending-erase slots of the LAST mutation (kept until the next mutation) -/
  removed : List Int := []
  /-- children modified by the last mutation -/
  modKV : List (Int × Int) := []
  /-- consumers (their links) subscribed to this output -/
  subs : List Nat := []

/-- `TS<Int>` tick -/
def applyTs (t : Target) (now : Nat) (d : Delta) : Target × Bool :=
  match d.sets with
  | [] => (t, false)
  | (_, v) :: _ =>
    ({ t with valid := true, items := [(0, v)], lmt := now,
              added := if t.valid then [] else [0], removed := [], modKV := [(0, v)] }, true)

/-- keys of `t` deleted by `d` (the pending-erase slots of this mutation) -/
def goneKeys (t : Target) (d : Delta) : List Int := (keys t.items).filter (fun k => d.dels.contains k)

/-- entries of `t` surviving the deletions of `d` -/
def keptItems (t : Target) (d : Delta) : List (Int × Int) := t.items.filter (fun p => !d.dels.contains p.1)

/-- `TSS<Int>` tick (`TSSDataMutationView::remove/add` touch - tick - even when nothing changes) -/
def applyTss (t : Target) (now : Nat) (d : Delta) : Target × Bool :=
  let items' := (keys d.sets).foldl addKey (keptItems t d)
  ({ t with valid := true, items := items', lmt := now,
            added := (keys items').filter (fun k => !hasKey (keptItems t d) k), removed := goneKeys t d,
            modKV := [] }, true)

/-- a `TSD` delta without any effective removal and without entries does not tick -/
def tsdNoop (t : Target) (d : Delta) : Bool := (goneKeys t d).isEmpty && d.sets.isEmpty

/-- `TSD<Int,TS<Int>>` tick -/
def applyTsd (t : Target) (now : Nat) (d : Delta) : Target × Bool :=
  let items' := d.sets.foldl (fun m p => setKey m p.1 p.2) (keptItems t d)
  if tsdNoop t d then (t, false)
  else
    ({ t with valid := true, items := items', lmt := now,
              added := (keys items').filter (fun k => !hasKey (keptItems t d) k), removed := goneKeys t d,
              modKV := items'.filter (fun p => (keys d.sets).contains p.1) }, true)

/-- apply one replayed delta; the flag says whether the output ticked -/
def applyDelta (sh : Shape) (t : Target) (now : Nat) (d : Delta) : Target × Bool :=
  match sh with
  | .ts => applyTs t now d
  | .tss => applyTss t now d
  | .tsd => applyTsd t now d

/-- a consumer's link below the reference -/
structure Link where
  /-- the target the link is bound (and subscribed) to -/
  bound : Option Nat := none
  /-- link tracking: last modified time (target notifications and sampled rebinds) -/
  lmt : Nat := 0
  /-- previous target, borrowed for the cycle of a sampled structural transition -/
  prev : Option Nat := none
  /-- time of the sampled structural transition (`0` = none) -/
  transAt : Nat := 0
  /-- `false` = `InputValidity::Unchecked` -/
  checked : Bool := true

structure State where
  shape : Shape := .ts
  /-- number of consumers below the reference -/
  nC : Nat := 1
  /-- number of targets -/
  nT : Nat := 2
  targets : Nat → Target := fun _ => {}
  links : Nat → Link := fun _ => {}
  /-- value of the REF output of the selection operator -/
  ref : Option Nat := none
  refLmt : Nat := 0
  /-- consumers scheduled for the current cycle -/
  sched : List Nat := []
  now : Nat := 0
  /-- consumers that are scheduled by every tick of the REF output itself: an all-`Unchecked` consumer
      inside a `nested_` graph whose boundary input IS the reference (the boundary re-bind samples the
      consumers that accept an invalid input - same mechanism as known finding F2 of C09) -/
  resample : List Nat := []

def upd {α : Type} (f : Nat → α) (i : Nat) (v : α) : Nat → α := fun j => if j = i then v else f j

/-- a tick of target `t` -/
def tickTarget (s : State) (t : Nat) (d : Delta) : State :=
  let r := applyDelta s.shape (s.targets t) s.now d
  if r.2 then
    { s with targets := upd s.targets t r.1,
             -- `TSInputTargetLinkState::notify`: record on the link, schedule the consumer
             links := fun c => if (s.targets t).subs.contains c then { s.links c with lmt := s.now } else s.links c,
             sched := s.sched ++ (s.targets t).subs }
  else s

/-- does re-binding consumer `c` to `new` publish, i.e. record the link as modified and schedule?
    scalar (`bind_current_value`): iff the new target has a current value;
    keyed (`bind_impl`, `publish_sampled_transition`): iff the new target is valid or the old one was -/
def publishes (s : State) (c new : Nat) : Bool :=
  let oldValid := match (s.links c).bound with
    | some o => (s.targets o).valid
    | none => false
  if s.shape != .ts then (s.targets new).valid || oldValid else (s.targets new).valid

/-- re-bind consumer `c` to target `new` (`bind_target_link_at`) -/
def retargetOne (s : State) (c : Nat) (new : Nat) : State :=
  let l := s.links c
  if l.bound = some new then s   -- SAME-TARGET dedup
  else
    -- detach: unsubscribe from the old target
    let targets1 := match l.bound with
      | some o => upd s.targets o { s.targets o with subs := (s.targets o).subs.filter (fun x => x != c) }
      | none => s.targets
    -- bind: subscribe to the new one
    let targets2 := upd targets1 new { targets1 new with subs := c :: (targets1 new).subs }
    let keyed := s.shape != .ts
    let publish := publishes s c new
    let l' : Link :=
      { l with bound := some new,
               prev := if keyed && publish then l.bound else none,
               transAt := if keyed && publish then s.now else 0,
               lmt := if publish then s.now else l.lmt }
    { s with targets := targets2, links := upd s.links c l',
             sched := if publish then s.sched ++ [c] else s.sched }

/-- the selection operator (`if_then_else_impl` / `if_cmp_impl`) evaluated on a selector tick -/
def select (s : State) (sel : Option Nat) : State :=
  match sel with
  | none => s
  | some i =>
    if s.ref = some i then s    -- same-reference de-duplication: no tick
    else
      -- the REF output ticks; the from-REF alternative re-binds every consumer below it
      (List.range s.nC).foldl (fun st c => retargetOne st c i)
        { s with ref := some i, refLmt := s.now, sched := s.sched ++ s.resample }

/-- what a consumer reads through its link -/
structure View where
  valid : Bool := false
  modified : Bool := false
  items : List (Int × Int) := []
  /-- `delta_value()`; `none` = no value -/
  dv : Option (List Int × List Int × List (Int × Int)) := none
  /-- the key accessors `added()` / `removed()` / `modified_items()` -/
  added : List Int := []
  removed : List Int := []
  modk : List (Int × Int) := []
  /-- a sampled structural transition is visible in this cycle -/
  trans : Bool := false

/-- keys of the previous target that count as *published* when removals are enumerated
    (`target_link_previous_slot_was_published` over `set_access_slot_published`): live slots, and
    pending-erase slots only when the previous target removed them in this very cycle (the slot store
    keeps pending-erase slots until the next mutation - an older removal was delivered in its own
    cycle; fix of finding C13-B, see `pubRPreFix` in `Lemmas/RefLink.lean`), minus slots added in
    this cycle -/
def pubR (old : Target) (now : Nat) : List Int :=
  (keys old.items ++ (if old.lmt == now then old.removed else [])).filter
    (fun k => !(old.lmt == now && old.added.contains k))

/-- `target_link_previous_contains_published` -/
def pubA (old : Target) (now : Nat) (k : Int) : Bool :=
  (hasKey old.items k && !(old.lmt == now && old.added.contains k)) ||
  (old.lmt == now && old.removed.contains k)

/-- the previous target a link borrows for its transition cycle (nothing = an empty output) -/
def prevTarget (s : State) (p : Option Nat) : Target :=
  match p with
  | some p => s.targets p
  | none => {}

def view (s : State) (c : Nat) : View :=
  let l := s.links c
  match l.bound with
  | none => { modified := l.lmt == s.now }
  | some t =>
    let tg := s.targets t
    let ticked := tg.lmt == s.now
    let old : Target := prevTarget s l.prev
    let trans := s.shape != .ts && l.transAt == s.now
    { valid := tg.valid,
      modified := ticked || l.lmt == s.now,
      items := tg.items,
      dv := if s.shape == .ts then (if tg.valid then some ([], [], tg.items) else none)
            else if ticked then some (tg.added, tg.removed, tg.modKV) else none,
      added := if trans then (keys tg.items).filter (fun k => !pubA old s.now k)
               else if ticked then tg.added else [],
      removed := if trans then (pubR old s.now).filter (fun k => !hasKey tg.items k)
                 else if ticked then tg.removed else [],
      modk := if trans then tg.items else if ticked then tg.modKV else [],
      trans := trans }

/-- the consumers whose user code runs in this cycle -/
def evaluated (s : State) : List Nat :=
  (List.range s.nC).filter (fun c => s.sched.contains c && (!(s.links c).checked || (view s c).valid))

structure CycleIn where
  /-- selector tick: index of the selected branch -/
  sel : Option Nat := none
  /-- replayed delta per target -/
  ticks : Nat → Option Delta := fun _ => none

def tickAll (s : State) (ticks : Nat → Option Delta) (ts : List Nat) : State :=
  ts.foldl (fun st t => match ticks t with
    | some d => tickTarget st t d
    | none => st) s

/-- state after the producers and the selection operator ran, before the consumers do -/
def cycleMid (s : State) (inp : CycleIn) : State :=
  select (tickAll { s with now := s.now + 1 } inp.ticks (List.range s.nT)) inp.sel

/-- one engine cycle: next state and what each evaluated consumer saw -/
def cycle (s : State) (inp : CycleIn) : State × List (Nat × View) :=
  let m := cycleMid s inp
  ({ m with sched := [] }, (evaluated m).map (fun c => (c, view m c)))

def run (s : State) : List CycleIn → State × List (List (Nat × View))
  | [] => (s, [])
  | i :: is =>
    let r := cycle s i
    let rest := run r.1 is
    (rest.1, r.2 :: rest.2)

structure Cfg where
  shape : Shape := .ts
  nC : Nat := 1
  nT : Nat := 2
  /-- which consumers gate on validity -/
  checked : Nat → Bool := fun _ => true
  /-- consumers evaluated once at start (all-`Unchecked` consumer inside a `nested_` graph) -/
  startSched : List Nat := []
  /-- consumers scheduled by every REF tick (see `State.resample`) -/
  resample : List Nat := []

def init (cfg : Cfg) : State :=
  { shape := cfg.shape, nC := cfg.nC, nT := cfg.nT,
    links := fun c => { checked := cfg.checked c }, sched := cfg.startSched, resample := cfg.resample }

end HgVerif.RefLink
