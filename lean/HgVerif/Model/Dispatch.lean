/-
Model of operator overload resolution in /repo:

* `src/hgraph/types/type_pattern.cpp`      `scalar_pattern_match`, `size_pattern_match`,
  `input_ts_pattern_match` (+ the `Var`/`TSS`/`TSW` arms of `ts_pattern_match` it falls into),
  `scalar_pattern_resolve` / `ts_pattern_resolve`, `scalar_pattern_rank` / `ts_pattern_rank`;
* `include/hgraph/types/type_resolution.h` `ResolutionMap` (three disjoint stores, `find_*`, `bind_*`);
* `include/hgraph/types/operator_dispatch.h` `RankAccumulator`, `collect_scalar_rank`,
  `collect_ts_rank`, `operator_rank` (l.1101-1218) -- this is the `impl.rank` that `resolve` sorts by;
* `src/hgraph/types/operator_dispatch.cpp`  `normalize_call` (positional arity only), `try_match`
  (per-argument loop, rank adjustments, output-resolvable check) and `OperatorRegistry::resolve`
  (survivors, stable sort by rank, tie at the best rank is an error).

Modelled pattern language: scalar `Var` (optional constraint list) / `Concrete`; time-series `Var`
(optional constraint list), `Concrete` leaf, `TS`, `TSS`, `TSL` (fixed size, `0` = any size, or size
variable with optional constraints), `TSD`, `TSW` (tick window or any-window), un-named `TSB` with
field names, NAMED `TSB` (a bundle term carries an optional name: two bundle types are the same type
iff name and field list are equal; an un-named pattern ignores the name, a named pattern requires it),
`TSB[schema var]`, `REF`, `SIGNAL`.  Scalars are the four atoms bool/int/float/str.
Variadic candidates (`impl.variadic`) are modelled in `Model/DispatchVar.lean`, which wraps this file.
Outside the model: `requires_` predicates, default resolvers, defaults, packed variadic tails, keyword
arguments and `**kwargs` packing (a declared collector only contributes its rank penalty), scalar ->
const promotion, bundle inheritance (`bundle_is_a`), the registry's name space (one name, one field
list: `TypeRegistry::tsb` throws on a conflicting re-declaration) and the `<name>_deref` re-naming that
`TypeRegistry::dereference` gives a named bundle with `REF` fields (`derefAll` keeps the name; the only
consumer, `accepts`, compares structurally and never sees it), scalar container patterns, duration windows,
the OUTPUT-direction matcher (`expected_output`), size hints, Python-sourced candidates.

Which comparison the code makes where (type_pattern.cpp):
* identity of the interned schema (`bound == concrete`; here `=` of terms, names included): a whole-time-series
  variable `~T` that is already bound (`varMatch`);
* `time_series_schema_equivalent` (here `equiv`: names NOT compared): a `Concrete` leaf (`accepts`), the
  constraint list of a variable (`allowedT`), a `TSB[~S]` schema variable that is already bound.

`TypeRegistry::ref` never interns `REF[REF[X]]` (it returns `REF[X]`); `mkRef` mirrors that, the driver's
parser uses it, and `subst` uses it where the code calls `registry.ref`.  The matchers are total on
every `CT` term regardless.

Names (type variables, field names, labels) are naturals; the driver interns strings.
Core Lean only (no Mathlib) so the driver can run it.
-/
namespace HgVerif.Dispatch

abbrev Name := Nat
/-- interned scalar `ValueTypeMetaData*`: 0 bool, 1 int, 2 float, 3 str -/
abbrev Sc := Nat

/-! ## concrete schemas (`TSValueTypeMetaData`, interned: equality of terms = pointer identity).
A bundle is nominal: `TypeRegistry::tsb(name, fields)` and `un_named_tsb(fields)` intern DIFFERENT
schemas for the same field list, and so do two different names. -/
mutual
inductive CT where
  | ts (s : Sc)
  | tss (s : Sc)
  | tsl (e : CT) (n : Nat)          -- `n = 0`: dynamic size
  | tsd (k : Sc) (v : CT)
  | tsw (s : Sc) (period minp : Nat)
  | tsb (nm : Option Name) (fs : CFields)   -- `none`: un-named bundle; `some n`: the named bundle `n`
  | ref (t : CT)
  | signal
deriving DecidableEq, Repr
inductive CFields where
  | nil
  | cons (f : Name) (t : CT) (rest : CFields)
deriving DecidableEq, Repr
end

/-! ## patterns (`ScalarPattern`, `TypePattern`) -/
inductive SP where
  | var (n : Name) (cs : List Sc)    -- `constraints` (empty = unconstrained)
  | conc (s : Sc)
deriving DecidableEq, Repr

/-- the size part of a `TSL` pattern: `fixed_size` (0 = unconstrained) or `size_var` + `size_constraints` -/
inductive SizeP where
  | fixed (n : Nat)
  | var (n : Name) (cs : List Nat)
deriving DecidableEq, Repr

mutual
inductive TP where
  | var (n : Name) (cs : List CT)
  | conc (c : CT)
  | ts (s : SP)
  | tss (s : SP)
  | tsl (e : TP) (sz : SizeP)
  | tsd (k : SP) (v : TP)
  | tsw (s : SP) (w : Option (Nat × Nat))   -- `none` = `any_window`
  | tsb (nm : Option Name) (fs : PFields)    -- `named_bundle` / `bundle_name` + `field_names` + children
  | tsbVar (n : Name)                        -- `schema_var`
  | ref (t : TP)
  | signal
deriving DecidableEq, Repr
inductive PFields where
  | nil
  | cons (f : Name) (t : TP) (rest : PFields)
deriving DecidableEq, Repr
end

/-! ## `ResolutionMap` -/

/-- `unordered_map::find` on an association list (keys are kept unique by `bind`) -/
def lookup {α β : Type} [DecidableEq α] : List (α × β) → α → Option β
  | [], _ => none
  | (k, v) :: rest, n => if k = n then some v else lookup rest n

structure RMap where
  ts : List (Name × CT) := []
  sc : List (Name × Sc) := []
  sz : List (Name × Nat) := []
deriving DecidableEq, Repr

def RMap.empty : RMap := {}
def RMap.findTs (m : RMap) (n : Name) : Option CT := lookup m.ts n
def RMap.findSc (m : RMap) (n : Name) : Option Sc := lookup m.sc n
def RMap.findSz (m : RMap) (n : Name) : Option Nat := lookup m.sz n
/-- `bind_*` is only ever reached after `find_*` returned nothing, so it never throws here -/
def RMap.bindTs (m : RMap) (n : Name) (c : CT) : RMap := { m with ts := (n, c) :: m.ts }
def RMap.bindSc (m : RMap) (n : Name) (c : Sc) : RMap := { m with sc := (n, c) :: m.sc }
def RMap.bindSz (m : RMap) (n : Name) (c : Nat) : RMap := { m with sz := (n, c) :: m.sz }

/-- `scalar_allowed_by_constraints` / `size_allowed_by_constraints`: empty list = anything goes,
    otherwise identity with one of the constraints -/
def allowed {α : Type} [DecidableEq α] (cs : List α) (c : α) : Bool := cs.isEmpty || decide (c ∈ cs)

mutual
/-- `time_series_schema_equivalent` (endpoint_schema.cpp l.98): a STRUCTURAL comparison.  For a bundle
    it compares the field count, the field names and (recursively) the field types - NOT the bundle
    name: `TSB<A>[x,y]`, `TSB<B>[x,y]` and the un-named `TSB[x,y]` are "equivalent". -/
def equiv : CT → CT → Bool
  | .ts a, .ts b => decide (a = b)
  | .tss a, .tss b => decide (a = b)
  | .tsl e n, .tsl e' n' => decide (n = n') && equiv e e'
  | .tsd k v, .tsd k' v' => decide (k = k') && equiv v v'
  | .tsw s p mn, .tsw s' p' mn' => decide (s = s') && decide (p = p') && decide (mn = mn')
  | .tsb _ fs, .tsb _ gs => equivFields fs gs
  | .ref t, .ref t' => equiv t t'
  | .signal, .signal => true
  | _, _ => false
def equivFields : CFields → CFields → Bool
  | .nil, .nil => true
  | .cons f t r, .cons g u s => decide (f = g) && equiv t u && equivFields r s
  | _, _ => false
end

/-- `ts_allowed_by_constraints` (type_pattern.cpp l.36): empty list = anything goes, otherwise
    `time_series_schema_equivalent` with one of the constraints (structural, not identity) -/
def allowedT (cs : List CT) (c : CT) : Bool := cs.isEmpty || cs.any (fun k => equiv k c)

/-! ## REF transparency -/

/-- the `pattern.kind != REF && concrete->kind == REF` loop at the top of the matchers -/
def stripRefs : CT → CT
  | .ref t => stripRefs t
  | c => c

/-- `concrete->kind == REF ? concrete->referenced_ts() : concrete` (the `REF` arm) -/
def stripOne : CT → CT
  | .ref t => t
  | c => c

/-- `TypeRegistry::ref`: a reference to a reference is that reference (`REF[REF[X]]` is never interned) -/
def mkRef : CT → CT
  | .ref t => .ref t
  | c => .ref c

mutual
/-- `TypeRegistry::dereference`: removes every `REF` layer, at any depth -/
def derefAll : CT → CT
  | .ref t => derefAll t
  | .tsl e n => .tsl (derefAll e) n
  | .tsd k v => .tsd k (derefAll v)
  | .tsb nm fs => .tsb nm (derefFields fs)
  | .ts s => .ts s
  | .tss s => .tss s
  | .tsw s p m => .tsw s p m
  | .signal => .signal
def derefFields : CFields → CFields
  | .nil => .nil
  | .cons f t r => .cons f (derefAll t) (derefFields r)
end

/-- `graph_wiring_detail::input_accepts_output_schema` (without the `bundle_is_a` inheritance arm):
    a `SIGNAL` input takes anything, otherwise the dereferenced schemas must be EQUIVALENT
    (`time_series_schema_equivalent`: bundle names are not compared) -/
def accepts (input output : CT) : Bool :=
  match input with
  | .signal => true
  | _ => equiv (derefAll input) (derefAll output)

/-! ## matching -/

/-- `scalar_pattern_match` (`Var` and `Concrete` arms) -/
def scalarMatch (p : SP) (c : Sc) (m : RMap) : Option RMap :=
  match p with
  | .var n cs =>
    match m.findSc n with
    | some b => if b = c ∧ allowed cs c then some m else none
    | none => if allowed cs c then some (m.bindSc n c) else none
  | .conc s => if s = c then some m else none

/-- `size_pattern_match` -/
def sizeMatch (p : SizeP) (n : Nat) (m : RMap) : Option RMap :=
  match p with
  | .fixed k => if k = 0 ∨ k = n then some m else none
  | .var v cs =>
    match m.findSz v with
    | some b => if b = n ∧ allowed cs n then some m else none
    | none => if allowed cs n then some (m.bindSz v n) else none

/-- the `Var` arm of `ts_pattern_match` (type_pattern.cpp l.336-345), on an already `REF`-stripped
    schema.  A variable that is already bound compares by IDENTITY of the interned schema
    (`bound == concrete`): for bundles that includes the name. -/
def varMatch (n : Name) (cs : List CT) (c : CT) (m : RMap) : Option RMap :=
  match m.findTs n with
  | some b => if b = c ∧ allowedT cs c then some m else none
  | none => if allowedT cs c then some (m.bindTs n c) else none

/-- the `named_bundle` test of the `TSB` arm: an un-named pattern does not look at the name, a named
    pattern requires `is_named_tsb()` and the same `bundle_name()` -/
def nameOk (pn cn : Option Name) : Bool :=
  match pn with
  | none => true
  | some n => decide (cn = some n)

/-- the `TSW` window test: `any_window || (period == fixed_size && min_period == min_size)` -/
def windowOk (w : Option (Nat × Nat)) (period minp : Nat) : Bool :=
  match w with
  | none => true
  | some (p, mn) => p == period && mn == minp

mutual
/-- `input_ts_pattern_match`.  The early `REF` strip (`pattern.kind != REF && concrete is REF`
    → recurse on the referenced schema, pattern unchanged) is the `stripRefs` at the head of
    every non-`REF`, non-`SIGNAL` arm. -/
def inMatch (p : TP) (c : CT) (m : RMap) : Option RMap :=
  match p with
  | .signal => some m
  | .ref t => inMatch t (stripOne c) m
  | .var n cs => varMatch n cs (stripRefs c) m
  | .conc pc => if accepts pc (stripRefs c) then some m else none
  | .ts s =>
    match stripRefs c with
    | .ts a => scalarMatch s a m
    | _ => none
  | .tss s =>
    match stripRefs c with
    | .tss a => scalarMatch s a m
    | _ => none
  | .tsl e sz =>
    match stripRefs c with
    | .tsl ce n =>
      match sizeMatch sz n m with
      | some m1 => inMatch e ce m1
      | none => none
    | _ => none
  | .tsd k v =>
    match stripRefs c with
    | .tsd ck cv =>
      match scalarMatch k ck m with
      | some m1 => inMatch v cv m1
      | none => none
    | _ => none
  | .tsw s w =>
    match stripRefs c with
    | .tsw a period minp =>
      match scalarMatch s a m with
      | some m1 => if windowOk w period minp then some m1 else none
      | none => none
    | _ => none
  | .tsb pn fs =>
    match stripRefs c with
    | .tsb cn cfs => if nameOk pn cn then inMatchFields fs cfs m else none
    | _ => none
  | .tsbVar n =>
    -- `schema_var`: a re-used schema variable is compared with `time_series_schema_equivalent`
    -- (type_pattern.cpp l.283-287) - structurally, the bundle NAME is not compared
    match stripRefs c with
    | .tsb cn cfs =>
      match m.findTs n with
      | some b => if equiv b (.tsb cn cfs) then some m else none
      | none => some (m.bindTs n (.tsb cn cfs))
    | _ => none
/-- the field loop of the `TSB` arm: same count, same names in order, children match left to right -/
def inMatchFields (fs : PFields) (cfs : CFields) (m : RMap) : Option RMap :=
  match fs, cfs with
  | .nil, .nil => some m
  | .cons f p rest, .cons g c crest =>
    if f = g then
      match inMatch p c m with
      | some m1 => inMatchFields rest crest m1
      | none => none
    else none
  | .nil, .cons _ _ _ => none
  | .cons _ _ _, .nil => none
end

/-! ## substitution (`*_pattern_resolve`) -/

def substS (p : SP) (m : RMap) : Option Sc :=
  match p with
  | .var n _ => m.findSc n
  | .conc s => some s

def substSz (p : SizeP) (m : RMap) : Option Nat :=
  match p with
  | .fixed k => some k
  | .var v _ => m.findSz v

mutual
def subst (p : TP) (m : RMap) : Option CT :=
  match p with
  | .var n _ => m.findTs n
  | .conc c => some c
  | .ts s => (substS s m).map .ts
  | .tss s => (substS s m).map .tss
  | .tsl e sz =>
    match subst e m, substSz sz m with
    | some ce, some n => some (.tsl ce n)
    | _, _ => none
  | .tsd k v =>
    match substS k m, subst v m with
    | some ck, some cv => some (.tsd ck cv)
    | _, _ => none
  | .tsw s w =>
    match substS s m, w with
    | some a, some (p, mn) => some (.tsw a p mn)
    | _, _ => none
  | .tsb pn fs => (substFields fs m).map (.tsb pn)   -- `registry.tsb(bundle_name, ..)` / `un_named_tsb(..)`
  | .tsbVar n => m.findTs n
  | .ref t => (subst t m).map mkRef
  | .signal => some .signal
def substFields (fs : PFields) (m : RMap) : Option CFields :=
  match fs with
  | .nil => some .nil
  | .cons f p rest =>
    match subst p m, substFields rest m with
    | some c, some crest => some (.cons f c crest)
    | _, _ => none
end

/-! ## rank -/

/-- `collect_ts_rank`'s default `var_rank` (operator_dispatch.h l.1152) = `LARGE_RANK`
    (type_pattern.cpp l.21): a bare time-series variable -/
def LARGE_RANK : Nat := 10000
/-- the literal `100` handed to `collect_scalar_rank` under `TS`/`TSS`/`TSW`/`TSD`
    (operator_dispatch.h l.1171, l.1179) = `SCALAR_VAR_RANK` (type_pattern.cpp l.25) -/
def SCALAR_VAR_RANK : Nat := 100
/-- `collect_scalar_rank(p.scalar, acc, 1)` for a scalar *parameter* (operator_dispatch.h l.1202, l.1215) -/
def SCALAR_PARAM_VAR_RANK : Nat := 1
/-- `std::max(1, var_rank / 2)` (operator_dispatch.h l.1126, l.1142, l.1157, l.1162) -/
def decay (v : Nat) : Nat := max 1 (v / 2)
/-- `ts_pattern_rank` bonuses (type_pattern.cpp l.449, l.451) -/
def TSL_SIZE_VAR_BONUS : Nat := 5
def TSL_ANY_SIZE_BONUS : Nat := 10
def TSW_ANY_WINDOW_BONUS : Nat := 10

/-- the accumulator keys `"ts:" + name` / `"scalar:" + name` -/
inductive Key where
  | ts (n : Name)
  | sc (n : Name)
deriving DecidableEq, Repr

/-- `RankAccumulator` -/
structure RankAcc where
  structural : Nat := 0
  vars : List (Key × Nat) := []
deriving Repr

/-- replace the value stored under `k` -/
def setKey (k : Key) (r : Nat) : List (Key × Nat) → List (Key × Nat)
  | [] => []
  | (k', v) :: rest => if k' = k then (k', r) :: rest else (k', v) :: setKey k r rest

/-- `add_var`: `emplace`, and keep the smaller rank when the key is already present -/
def RankAcc.addVar (a : RankAcc) (k : Key) (r : Nat) : RankAcc :=
  match lookup a.vars k with
  | none => { a with vars := (k, r) :: a.vars }
  | some old => if r < old then { a with vars := setKey k r a.vars } else a

def RankAcc.bump (a : RankAcc) : RankAcc := { a with structural := a.structural + 1 }

def sumVals : List (Key × Nat) → Nat
  | [] => 0
  | (_, v) :: rest => v + sumVals rest

/-- `total()` -/
def RankAcc.total (a : RankAcc) : Nat := a.structural + sumVals a.vars

/-- `collect_scalar_rank` -/
def collectS (p : SP) (a : RankAcc) (v : Nat) : RankAcc :=
  match p with
  | .var n cs => a.addVar (.sc n) (if cs.isEmpty then v else decay v)
  | .conc _ => a

mutual
/-- `collect_ts_rank` -/
def collectT (p : TP) (a : RankAcc) (v : Nat) : RankAcc :=
  match p with
  | .var n cs => a.addVar (.ts n) (if cs.isEmpty then v else decay v)
  | .conc _ => a
  | .signal => a
  | .ts s => collectS s a.bump SCALAR_VAR_RANK
  | .tss s => collectS s a.bump SCALAR_VAR_RANK
  | .tsw s _ => collectS s a.bump SCALAR_VAR_RANK
  | .tsl e _ => collectT e a.bump (decay v)
  | .tsd k e => collectT e (collectS k a.bump SCALAR_VAR_RANK) (decay v)
  | .tsbVar n => a.bump.addVar (.ts n) (decay v)
  | .tsb _ fs => collectFields fs a.bump (decay v)
  | .ref t => collectT t a v
def collectFields (fs : PFields) (a : RankAcc) (v : Nat) : RankAcc :=
  match fs with
  | .nil => a
  | .cons _ p rest => collectFields rest (collectT p a v) v
end

/-- `ParamPattern` -/
inductive Param where
  | input (p : TP)
  | scalar (s : SP)
deriving DecidableEq, Repr

def collectParam (a : RankAcc) (p : Param) : RankAcc :=
  match p with
  | .input t => collectT t a LARGE_RANK
  | .scalar s => collectS s a SCALAR_PARAM_VAR_RANK

/-- `operator_rank(params)`: one accumulator across all parameters -/
def operatorRank (ps : List Param) : Nat := (ps.foldl collectParam {}).total

/-- `scalar_pattern_rank` (type_pattern.cpp l.403) -/
def scalarPatternRank (p : SP) : Nat :=
  match p with
  | .var _ cs => if cs.isEmpty then SCALAR_VAR_RANK else SCALAR_VAR_RANK / 2
  | .conc _ => 0

mutual
/-- `ts_pattern_rank` (type_pattern.cpp l.439); `resolve` only uses it for a declared `**kwargs` pack -/
def tsPatternRank (p : TP) : Nat :=
  match p with
  | .var _ cs => if cs.isEmpty then LARGE_RANK else LARGE_RANK / 2
  | .conc _ => 0
  | .ts s => 1 + scalarPatternRank s
  | .tss s => 1 + scalarPatternRank s
  | .tsl e sz =>
    1 + tsPatternRank e +
      (match sz with
       | .var _ _ => TSL_SIZE_VAR_BONUS
       | .fixed k => if k = 0 then TSL_ANY_SIZE_BONUS else 0)
  | .tsd k v => 1 + scalarPatternRank k + tsPatternRank v
  | .tsw s w => 1 + scalarPatternRank s + (if w.isNone then TSW_ANY_WINDOW_BONUS else 0)
  | .tsb _ fs => 1 + tsPatternRankFields fs
  | .tsbVar _ => LARGE_RANK / 2
  | .ref t => tsPatternRank t
  | .signal => 0
def tsPatternRankFields (fs : PFields) : Nat :=
  match fs with
  | .nil => 0
  | .cons _ p rest => tsPatternRank p + tsPatternRankFields rest
end

/-! ## candidates and calls -/

/-- `OperatorImpl` as far as `resolve` looks at it.  `kw`: `none` no `**kwargs`; `some none` an
    un-annotated collector; `some (some p)` a collector with declared pack pattern `p`. -/
structure Overload where
  label : Name
  params : List Param
  out : Option TP
  kw : Option (Option TP) := none
deriving DecidableEq, Repr

/-- `WiringArg` (positional): a time-series port schema or a scalar value of some schema -/
inductive Arg where
  | ts (c : CT)
  | sc (s : Sc)
deriving DecidableEq, Repr

/-- `coerce_scalar_value_to_meta` between the modelled atoms: bool/int/float convert into one
    another by `static_cast`, `str` converts to and from nothing -/
def coercible (src tgt : Sc) : Bool := decide (src < 3) && decide (tgt < 3)

/-- the rank adjustment `try_match` makes for a `**kwargs` collector before looking at arguments -/
def kwAdjust (kw : Option (Option TP)) : Nat :=
  match kw with
  | none => 0
  | some none => 1
  | some (some p) => 1 + tsPatternRank p

/-- the per-argument loop of `try_match`.  Result: the map (`none` = rejected) and the
    `rank_adjustment` accumulated up to the point of return. -/
def matchArgs : List Param → List Arg → RMap → Nat → Option RMap × Nat
  | [], [], m, adj => (some m, adj)
  | .input p :: ps, .ts c :: as, m, adj =>
    match inMatch p c m with
    | some m1 => matchArgs ps as m1 adj
    | none => (none, adj)
  | .input _ :: _, .sc _ :: _, _, adj => (none, adj + 1)     -- const promotion: outside the model
  | .scalar _ :: _, .ts _ :: _, _, adj => (none, adj)        -- "argument should be a scalar"
  | .scalar (.conc s) :: ps, .sc a :: as, m, adj =>
    if a = s then matchArgs ps as m adj
    else if coercible a s then matchArgs ps as m (adj + 1)
    else (none, adj)
  | .scalar (.var n cs) :: ps, .sc a :: as, m, adj =>
    match scalarMatch (.var n cs) a m with
    | some m1 => matchArgs ps as m1 adj
    | none => (none, adj)
  | [], _ :: _, _, adj => (none, adj)
  | _ :: _, [], _, adj => (none, adj)

/-- can the declared output be produced from the bindings (`ts_pattern_resolve(output) != nullptr`) -/
def outResolvable (out : Option TP) (m : RMap) : Bool :=
  match out with
  | none => true
  | some p => (subst p m).isSome

/-- `normalize_call` (positional arguments only: the arity must be exact) followed by `try_match` -/
def tryMatch (o : Overload) (args : List Arg) : Option RMap × Nat :=
  if o.params.length ≠ args.length then (none, 0)
  else
    match matchArgs o.params args RMap.empty (kwAdjust o.kw) with
    | (some m, adj) => if outResolvable o.out m then (some m, adj) else (none, adj)
    | (none, adj) => (none, adj)

/-- an entry of `resolve`'s `survivors` vector -/
structure Survivor where
  ov : Overload
  map : RMap
  rank : Nat
deriving DecidableEq, Repr

def survivorOf (args : List Arg) (o : Overload) : Option Survivor :=
  match tryMatch o args with
  | (some m, adj) => some ⟨o, m, operatorRank o.params + adj⟩
  | (none, _) => none

/-- the candidate loop, in registration order -/
def survivors (os : List Overload) (args : List Arg) : List Survivor := os.filterMap (survivorOf args)

/-- a rejected candidate as reported in the wiring observer's event: label and effective rank -/
def rejectedOf (args : List Arg) (o : Overload) : Option (Name × Nat) :=
  match tryMatch o args with
  | (some _, _) => none
  | (none, adj) => some (o.label, operatorRank o.params + adj)

/-- insert in front of the first element that is not strictly smaller -/
def insertByRank (s : Survivor) : List Survivor → List Survivor
  | [] => [s]
  | x :: xs => if x.rank < s.rank then x :: insertByRank s xs else s :: x :: xs

/-- `std::stable_sort(survivors, a.rank < b.rank)`: equal ranks keep registration order -/
def stableSort (l : List Survivor) : List Survivor := l.foldr insertByRank []

/-- the resolved output schema of a survivor -/
def outputOf (s : Survivor) : Option CT :=
  match s.ov.out with
  | none => none
  | some p => subst p s.map

inductive Outcome where
  | noMatch                                   -- `OperatorResolutionError("no matching overload …")`
  | ambiguous (tied : List Survivor)          -- `OperatorResolutionError("ambiguous overloads …")`
  | winner (s : Survivor) (out : Option CT)   -- `ResolvedOperatorCall`
deriving DecidableEq, Repr

/-- `OperatorRegistry::resolve` after the candidate loop -/
def decide_ (sorted : List Survivor) : Outcome :=
  match sorted with
  | [] => .noMatch
  | [s] => .winner s (outputOf s)
  | s0 :: s1 :: rest =>
    if s0.rank = s1.rank then .ambiguous ((s0 :: s1 :: rest).filter (fun s => s.rank = s0.rank))
    else .winner s0 (outputOf s0)

def resolveCall (os : List Overload) (args : List Arg) : Outcome :=
  decide_ (stableSort (survivors os args))

end HgVerif.Dispatch
