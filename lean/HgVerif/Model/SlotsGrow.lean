import HgVerif.Model.Slots
/-!
Growth of the slot table (property C05, "growth across slot-capacity boundaries").

`Model/Slots.lean` keeps ONE lifecycle state per slot (`St`: free / live / pending erase) and grows the table by
appending free slots (`Store.reserveTo`).  That is literally what the tagged-pointer flavour of `StableSlotStore`
does (`TaggedPointerStableSlotStoreImpl::reserve_to`: the pointer table is copied, the tag travels with the pointer,
new slots are tagged `Free`).  For payloads whose alignment is below pointer alignment (TSS / TSD KEY types bool,
int8/16/32, uint*, float, date) `StableSlotStore` selects the BITMAP flavour instead, which keeps the lifecycle in
two separately stored planes and has to carry BOTH across a growth step.  This file models that code
(`include/hgraph/types/utils/slot_bitmap.h`, `include/hgraph/types/utils/impl/stable_slot_store_impl.h`):

* `Bitmap`  = `SlotBitmap`: `bit_count` and the physical bits of `words[0 .. word_count)`, 64 per word
  (`bits`, so `bits.length = 64 * words_for(bit_count)`); `test / set / reset` are guarded by `bit < bit_count`
  as in the code; the bits of the last word beyond `bit_count` are zero (`clear_unused_bits`, an invariant —
  `Bitmap.WF` — not a modelling choice: `resizedBitmapCopy` copies WHOLE words, so it relies on it).
* `resizedBitmapCopy` = `detail::resized_bitmap_copy`: a zeroed bitmap of the new size whose first
  `min(source.word_count, result.word_count)` words are the source's words.
* `Planes`  = `BitmapStableSlotStoreImpl<ConstructedAndLive>`: `slot_count_`, `constructed_`, `live_`;
  `reserveTo` (`next_constructed = resized_bitmap_copy(constructed_, capacity)`,
  `next_live = resized_live_bitmap(capacity) = resized_bitmap_copy(live_, capacity)`), `markStaged`, `markLive`,
  `markPending`, `markFree` with the guards of the code; `Planes.st` reads the per-slot state the way
  `KeySlotStore` does (`constructed(slot)`, `live(slot)`, pending erase = constructed and not live).
  `Planes.reserveToS83` is the seeded variant /verif/seeded/s83 (live plane seeded from the CONSTRUCTED plane).
* `Planes.Abs p l`: the planes implement the `st` fields of the slot list `l` of `Model/Slots.lean`.
* `Store.reserveToS83 / TSS.*S83`: what the seeded variant does in terms of `Model/Slots.lean` (every pending-erase
  slot becomes live when the table grows) — used for the kernel-checked counter-witness only.

The mutation views also expose growth directly: `TSSDataMutationView::reserve` / `TSDDataMutationView::reserve`
(`keys_.reserve_to(capacity); ensure_delta_capacity();` — no `prepare_delta`, no tick).  `TSS.reserve`, `TSD.reserve`
and the operation types `SetOpG` / `DictOpG` (an ordinary operation or a reserve) extend the histories of
`Model/Slots.lean` by growth steps at arbitrary points of a cycle.  `contains()` is `find_slot != npos`.

Core Lean only (no Mathlib) so the driver can run it.
-/
namespace HgVerif.Slots
local notation "Time" => Nat

/-! ## `SlotBitmap` -/

/-- `SlotBitmap::words_for` with `bits_per_word = 64` -/
def wordsFor (bits : Nat) : Nat := (bits + 64 - 1) / 64

structure Bitmap where
  bits : List Bool := []      -- physical bits of words[0 .. word_count), 64 per word
  bitCount : Nat := 0         -- bit_count
deriving Repr, DecidableEq

def Bitmap.wordCount (b : Bitmap) : Nat := wordsFor b.bitCount

/-- `test`: `bit < bit_count && (words[bit / 64] & mask) != 0` -/
def Bitmap.test (b : Bitmap) (i : Nat) : Bool := decide (i < b.bitCount) && b.bits.getD i false
/-- `set(bit)`: ignored when `bit >= bit_count` -/
def Bitmap.set (b : Bitmap) (i : Nat) : Bitmap := if i < b.bitCount then { b with bits := b.bits.set i true } else b
/-- `reset(bit)` -/
def Bitmap.reset (b : Bitmap) (i : Nat) : Bitmap := if i < b.bitCount then { b with bits := b.bits.set i false } else b
/-- `SlotBitmap result; result.resize(size)`: freshly allocated zero words, `clear_unused_bits` -/
def Bitmap.zeros (size : Nat) : Bitmap := { bits := List.replicate (64 * wordsFor size) false, bitCount := size }
/-- `count()`: popcount over the used words -/
def Bitmap.count (b : Bitmap) : Nat := b.bits.count true

/-- `detail::resized_bitmap_copy(source, size)`: whole words are copied -/
def resizedBitmapCopy (src : Bitmap) (size : Nat) : Bitmap :=
  let r := Bitmap.zeros size
  let preserved := min src.wordCount r.wordCount
  { r with bits := src.bits.take (64 * preserved) ++ r.bits.drop (64 * preserved) }

/-! ## `BitmapStableSlotStoreImpl<ConstructedAndLive>` -/

structure Planes where
  slotCount : Nat := 0          -- slot_count_
  constructed : Bitmap := {}    -- constructed_
  live : Bitmap := {}           -- live_
deriving Repr, DecidableEq

def Planes.isConstructed (p : Planes) (i : Nat) : Bool := p.constructed.test i
def Planes.isLive (p : Planes) (i : Nat) : Bool := p.live.test i

/-- `reserve_to(capacity)` -/
def Planes.reserveTo (p : Planes) (cap : Nat) : Planes :=
  if cap ≤ p.slotCount then p
  else { slotCount := cap
         constructed := resizedBitmapCopy p.constructed cap
         live := resizedBitmapCopy p.live cap }            -- resized_live_bitmap: from the LIVE plane

/-- the seeded variant s83: `resized_live_bitmap` returns `resized_bitmap_copy(constructed_, size)` -/
def Planes.reserveToS83 (p : Planes) (cap : Nat) : Planes :=
  if cap ≤ p.slotCount then p
  else { slotCount := cap
         constructed := resizedBitmapCopy p.constructed cap
         live := resizedBitmapCopy p.constructed cap }

/-- `mark_staged` -/
def Planes.markStaged (p : Planes) (i : Nat) : Planes :=
  { p with constructed := p.constructed.set i, live := p.live.reset i }
/-- `mark_live`: refused unless constructed and not live -/
def Planes.markLive (p : Planes) (i : Nat) : Planes × Bool :=
  if !p.isConstructed i || p.isLive i then (p, false)
  else ({ p with constructed := p.constructed.set i, live := p.live.set i }, true)
/-- `mark_pending`: refused unless live -/
def Planes.markPending (p : Planes) (i : Nat) : Planes × Bool :=
  if !p.isLive i then (p, false) else ({ p with live := p.live.reset i }, true)
/-- `mark_free` -/
def Planes.markFree (p : Planes) (i : Nat) : Planes :=
  { p with constructed := p.constructed.reset i, live := p.live.reset i }

/-- the slot state as `KeySlotStore` reads it: `slot_live`, `slot_pending_erase = constructed && !live` -/
def Planes.st (p : Planes) (i : Nat) : St :=
  if p.isLive i then .live else if p.isConstructed i then .pending else .free

/-- planes of a slot list (used by the driver-side self check and by the non-vacuity examples) -/
def Planes.ofSlots (l : List Slot) : Planes :=
  let pad := List.replicate (64 * wordsFor l.length - l.length) false
  { slotCount := l.length
    constructed := { bits := l.map (fun s => s.st != .free) ++ pad, bitCount := l.length }
    live := { bits := l.map (fun s => s.st == .live) ++ pad, bitCount := l.length } }

/-! ## the seeded variant in terms of `Model/Slots.lean` -/

def resurrect (s : Slot) : Slot := if s.st == .pending then { s with st := .live } else s

/-- growth that flips every pending-erase slot back to live (what `Planes.reserveToS83` does to the states) -/
def Store.reserveToS83 (s : Store) (cap : Nat) : Store :=
  if cap ≤ s.slots.length then s
  else { s with slots := s.slots.map resurrect ++ List.replicate (cap - s.slots.length) {}
                free := List.range' s.slots.length (cap - s.slots.length) ++ s.free }

def Store.acquireFreeS83 (s : Store) : Store × Nat :=
  (if s.free.isEmpty then s.reserveToS83 (max (s.size + 1) (max 8 (s.slots.length * 2))) else s).popFree

def Store.insertS83 (s : Store) (k : Key) : Store × InsRes :=
  match findStored s.slots k with
  | some i =>
    if (sget s.slots i).st == .pending then
      let pc := s.pendCount - 1
      ({ s with slots := s.slots.modify i (fun x => { x with st := .live })
                pendCount := pc
                pend := if pc == 0 then [] else s.pend
                size := s.size + 1 }, ⟨i, true, false⟩)
    else (s, ⟨i, false, false⟩)
  | none =>
    let r := s.acquireFreeS83
    ({ r.1 with slots := r.1.slots.modify r.2 (fun x => { x with st := .live, key := k, cval := 0, clmt := 0 })
                size := r.1.size + 1 }, ⟨r.2, true, true⟩)

def TSS.insertKeyS83 (x : TSS) (t : Time) (k : Key) : TSS × Bool :=
  let x1 := x.prepareDelta t
  let r := x1.keys.insertS83 k
  if r.2.inserted then ({ x1 with keys := r.1.modifySlot r.2.slot insBits }, true)
  else ({ x1 with keys := r.1 }, false)

def TSS.addS83 (x : TSS) (t : Time) (k : Key) : TSS × Bool := TSS.afterMut (x.insertKeyS83 t k) t

def TSS.stepS83 (x : TSS) (o : SetOp) : TSS :=
  if o.time == 0 then x else
  match o with
  | .add t k => (x.addS83 t k).1
  | .rem t k => (x.remove t k).1
  | .clear t => x.clear t
  | .touch t => x.touchOp t

def TSS.runS83 (x : TSS) (ops : List SetOp) : TSS := ops.foldl TSS.stepS83 x

/-! ## explicit growth through the mutation views, `contains()` -/

/-- `TSSSlotStorage::reserve`: `keys_.reserve_to(capacity); ensure_delta_capacity();` -/
def TSS.reserve (x : TSS) (cap : Nat) : TSS := { x with keys := x.keys.reserveTo cap }
/-- `TSDSlotStorage::reserve` -/
def TSD.reserve (x : TSD) (cap : Nat) : TSD := { x with keys := x.keys.reserveTo cap }

/-- `contains(key)`: `keys_.find_slot(key) != npos` -/
def TSS.contains (x : TSS) (k : Key) : Bool := (findLive x.keys.slots k).isSome
def TSD.contains (x : TSD) (k : Key) : Bool := (findLive x.keys.slots k).isSome

/-- an ordinary operation of `Model/Slots.lean`, or a growth step of the slot table -/
inductive SetOpG where
  | op (o : SetOp)
  | reserve (t : Time) (cap : Nat)
deriving Repr, DecidableEq

def SetOpG.time : SetOpG → Time
  | .op o => o.time | .reserve t _ => t

/-- the mutation view refuses `MIN_DT` before anything is touched -/
def TSS.stepG (x : TSS) : SetOpG → TSS
  | .op o => x.step o
  | .reserve t cap => if t == 0 then x else x.reserve cap

def TSS.runG (x : TSS) (ops : List SetOpG) : TSS := ops.foldl TSS.stepG x

inductive DictOpG where
  | op (o : DictOp)
  | reserve (t : Time) (cap : Nat)
deriving Repr, DecidableEq

def DictOpG.time : DictOpG → Time
  | .op o => o.time | .reserve t _ => t

def TSD.stepG (x : TSD) : DictOpG → TSD
  | .op o => x.step o
  | .reserve t cap => if t == 0 then x else x.reserve cap

def TSD.runG (x : TSD) (ops : List DictOpG) : TSD := ops.foldl TSD.stepG x

end HgVerif.Slots
