/-
Model of the OUTPUT side of a keyed map: the owned `TSD` output of `map_` with its per-slot delta
bookkeeping, the owned elements (one per live key) and what a mapped child does to its element — in
particular a child whose output is a REFERENCE-ROUTED terminal (`if_(cond, ts).true`, a `switch_`),
binding mode `MapOutputBindingMode::OutputElementForwardsToChildTerminal`: the element FORWARDS to the
child's terminal, whose reference can be re-targeted, also to an EMPTY reference (the element is then
not valid), while the child evaluates.

Read from /repo (same cases, same order of side effects):

* `src/hgraph/types/metadata/ts_data_slot_ops.cpp`, `TSDSlotStorage`:
  `prepare_delta` (`roll`: the lazy, monotonic delta window — pending-erase slots are invalidated and
  erased, the added / removed / modified bits are reset, `delta_time_ = t`), `record_child_modified`
  (`recSlot`: an element WITHOUT a current value drops its modified mark and, when it was published,
  is un-published: `added` reset or `removed` set; an element WITH a current value is published —
  `removed` reset or `added` set — and marked modified), `insert_key` (`insertKey`, with the
  resurrect-a-pending-erase-slot case and `restore_modified_mark`), `remove_key` (`removeKey`).
* `src/hgraph/types/time_series/ts_data/types.cpp`, `TSParentLink::notify_child_modified`
  (`notifyChild`): `record_child_modified_impl` on the owning container, then the container's own
  `record_modified` (`tm`), unconditionally.
* the commit idiom of every forwarding endpoint / mutation view
  (`if (tracking.record_modified(t)) tracking.parent.notify_child_modified(t)`): `mark` — the FIRST
  record of an element for an evaluation time bubbles up to the container, a repeat does not.
* `src/hgraph/runtime/mapped_child_bindings.h`, `finalize_mapped_child_output` (`finalize`): after a
  mapped child was evaluated, an element that is bound, `valid()` (its own tracking:
  `last_modified_time != MIN_DT`) and modified at the evaluation time is recorded again (result of
  `record_modified` IGNORED) and the container is notified UNCONDITIONALLY, so the container sees
  the element's FINAL validity.  An element that was not modified in this cycle is left alone
  (`return`): this is the early return behind finding C10-B, modelled as it is.
* `src/hgraph/runtime/map_node.cpp`: `remove_entry_at_slot` erases the owned element while it is
  still published; `create_entry_at_slot` instantiates the element (`(*output_mutation)[key]`)
  before the child's terminal is bound; the evaluation loop calls `finalize…` after every COMPLETED
  child evaluation.

What a child evaluation does to its element is a list of `RefOp`s: `bind v` — the element gets the
current value `v` (the terminal wrote it, or the reference was (re-)targeted to a source whose value
is `v`: the sampled re-bind records a tick), `clear` — the reference became empty: the element has no
current value any more; NOTHING is recorded (observed on the real runtime: `last_modified_time` of the
element stays, `modified()` is false unless a tick was recorded earlier in the cycle).
A source tick that reaches the element through its current route BEFORE the map node runs (the element
forwards to the terminal, the terminal to the source: plain notification, no child evaluation needed)
is `RefIn.pre`.

Times are microsecond counts, `MIN_DT = 0`.  Core Lean only.
-/
namespace HgVerif.MapNodeRef

/-- one slot of the owned output `TSD`: the element and the container's bits for it -/
structure Slot (ο : Type) where
  live : Bool := false         -- `keys_.slot_live(slot)`
  val : Option ο := none       -- the element's current value through its forwarding chain (`has_current_value`)
  lm : Nat := 0                -- the element's own `tracking.last_modified_time` (`MIN_DT` = 0)
  pub : Bool := false          -- `value_published_`
  added : Bool := false
  removed : Bool := false
  modified : Bool := false

structure D (κ ο : Type) where
  dt : Nat := 0                           -- `delta_time_`
  tm : Nat := 0                           -- the container's own `tracking_.last_modified_time`
  slot : κ → Slot ο := fun _ => {}

variable {κ ο : Type} [DecidableEq κ]

def upd (d : D κ ο) (k : κ) (s : Slot ο) : D κ ο := { d with slot := fun j => if j = k then s else d.slot j }

/-- `prepare_delta` for one slot when the window moves: a pending-erase slot is invalidated and erased,
    a live slot loses its delta bits -/
def rollSlot (s : Slot ο) : Slot ο :=
  if s.live then { s with added := false, removed := false, modified := false } else {}

/-- `prepare_delta(t)`: monotonic — an older or equal time joins the current window -/
def roll (now : Nat) (d : D κ ο) : D κ ο :=
  if now ≤ d.dt then d else { d with dt := now, slot := fun k => rollSlot (d.slot k) }

/-- `TSDSlotStorage::record_child_modified`, the slot part (after `slot_live` and `prepare_delta`) -/
def recSlot (s : Slot ο) : Slot ο :=
  if s.val.isNone then
    if !s.pub then { s with modified := false }
    else if s.added then { s with modified := false, pub := false, added := false }
    else { s with modified := false, pub := false, removed := true }
  else
    if !s.pub then
      if s.removed then { s with pub := true, removed := false, modified := true }
      else { s with pub := true, added := true, modified := true }
    else { s with modified := true }

/-- `TSParentLink::notify_child_modified` of an element of the owned dictionary -/
def notifyChild (now : Nat) (d : D κ ο) (k : κ) : D κ ο :=
  let d1 := if (d.slot k).live then (let r := roll now d; upd r k (recSlot (r.slot k))) else d
  { d1 with tm := now }

/-- `if (tracking.record_modified(t)) tracking.parent.notify_child_modified(t)` -/
def mark (now : Nat) (d : D κ ο) (k : κ) : D κ ο :=
  if (d.slot k).lm = now then d else notifyChild now (upd d k { (d.slot k) with lm := now }) k

/-- what a child evaluation (or a plain source tick through the current route) does to its element -/
inductive RefOp (ο : Type) where
  | clear               -- the terminal's reference became EMPTY
  | bind (v : ο)        -- the element has the current value `v` (written, or re-targeted and sampled)

def applyOp (now : Nat) (d : D κ ο) (k : κ) : RefOp ο → D κ ο
  | .clear => if (d.slot k).live then upd d k { (d.slot k) with val := none } else d
  | .bind v => if (d.slot k).live then mark now (upd d k { (d.slot k) with val := some v }) k else d

/-- `finalize_mapped_child_output` -/
def finalize (now : Nat) (d : D κ ο) (k : κ) : D κ ο :=
  let s := d.slot k
  if s.live && (s.lm != 0 && s.lm == now) then notifyChild now d k else d

/-- the seeded variant (s70): the container is only notified when `record_modified` reports the FIRST
    record for this time — never, here, because `finalize` only runs for an element that already is
    modified at `now`.  Not used by the model; kept for the non-vacuity examples. -/
def finalizeGuarded (now : Nat) (d : D κ ο) (k : κ) : D κ ο :=
  let s := d.slot k
  if s.live && (s.lm != 0 && s.lm == now) then (if s.lm = now then d else notifyChild now d k) else d

/-- `(*output_mutation)[key]` → `insert_key` -/
def insertKey (now : Nat) (d : D κ ο) (k : κ) : D κ ο :=
  let r := roll now d
  let s := r.slot k
  if s.live then r else
  let s1 : Slot ο :=
    if s.removed then { s with live := true, removed := false, pub := true }     -- resurrected pending-erase slot
    else { live := true }                                                         -- fresh element, never valid
  let s2 := if s1.pub && s1.lm == now then { s1 with modified := true } else s1   -- `restore_modified_mark`
  { upd r k s2 with tm := now }

/-- `output_mutation->erase(key)` → `remove_key` (the forwarding tree of the element is stopped) -/
def removeKey (now : Nat) (d : D κ ο) (k : κ) : D κ ο :=
  let r := roll now d
  let s := r.slot k
  if !s.live then r else
  let s1 : Slot ο :=
    if s.pub then
      if s.added then { s with live := false, val := none, modified := false, pub := false, added := false }
      else { s with live := false, val := none, modified := false, pub := false, removed := true }
    else { s with live := false, val := none, modified := false }
  { upd r k s1 with tm := now }

/-! ## one engine cycle -/

structure RefIn (κ ο : Type) where
  now : Nat
  /-- source ticks that reach an element through its current route before the map node runs -/
  pre : List (κ × ο) := []
  /-- keys whose entry is removed / created by `map_reconcile_keys` -/
  removed : List κ := []
  added : List κ := []
  /-- the children evaluated to completion, in evaluation order, with what each did to its element -/
  evals : List (κ × List (RefOp ο)) := []

/-- one completed child evaluation followed by `finalize_mapped_child_output` -/
def evalKey (now : Nat) (d : D κ ο) (ko : κ × List (RefOp ο)) : D κ ο :=
  finalize now (ko.2.foldl (fun d o => applyOp now d ko.1 o) d) ko.1

def refCycle (I : RefIn κ ο) (d : D κ ο) : D κ ο :=
  let d1 := I.pre.foldl (fun d kv => applyOp I.now d kv.1 (.bind kv.2)) d
  let d2 := I.removed.foldl (removeKey I.now) d1
  let d3 := I.added.foldl (insertKey I.now) d2
  I.evals.foldl (evalKey I.now) d3

/-! ## observables (what `record` on the map output sees at `now`) -/

/-- the dictionary ticked at `now` -/
def ticked (d : D κ ο) (now : Nat) : Bool := d.tm == now

/-- key `k` is reported removed in the delta of `now` -/
def isRemoved (d : D κ ο) (now : Nat) (k : κ) : Bool := d.dt == now && (d.slot k).removed
/-- key `k` is reported added in the delta of `now` -/
def isAdded (d : D κ ο) (now : Nat) (k : κ) : Bool := d.dt == now && ((d.slot k).live && (d.slot k).added)
/-- key `k` is reported as a modified item, with this value -/
def modifiedVal (d : D κ ο) (now : Nat) (k : κ) : Option ο :=
  if d.dt == now && ((d.slot k).live && (d.slot k).modified) then (d.slot k).val else none
/-- key `k` is in the output dictionary as its consumers know it (published) -/
def inOut (d : D κ ο) (k : κ) : Bool := (d.slot k).live && (d.slot k).pub

end HgVerif.MapNodeRef
