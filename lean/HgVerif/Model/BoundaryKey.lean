/-
Node interning inside a compiled CHILD wiring (C09, structured boundary parameters).

`src/hgraph/types/graph_wiring.cpp`: `Wiring::add_node` interns nodes by an `InstanceKey` = (definition, node schema,
per input an `InputKey` = (`SourceKey`, target path, rank flag, passive flag), scalars).  `source_key_for` copies the
identity of the input's source into the key: a peered source contributes (node, path, output kind); a sub-graph BOUNDARY
source contributes (captured?, ordinal = declared argument index or capture index, projection PATH); every key carries
the source's schema.  Two `add_node` requests with equal keys return ONE node.  In the inlined wiring the elements of a
structured argument are peered sources (node + path); in the compiled child they are boundary sources (ordinal + path).
A structural source is keyed by its children's keys, recursively; here an input that is a structure is represented by
the list of its leaf sources with their target paths (the C++ key compares the same data).  Core Lean only.
-/
namespace HgVerif.BoundaryKey

/-- the identity of a wiring source (`WiringPortRef`, leaf forms) -/
inductive Src where
  | peered (node : Nat) (path : List Nat) (kind : Nat) (schema : Nat)
  | declared (arg : Nat) (path : List Nat) (schema : Nat)        -- boundary source of a declared argument
  | captured (index : Nat) (path : List Nat) (schema : Nat)      -- boundary source of a captured outer port
deriving DecidableEq, Repr

/-- `SourceKey`: every field is always present, the ones that do not apply keep their defaults -/
structure SourceKey where
  kind : Nat                 -- SourceKind: 2 Peered, 4 Boundary
  schema : Nat
  peeredNode : Nat := 0
  peeredPath : List Nat := []
  peeredKind : Nat := 0
  boundaryArg : Nat := 0
  boundaryPath : List Nat := []
  capturedBoundary : Bool := false
deriving DecidableEq, Repr

/-- `source_key_for` as coded -/
def sourceKeyFor : Src → SourceKey
  | .peered n p k s => { kind := 2, schema := s, peeredNode := n + 1, peeredPath := p, peeredKind := k }
  | .declared a p s => { kind := 4, schema := s, boundaryArg := a, boundaryPath := p, capturedBoundary := false }
  | .captured i p s => { kind := 4, schema := s, boundaryArg := i, boundaryPath := p, capturedBoundary := true }

/-- the variant of seed s85: the path of a DECLARED argument is left out of the key -/
def sourceKeyForNoDeclaredPath : Src → SourceKey
  | .declared a _ s => { kind := 4, schema := s, boundaryArg := a, capturedBoundary := false }
  | x => sourceKeyFor x

/-- one `add_node` request: definition, scalars (interned value id), inputs = (source, target path) -/
structure Req where
  defn : Nat
  scalars : Nat
  inputs : List (Src × List Nat)
deriving DecidableEq, Repr

structure InstanceKey where
  defn : Nat
  scalars : Nat
  inputs : List (SourceKey × List Nat)
deriving DecidableEq, Repr

def keyWith (f : Src → SourceKey) (r : Req) : InstanceKey :=
  { defn := r.defn, scalars := r.scalars, inputs := r.inputs.map fun i => (f i.1, i.2) }

def keyOf : Req → InstanceKey := keyWith sourceKeyFor

/-- the interning table: first index holding an equal key -/
def find {α : Type} [DecidableEq α] : List α → α → Option Nat
  | [], _ => none
  | q :: r, p => if q = p then some 0 else (find r p).map (· + 1)

/-- `Wiring::add_node`: (instance, table) -/
def addNode {α : Type} [DecidableEq α] (tbl : List α) (k : α) : Nat × List α :=
  match find tbl k with
  | some i => (i, tbl)
  | none => (tbl.length, tbl ++ [k])

/-- the instances the requests of one compose body get, in order -/
def internAll {α : Type} [DecidableEq α] (ks : List α) : List α := ks.foldl (fun t k => (addNode t k).2) []

/-- the instance request `r` of the body `rs` ends up as (with key function `f`) -/
def instanceWith (f : Src → SourceKey) (rs : List Req) (r : Req) : Option Nat :=
  find (internAll (rs.map (keyWith f))) (keyWith f r)

def instanceOf : List Req → Req → Option Nat := instanceWith sourceKeyFor

/-- the request whose node instance `r` is served by: the FIRST request with that key (its inputs are the ones wired) -/
def servedByWith (f : Src → SourceKey) (rs : List Req) (r : Req) : Option Req :=
  rs.find? fun q => keyWith f q = keyWith f r

/-! ### a pass-through result (`NestedGraphOutputBinding::Kind::ParentInput`) -/

/-- how the outer argument of a structured parameter is given -/
inductive ArgForm where
  | peeredOutput             -- one node output (TSL / TSB)
  | structuralInitializer    -- `{a, b}`: a non-peered outer input position assembled from several outputs
deriving DecidableEq, Repr

/-- `single_nested_graph_bind_output`, ParentInput branch: the forwarding tree is bound to
    `walk_ts_path(root_input, parent_source_path).bound_output()`; a non-peered position has no bound output, the
    tree is cleared (`clear_forwarding_output_tree`) and stays so (the leaves are not visited) -/
def parentInputSource : ArgForm → Option Unit
  | .peeredOutput => some ()
  | .structuralInitializer => none

end HgVerif.BoundaryKey
