/-
Model of the feedback pair of `src/hgraph/runtime/feedback_node.cpp`: the sink captures the producer's
delta and schedules the paired source at `evaluation_time + MIN_TD`; the source (ranked before every
reader, hence before the sink) emits the captured delta when that time comes.  One delta slot.
Core Lean only.
-/
namespace HgVerif.Feedback

structure FB where
  pend : Option (Nat × Int) := none     -- (delivery time, value)
deriving Repr, DecidableEq

/-- the source's evaluation at `t` -/
def sourceStep (t : Nat) (s : FB) : FB × Option Int :=
  match s.pend with
  | some (d, v) => if d = t then ({ pend := none }, some v) else (s, none)
  | none => (s, none)

/-- the sink's evaluation at `t`; `w` = the value the producer wrote in this cycle, if it ticked -/
def sinkStep (t : Nat) (w : Option Int) (s : FB) : FB :=
  match w with
  | some v => { pend := some (t + 1, v) }     -- and schedule_node(source, t + MIN_TD)
  | none => s

/-- one engine cycle: source first (rank), sink last -/
def cycle (t : Nat) (w : Option Int) (s : FB) : FB × Option Int :=
  let r := sourceStep t s
  (sinkStep t w r.1, r.2)

/-- run over a list of cycles `(time, producer write)`; returns the reader's ticks `(time, value)` -/
def run : FB → List (Nat × Option Int) → List (Nat × Int)
  | _, [] => []
  | s, (t, w) :: rest =>
    let r := cycle t w s
    match r.2 with
    | some v => (t, v) :: run r.1 rest
    | none => run r.1 rest

/-- cycle lists the engine can produce: times strictly increase, and a write at `t` is followed by a
    cycle at exactly `t + 1` (the sink's schedule request is honoured — C02) unless the run ends -/
def WF : List (Nat × Option Int) → Prop
  | [] => True
  | [_] => True
  | (t, w) :: (t', w') :: rest => t < t' ∧ (w.isSome → t' = t + 1) ∧ WF ((t', w') :: rest)

/-- the specification: every written value, one smallest step later -/
def shifted : List (Nat × Option Int) → List (Nat × Int)
  | [] => []
  | [_] => []
  | (t, w) :: (t', w') :: rest =>
    match w with
    | some v => (t + 1, v) :: shifted ((t', w') :: rest)
    | none => shifted ((t', w') :: rest)

end HgVerif.Feedback
