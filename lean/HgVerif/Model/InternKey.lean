import HgVerif.Model.Intern
/-!
Wiring statements whose inputs name earlier statements by *label*, on top of the interning table of
`Model/Intern.lean`.

`Wiring::add_node` (`graph_wiring.cpp`) builds the `InstanceKey` of a declaration from the node
definition / scalars and, per input, the producing **`WiringInstance*`** plus everything else the
`InputKey` records (source path, output kind, passive marker, rank flag, slot).  The producer pointer
is whatever the producer declaration was interned to, so the key of a declaration depends on the
statements wired before it.  `step` is that: resolve the input labels to node ids through `env`, look
the key `(defn, resolved inputs)` up with `Intern.addNode`, bind the label to the node.

`semL` is the order-free reading of the same statements: the expression tree of every label.

The second half (`Schema`, `SDecl`, `stepS`) is the key *as coded*: `InstanceKey` also holds the node's
resolved `WiringNodeSchema` - six interned schema pointers - and `Wiring::add_node` decides whether a node
takes part in interning from that record (`schema.output != nullptr`).  `stepP π` is the same statement with
the schema record seen through a projection `π` before it enters the key: `π = id` is the code, any other
`π` is a key that forgets part of the resolved type (`Schema.noOutput`: the key without the output schema).
Core Lean only.
-/
namespace HgVerif.InternKey
open HgVerif.Intern

/-- association-list lookup, first match wins (a later binding of a label shadows an earlier one) -/
def get {Λ β : Type} [DecidableEq Λ] : List (Λ × β) → Λ → Option β
  | [], _ => none
  | (l', v) :: rest, l => if l' = l then some v else get rest l

/-- one wiring statement: `lbl = defn(ins…)`; `α` is what the key records about an input besides its
    producer (slot, sub-path, output kind, passive marker, rank flag) -/
structure LDecl (Λ δ α : Type) where
  lbl : Λ
  defn : δ
  ins : List (Λ × α)
  sink : Bool := false

/-- the interning key after resolution: definition (+ scalars) and the inputs by producer node -/
abbrev Key (δ α : Type) := δ × List (Nat × α)

structure LSt (Λ δ α : Type) where
  st : St (Key δ α) := {}
  env : List (Λ × Nat) := []          -- label ↦ node id of the port the label denotes

variable {Λ δ α : Type} [DecidableEq Λ]

def resolve (env : List (Λ × Nat)) (ins : List (Λ × α)) : List (Nat × α) :=
  ins.map fun p => ((get env p.1).getD 0, p.2)

/-- one statement: `Wiring::add_node` with the key built from the resolved producers; a value node binds
    its label, a sink returns no port -/
def step [DecidableEq δ] [DecidableEq α] (s : LSt Λ δ α) (d : LDecl Λ δ α) : LSt Λ δ α × Nat :=
  let r := addNode s.st { key := (d.defn, resolve s.env d.ins), sink := d.sink }
  ({ st := r.1, env := if d.sink then s.env else (d.lbl, r.2) :: s.env }, r.2)

def wireL [DecidableEq δ] [DecidableEq α] : LSt Λ δ α → List (LDecl Λ δ α) → LSt Λ δ α
  | s, [] => s
  | s, d :: rest => wireL (step s d).1 rest

/-! ### the order-free reading: expression trees -/

inductive Tree (δ α : Type) where
  | mk (defn : δ) (ins : List (Tree δ α × α)) : Tree δ α

/-- the inputs of a statement as trees (`dflt` stands in for a label that is not declared; statements of
    an admissible program never need it) -/
def treeIns (te : List (Λ × Tree δ α)) (dflt : Tree δ α) (ins : List (Λ × α)) : List (Tree δ α × α) :=
  ins.map fun p => ((get te p.1).getD dflt, p.2)

def treeOf (te : List (Λ × Tree δ α)) (d : LDecl Λ δ α) : Tree δ α :=
  .mk d.defn (treeIns te (.mk d.defn []) d.ins)

def semStep (te : List (Λ × Tree δ α)) (d : LDecl Λ δ α) : List (Λ × Tree δ α) :=
  if d.sink then te else (d.lbl, treeOf te d) :: te

def semL : List (Λ × Tree δ α) → List (LDecl Λ δ α) → List (Λ × Tree δ α)
  | te, [] => te
  | te, d :: rest => semL (semStep te d) rest

/-- admissible statement order: every input names a label that is already declared (`L` = labels so far) -/
def Adm : List Λ → List (LDecl Λ δ α) → Prop
  | _, [] => True
  | L, d :: rest => (∀ p ∈ d.ins, p.1 ∈ L) ∧ Adm (if d.sink then L else d.lbl :: L) rest

/-- admissible statement order of a program whose value declarations carry pairwise different labels -/
def AdmU : List Λ → List (LDecl Λ δ α) → Prop
  | _, [] => True
  | L, d :: rest => (∀ p ∈ d.ins, p.1 ∈ L) ∧ (d.sink = false → d.lbl ∉ L) ∧
      AdmU (if d.sink then L else d.lbl :: L) rest

/-! ### the key as coded: definition + scalars, resolved schema, inputs -/

/-- `WiringNodeSchema` (`graph_wiring.h`): the schema pointers of the resolved node type that enter the key
    (`resolved_schema_of`: input / output / error_output / recordable_state / scalar / state of the builder's
    `NodeTypeMetaData`); `none` = `nullptr`; the registry interns schemas, pointer equality is `=` on `τ` -/
structure Schema (τ : Type) where
  input : Option τ := none
  output : Option τ := none
  errorOutput : Option τ := none
  recordableState : Option τ := none
  scalar : Option τ := none
  state : Option τ := none
  deriving DecidableEq

/-- one wiring statement with the schema its definition was RESOLVED to (for a generic definition the type
    variables are bound by the input ports, the scalars, or - an output-only variable - by nothing but the
    requested output type) -/
structure SDecl (Λ δ τ α : Type) where
  lbl : Λ
  defn : δ                 -- `InstanceKey::def` and `InstanceKey::scalars`
  schema : Schema τ        -- `InstanceKey::schema`
  ins : List (Λ × α)       -- `InstanceKey::inputs`, producers still by label

/-- `const bool interns = schema.output != nullptr;` -/
def SDecl.interns {Λ δ τ α : Type} (d : SDecl Λ δ τ α) : Bool := d.schema.output.isSome

/-- `InstanceKey` after resolution of the producers: ((definition + scalars, schema), inputs) -/
abbrev SKey (δ τ α : Type) := Key (δ × Schema τ) α

/-- the statement as the generic machinery sees it when the key records `π schema`; output-less nodes bypass
    the table whatever the key is made of -/
def SDecl.toL {Λ δ τ α σ : Type} (π : Schema τ → σ) (d : SDecl Λ δ τ α) : LDecl Λ (δ × σ) α :=
  { lbl := d.lbl, defn := (d.defn, π d.schema), ins := d.ins, sink := !d.interns }

/-- `Wiring::add_node` with a key that records `π schema` -/
def stepP {σ τ : Type} [DecidableEq δ] [DecidableEq σ] [DecidableEq α] (π : Schema τ → σ)
    (s : LSt Λ (δ × σ) α) (d : SDecl Λ δ τ α) : LSt Λ (δ × σ) α × Nat := step s (d.toL π)

def wireP {σ τ : Type} [DecidableEq δ] [DecidableEq σ] [DecidableEq α] (π : Schema τ → σ)
    (s : LSt Λ (δ × σ) α) (ds : List (SDecl Λ δ τ α)) : LSt Λ (δ × σ) α := wireL s (ds.map (·.toL π))

/-- `Wiring::add_node` as coded: the whole schema record is in the key -/
def stepS {τ : Type} [DecidableEq δ] [DecidableEq τ] [DecidableEq α]
    (s : LSt Λ (δ × Schema τ) α) (d : SDecl Λ δ τ α) : LSt Λ (δ × Schema τ) α × Nat := stepP id s d

def wireS {τ : Type} [DecidableEq δ] [DecidableEq τ] [DecidableEq α]
    (s : LSt Λ (δ × Schema τ) α) (ds : List (SDecl Λ δ τ α)) : LSt Λ (δ × Schema τ) α := wireP id s ds

/-- the variant key that leaves the resolved OUTPUT schema out ("implied by the node and its inputs") -/
def Schema.noOutput {τ : Type} (σ : Schema τ) : Option τ × Option τ × Option τ × Option τ × Option τ :=
  (σ.input, σ.errorOutput, σ.recordableState, σ.scalar, σ.state)

/-- the variant key that leaves the resolved SCALAR schema out -/
def Schema.noScalar {τ : Type} (σ : Schema τ) : Option τ × Option τ × Option τ × Option τ × Option τ :=
  (σ.input, σ.output, σ.errorOutput, σ.recordableState, σ.state)

/-- the order-free reading of the statements as coded: trees whose nodes carry definition, scalars AND the
    resolved schema -/
def semS {τ : Type} (ds : List (SDecl Λ δ τ α)) : List (Λ × Tree (δ × Schema τ) α) :=
  semL [] (ds.map (·.toL id))

/-- admissible statement order (labels declared before use; `AdmSU`: value labels pairwise different) -/
def AdmS {τ : Type} (L : List Λ) (ds : List (SDecl Λ δ τ α)) : Prop := Adm L (ds.map (·.toL id))
def AdmSU {τ : Type} (L : List Λ) (ds : List (SDecl Λ δ τ α)) : Prop := AdmU L (ds.map (·.toL id))

end HgVerif.InternKey
