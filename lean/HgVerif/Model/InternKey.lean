import HgVerif.Model.Intern
/-!
Wiring statements whose inputs name earlier statements by *label*, on top of the interning table of
`Model/Intern.lean`.

`Wiring::add_node` (`graph_wiring.cpp`) builds the `InstanceKey` of a declaration from the node
definition / scalars and, per input, the producing **`WiringInstance*`** plus everything else the
`InputKey` records (source path, output kind, passive marker, rank flag, slot).  The producer pointer
is whatever the producer declaration was interned to, so the key of a declaration depends on the
statements wired before it.  `step` is that: resolve the input labels to node ids through `env`, look
the key `(defn, resolved inputs)` up with `Intern.addNode`, bind the label to the node.

`semL` is the order-free reading of the same statements: the expression tree of every label.
Core Lean only.
-/
namespace HgVerif.InternKey
open HgVerif.Intern

/-- association-list lookup, first match wins (a later binding of a label shadows an earlier one) -/
def get {Λ β : Type} [DecidableEq Λ] : List (Λ × β) → Λ → Option β
  | [], _ => none
  | (l', v) :: rest, l => if l' = l then some v else get rest l

/-- one wiring statement: `lbl = defn(ins…)`; `α` is what the key records about an input besides its
    producer (slot, sub-path, output kind, passive marker, rank flag) -/
structure LDecl (Λ δ α : Type) where
  lbl : Λ
  defn : δ
  ins : List (Λ × α)
  sink : Bool := false

/-- the interning key after resolution: definition (+ scalars) and the inputs by producer node -/
abbrev Key (δ α : Type) := δ × List (Nat × α)

structure LSt (Λ δ α : Type) where
  st : St (Key δ α) := {}
  env : List (Λ × Nat) := []          -- label ↦ node id of the port the label denotes

variable {Λ δ α : Type} [DecidableEq Λ]

def resolve (env : List (Λ × Nat)) (ins : List (Λ × α)) : List (Nat × α) :=
  ins.map fun p => ((get env p.1).getD 0, p.2)

/-- one statement: `Wiring::add_node` with the key built from the resolved producers; a value node binds
    its label, a sink returns no port -/
def step [DecidableEq δ] [DecidableEq α] (s : LSt Λ δ α) (d : LDecl Λ δ α) : LSt Λ δ α × Nat :=
  let r := addNode s.st { key := (d.defn, resolve s.env d.ins), sink := d.sink }
  ({ st := r.1, env := if d.sink then s.env else (d.lbl, r.2) :: s.env }, r.2)

def wireL [DecidableEq δ] [DecidableEq α] : LSt Λ δ α → List (LDecl Λ δ α) → LSt Λ δ α
  | s, [] => s
  | s, d :: rest => wireL (step s d).1 rest

/-! ### the order-free reading: expression trees -/

inductive Tree (δ α : Type) where
  | mk (defn : δ) (ins : List (Tree δ α × α)) : Tree δ α

/-- the inputs of a statement as trees (`dflt` stands in for a label that is not declared; statements of
    an admissible program never need it) -/
def treeIns (te : List (Λ × Tree δ α)) (dflt : Tree δ α) (ins : List (Λ × α)) : List (Tree δ α × α) :=
  ins.map fun p => ((get te p.1).getD dflt, p.2)

def treeOf (te : List (Λ × Tree δ α)) (d : LDecl Λ δ α) : Tree δ α :=
  .mk d.defn (treeIns te (.mk d.defn []) d.ins)

def semStep (te : List (Λ × Tree δ α)) (d : LDecl Λ δ α) : List (Λ × Tree δ α) :=
  if d.sink then te else (d.lbl, treeOf te d) :: te

def semL : List (Λ × Tree δ α) → List (LDecl Λ δ α) → List (Λ × Tree δ α)
  | te, [] => te
  | te, d :: rest => semL (semStep te d) rest

/-- admissible statement order: every input names a label that is already declared (`L` = labels so far) -/
def Adm : List Λ → List (LDecl Λ δ α) → Prop
  | _, [] => True
  | L, d :: rest => (∀ p ∈ d.ins, p.1 ∈ L) ∧ Adm (if d.sink then L else d.lbl :: L) rest

/-- admissible statement order of a program whose value declarations carry pairwise different labels -/
def AdmU : List Λ → List (LDecl Λ δ α) → Prop
  | _, [] => True
  | L, d :: rest => (∀ p ∈ d.ins, p.1 ∈ L) ∧ (d.sink = false → d.lbl ∉ L) ∧
      AdmU (if d.sink then L else d.lbl :: L) rest

end HgVerif.InternKey
