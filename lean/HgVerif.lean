-- This module serves as the root of the `HgVerif` library.
-- Import modules here that should be built as part of the library.
import HgVerif.Basic
