-- Root of the `HgVerif` library: models, lemmas and property theorems.
import HgVerif.Driver.Proto
import HgVerif.Model.Extracted
import HgVerif.Model.Tie
import HgVerif.Model.NodeSched
import HgVerif.Lemmas.NodeSched
import HgVerif.Props.C18
import HgVerif.Model.Sched
import HgVerif.Lemmas.Sched
import HgVerif.Model.Engine
import HgVerif.Props.C15
import HgVerif.Model.Rank
import HgVerif.Lemmas.Rank
import HgVerif.Props.C01Rank
