-- Root of the `HgVerif` library: models, lemmas and property theorems.
import HgVerif.Driver.Proto
import HgVerif.Model.NodeSched
import HgVerif.Lemmas.NodeSched
import HgVerif.Props.C18
